"""C02 translated BODIES (round 4): Python `ast` -> Lean (lean/Mouette/Generated/C02Bodies.lean), re-extracted on every run from
$MOUETTE_REPO/mouette/mesh/mesh_data.py and data_container.py.

Round 7: `accessors_program` also reads `__getitem__`, `__setitem__` (under its re-raising try), `__iter__`, `__iadd__` (both
branches), the three container constructors, `get_attribute` and `create_attribute`; the compiled bodies call them
(`dcGet`, `dcSet`, `dcIter`, `dcIaddList`, `dcInit`, `dcCreateAttribute`).

Round 6 adds dedicated straight-line translators: `from_arrays_program`, `load_program` (bodies with `raise` / `return`,
compiled to `Except String _` terms chained by `Except.bind`), `dimensionality_program` (the cached property) and
`accessors_program` (one-line `return <expr>` bodies of `__len__`, `empty`, `has_attribute`, `attributes`, `id_*`, emitted as
abbreviations that the compiled bodies call).

Whitelist (round 5): CornerDataContainer.append, DataContainer.append (data_container.py); _complete_faces_from_cells,
_complete_edges_from_faces, _prepare_vertices, _prepare_edges (validity test, rebuild loop through a fresh DataContainer with
attribute handles kept in two dicts, in-place normalisation), _prepare_faces, _prepare_cells (over rows tagged with their Python
container type), _generate_face_corners, _generate_cell_corners, _generate_cell_faces, and RawMeshData.__init__ (one conditional
binding per container: `init_program`).  Additional forms for these: `any(<generator over the edges>)`, `DataContainer(id="edges")`,
`d[k] = C.get_attribute(k)` / `d[k] = C.create_attribute(k, h.type, h.elemsize, dense=isinstance(h, ArrayAttribute),
default_value=h._default_value)` (dicts of attribute HANDLES: the Lean value is the list of keys, a handle is (container, name)),
`isinstance(h, ArrayAttribute)`, `i in h`, `h[i]`, `d[k][n] = v`, `self.edges = <container>`, `isinstance(row, np.ndarray)`,
`row.tolist()`, `for a in self._attr.values(): a._expand(1)`.

Every function on the whitelist is read IMPERATIVELY, statement by statement, and compiled to a state-passing Lean definition
over the model's record `Raw` (= `self` of a RawMeshData; `VState` for `_prepare_vertices`, the pair (`_elem`, `_adj`) for
`CornerDataContainer.append`).  Vocabulary and the meaning of every recognised Python operation: lean/Mouette/Model/PrepareSource.lean.

  statement forms   local `v = e`; tuple unpacking of a row (`v0,v1,v2,v3 = C`, symbolic) or of a stored edge; `if c: return` /
                    `if c: continue`; `if/elif/else` (the names a branch rebinds are returned by the conditional); `for x in <rows>`,
                    `for i in range(n)`, `for i, R in enumerate(<rows>)`, `for e in self.id_<container>` -> `foldl` of a separate
                    definition `<f>_loop<k>` (parameters: the locals the body reads, the loop-carried state = the record paired
                    with the locals the body rebinds, the loop variable); `self.<container>.append(..)`; `<set>.add(k)`;
                    `<dict>[k] = v`; `self.<corner container>._elem = []` / `_adj = []`; `self.<corner>._elem += [i]*len(C)`;
                    `self.<corner>._elem.append(x)`; `self.vertices[i] = v`; `self.edges[i] = e`; `<attribute handle>[e] = True`;
                    `n += 1`; nested `def f(a, b): return <expr>` (inlined at its calls).
  expressions       integer arithmetic, comparisons (chained ones too), and/or/not, `len`, `X.empty()`, `row[i]`, `edge[0]`,
                    `utils.keyify`, `set([.. for x in X])`, `sum([len(x) for x in X])`, `k in <set>`, `d.get(k, None)`, `x is None`,
                    `[i]*n`, tuples / lists of unpacked cell vertices, `Vec`, `np.pad`, `.ndim`, `.size`, `.dtype.kind in ".."`,
                    `.astype(np.float64)`, `self.edges.has_attribute(..)`, `self.edges.create_attribute(name, bool)`.

Tolerated respellings (normalised away before compiling, so that the generated text does not change): renamed locals (alpha-renamed
v0, v1, .. in order of first binding); `not a == b` = `a != b`; `not a in b` = `a not in b`; `a > b` = `b < a`; `a >= b` = `b <= a`;
operand order of `==` / `!=`; `x = x + e` = `x += e`; `self.id_edges` = `range(len(self.edges))` (what the property returns);
`len(X) == 0` = `X.empty()`; `None is x` = `x is None`; `4 == len(C)` = `len(C) == 4`; docstrings, comments, `pass`, type annotations, log / warning calls.
Anything else raises TranslateError -> the site is a broken obligation -> failing-input search (props/c02.py).
"""
import ast
import copy

from .. import translate as T
from ..translate import TranslateError

MD_FILE = "mouette/mesh/mesh_data.py"
DC_FILE = "mouette/mesh/data_container.py"

LEAN_TY = {"nat": "Nat", "int": "Int", "bool": "Bool", "str": "String", "row": "List Nat", "rows": "List (List Nat)",
           "edge": "Int × Int", "edges": "List (Int × Int)", "rowset": "List (List Nat)", "edgeset": "List (Int × Int)",
           "vrow": "VRow", "vrows": "List VRow", "facedict": "FaceDict", "optnat": "Option Nat", "handle": "String",
           "raw": "Raw", "vstate": "VState", "cpair": "List Nat × List Nat", "optrows": "Option (List (List Nat))",
           "dcont": "List α × List Attr", "any": "α", "rawr": "RawR", "rrow": "Row (List Nat)", "rrows": "List (Row (List Nat))",
           "econt": "ECont", "strs": "List String", "hdict": "List String", "aval": "Int"}
ELEM = {"rows": "row", "edges": "edge", "row": "nat", "vrows": "vrow", "rowset": "row", "edgeset": "edge", "rrows": "rrow",
        "strs": "str", "hdict": "str"}
# self.<container> of a RawMeshData -> (lean term, type)
CONTAINERS = {"faces": ("s.faces", "rows"), "cells": ("s.cells", "rows"), "edges": ("s.edges", "edges")}
CORNERS = {"face_corners": ("fcElem", "fcAdj"), "cell_corners": ("ccElem", "ccAdj"), "cell_faces": ("cfElem", "cfAdj")}
ID_PROPS = {"id_vertices": "vertices", "id_edges": "edges", "id_faces": "faces", "id_cells": "cells"}


def _is_self(n, attr=None):
    return isinstance(n, ast.Attribute) and isinstance(n.value, ast.Name) and n.value.id == "self" and (attr is None or n.attr == attr)


def _callfree(n):
    return not any(isinstance(x, ast.Call) for x in ast.walk(n))


# ------------------------------------------------------------------------------------------------------------------
# normalisation
# ------------------------------------------------------------------------------------------------------------------
class Norm(ast.NodeTransformer):
    def visit_UnaryOp(self, n):
        self.generic_visit(n)
        if isinstance(n.op, ast.Not) and isinstance(n.operand, ast.Compare) and len(n.operand.ops) == 1:
            c = n.operand
            flip = {ast.Eq: ast.NotEq, ast.NotEq: ast.Eq, ast.In: ast.NotIn, ast.NotIn: ast.In, ast.Is: ast.IsNot, ast.IsNot: ast.Is}
            if type(c.ops[0]) in flip:
                return ast.copy_location(ast.Compare(c.left, [flip[type(c.ops[0])]()], c.comparators), n)
        return n

    def visit_Compare(self, n):
        self.generic_visit(n)
        if len(n.ops) == 1:
            op, a, b = n.ops[0], n.left, n.comparators[0]
            if isinstance(op, (ast.Is, ast.IsNot)) and isinstance(a, ast.Constant) and a.value is None and not isinstance(b, ast.Constant):
                return ast.copy_location(ast.Compare(b, [op], [a]), n)      # `None is x` reads `x is None`
            if isinstance(op, (ast.Gt, ast.GtE)) and _callfree(a) and _callfree(b):
                return ast.copy_location(ast.Compare(b, [ast.Lt() if isinstance(op, ast.Gt) else ast.LtE()], [a]), n)
            # len(X) == 0  ->  X.empty()   (containers only)
            if isinstance(op, (ast.Eq, ast.NotEq)):
                for x, y in ((a, b), (b, a)):
                    if isinstance(y, ast.Constant) and y.value == 0 and isinstance(x, ast.Call) and isinstance(x.func, ast.Name) \
                            and x.func.id == "len" and len(x.args) == 1 and _is_self(x.args[0]) and x.args[0].attr in ("faces", "cells", "edges", "vertices"):
                        e = ast.Call(ast.Attribute(x.args[0], "empty", ast.Load()), [], [])
                        return ast.copy_location(e if isinstance(op, ast.Eq) else ast.UnaryOp(ast.Not(), e), n)
        return n

    def visit_Assign(self, n):
        self.generic_visit(n)
        if len(n.targets) == 1 and isinstance(n.value, ast.BinOp) and isinstance(n.value.op, (ast.Add, ast.Sub)):
            t, v = n.targets[0], n.value
            if isinstance(t, (ast.Name, ast.Attribute, ast.Subscript)):
                if ast.unparse(v.left) == ast.unparse(t):
                    return ast.copy_location(ast.AugAssign(t, v.op, v.right), n)
                if isinstance(v.op, ast.Add) and ast.unparse(v.right) == ast.unparse(t) and _callfree(v.left) \
                        and isinstance(v.left, (ast.Constant, ast.Name)):
                    return ast.copy_location(ast.AugAssign(t, v.op, v.left), n)
        return n

    def visit_AnnAssign(self, n):
        self.generic_visit(n)
        if n.value is None: return None
        return ast.copy_location(ast.Assign([n.target], n.value), n)

    def visit_Attribute(self, n):
        self.generic_visit(n)
        if _is_self(n) and n.attr in ID_PROPS:      # the property `id_x` returns range(len(self.x)) (checked by the translator)
            return ast.copy_location(ast.Call(ast.Name("range", ast.Load()), [ast.Call(ast.Name("len", ast.Load()),
                                     [ast.Attribute(ast.Name("self", ast.Load()), ID_PROPS[n.attr], ast.Load())], [])], []), n)
        return n


def _is_noise(s):
    if isinstance(s, ast.Pass): return True
    if isinstance(s, ast.Expr) and isinstance(s.value, ast.Constant): return True
    if isinstance(s, ast.Expr) and isinstance(s.value, ast.Call):
        f = s.value.func
        txt = ast.unparse(f)
        if txt in ("print", "warnings.warn") or txt.startswith("logging.") or txt.startswith("log.") or txt.startswith("logger."):
            return True
    return False


def _strip(stmts):
    return [s for s in stmts if not _is_noise(s)]


def _order_eq(n):
    """operand order of == / != : smaller unparse first (after alpha-renaming)"""
    for c in ast.walk(n):
        if isinstance(c, ast.Compare) and len(c.ops) == 1 and isinstance(c.ops[0], (ast.Eq, ast.NotEq)):
            a, b = c.left, c.comparators[0]
            if isinstance(a, ast.Constant) and not isinstance(b, ast.Constant):
                c.left, c.comparators = b, [a]                          # `4 == len(C)` reads `len(C) == 4`
            elif _callfree(a) and _callfree(b) and isinstance(b, (ast.Name, ast.Subscript, ast.Attribute)) \
                    and isinstance(a, (ast.Name, ast.Subscript, ast.Attribute)) and ast.unparse(a) > ast.unparse(b):
                c.left, c.comparators = b, [a]


class Rename(ast.NodeTransformer):
    """alpha-renaming of the locals: v0, v1, .. in order of first binding (parameters keep a positional name)"""

    def __init__(self, params):
        self.map = {p: f"a{k}" for k, p in enumerate(params)}
        self.n = 0

    def bind(self, name):
        if name not in self.map:
            self.map[name] = f"v{self.n}"; self.n += 1

    def visit_Name(self, n):
        if isinstance(n.ctx, ast.Store): self.bind(n.id)
        if n.id in self.map: n.id = self.map[n.id]
        return n

    def visit_FunctionDef(self, n):       # nested def: its name and parameters are locals
        self.bind(n.name); n.name = self.map[n.name]
        for a in n.args.args:
            self.bind(a.arg); a.arg = self.map[a.arg]
        n.body = [self.visit(s) for s in n.body]
        return n

    def visit_For(self, n):
        n.iter = self.visit(n.iter)       # evaluated before the target is bound
        n.target = self.visit(n.target)
        n.body = [self.visit(s) for s in n.body]
        n.orelse = [self.visit(s) for s in n.orelse]
        return n

    def visit_Assign(self, n):
        n.value = self.visit(n.value)
        n.targets = [self.visit(t) for t in n.targets]
        return n

    def visit_ListComp(self, n):
        for g in n.generators:
            g.iter = self.visit(g.iter); g.target = self.visit(g.target); g.ifs = [self.visit(i) for i in g.ifs]
        n.elt = self.visit(n.elt)
        return n
    visit_GeneratorExp = visit_ListComp


def prepared_body(fn):
    fn = copy.deepcopy(fn)
    fn = Norm().visit(fn)
    ast.fix_missing_locations(fn)
    params = [a.arg for a in fn.args.args if a.arg != "self"]
    rn = Rename(params)
    fn.body = [rn.visit(s) for s in _strip(fn.body)]
    _order_eq(fn)
    return fn, [rn.map[p] for p in params]


# ------------------------------------------------------------------------------------------------------------------
# the compiler
# ------------------------------------------------------------------------------------------------------------------
def _assigned(stmts):
    """names (re)bound by the statements, recursively; and whether the instance state is written"""
    names, state = [], False
    nested = _assigned.nested = []
    for st in stmts:
        for n in ast.walk(st):
            if isinstance(n, ast.Name) and isinstance(n.ctx, ast.Store) and n.id not in names: names.append(n.id)
            if isinstance(n, (ast.Assign, ast.AugAssign)):
                for t in (n.targets if isinstance(n, ast.Assign) else [n.target]):
                    b = t
                    while isinstance(b, (ast.Subscript, ast.Attribute)) and not _is_self(b): b = b.value
                    if _is_self(b): state = True
                    if isinstance(t, ast.Subscript) and isinstance(t.value, ast.Subscript) and isinstance(t.value.value, ast.Name) \
                            and t.value.value.id not in nested:
                        nested.append(t.value.value.id)     # `d[k][i] = v`: writes the container the handles of d point into
                    if isinstance(t, ast.Subscript) and isinstance(t.value, ast.Name):
                        state = True            # an attribute handle (or a local dict: then threading the state is harmless)
                        if t.value.id not in names: names.append(t.value.id)
            if isinstance(n, ast.Call) and isinstance(n.func, ast.Attribute) and n.func.attr == "create_attribute":
                state = True
                if isinstance(n.func.value, ast.Name) and n.func.value.id not in names: names.append(n.func.value.id)   # a local container
            if isinstance(n, ast.Call) and isinstance(n.func, ast.Attribute) and n.func.attr in ("append", "add"):
                b = n.func.value
                if isinstance(b, ast.Name):
                    if b.id not in names: names.append(b.id)
                else:
                    state = True
    return names, state


def _reads(stmts):
    out = []
    for st in stmts:
        for n in ast.walk(st):
            if isinstance(n, ast.Name) and n.id not in out: out.append(n.id)
    return out


def _jumps(stmts):
    return any(isinstance(n, (ast.Continue, ast.Return, ast.Break)) for st in stmts for n in ast.walk(st))


class Fn:
    def __init__(self, pyname, lean, fn, state="raw", corner_append_sig=None):
        self.py, self.lean, self.state = pyname, lean, state
        self.fn, self.params = prepared_body(fn)
        self.env = {}            # name -> (lean text, type) | ("unpacked", row lean, index) | ("lambda", params, expr)
        self.defs = []           # emitted loop definitions (inner first)
        self.nloop = 0
        self.corner_sig = corner_append_sig
        self.pending_types = self._first_types()
        self.hd = {}             # dict of attribute handles -> ("self",) | ("local", <container variable>)
        self.data_append = False # DataContainer.append was translated (then `X.append(v)` goes through it)
        self.acc = False         # the one-line accessors (__len__, empty, has_attribute, id_*) were translated

    def err(self, msg):
        raise TranslateError(f"{self.py}: {msg}")

    # -- a local assigned `[]` / dict() first takes the type of its later use ---------------------------------------------
    def _first_types(self):
        return {}

    # -- expressions ---------------------------------------------------------------------------------------------------
    def cast(self, e, t, want):
        if t == want: return e
        if t == "nat" and want == "int": return f"(({e} : Nat) : Int)" if not e.isdigit() else f"({e} : Int)"
        self.err(f"cannot use a {t} as {want}")

    def ex(self, n):
        if isinstance(n, ast.Constant):
            if isinstance(n.value, bool): return ("true" if n.value else "false"), "bool"
            if isinstance(n.value, int) and n.value >= 0: return str(n.value), "nat"
            if isinstance(n.value, str): return '"' + n.value + '"', "str"
            if n.value is None: return "none", "optnat"
            self.err(f"unsupported constant {n.value!r}")
        if isinstance(n, ast.Name):
            if n.id not in self.env: self.err(f"unbound name {n.id}")
            b = self.env[n.id]
            if b[0] == "unpacked": return f"getN {b[1]} {b[2]}", "nat"
            if b[0] == "unpackedE": return f"{b[1]}.{b[2] + 1}", "int"
            if b[0] == "lambda": self.err("a nested function used as a value")
            if b[1] == "optrows": return f"(orEmpty {b[0]})", "rows"      # possibly unbound local: UnboundLocalError is not modelled
            return b
        if _is_self(n):
            if self.state == "vstate":
                if n.attr == "vertices": return "s.verts", "vrows"
                self.err(f"self.{n.attr} read in a function about vertices only")
            if self.state == "rawr":
                if n.attr in ("faces", "cells"): return f"s.{n.attr}", "rrows"
                self.err(f"self.{n.attr} read in a row-conversion function")
            if self.state == "raw":
                if n.attr in CONTAINERS: return CONTAINERS[n.attr]
                if n.attr == "vertices": return "s.verts", "rawverts"
            self.err(f"attribute self.{n.attr} used as a value")
        if isinstance(n, ast.Attribute):
            # corner lists
            if isinstance(n.value, ast.Attribute) and _is_self(n.value) and n.value.attr in CORNERS and n.attr in ("_elem", "_adj"):
                return "s." + CORNERS[n.value.attr][0 if n.attr == "_elem" else 1], "row"
            if self.state == "cpair" and _is_self(n) and n.attr in ("_elem", "_adj"):
                return ("c.1" if n.attr == "_elem" else "c.2"), "row"
            if n.attr == "attributes" and _is_self(n.value, "edges") and self.state == "raw":
                if not self.acc: self.err("the container accessors were not translated")
                return "(dcAttributes (s.edges, s.eattrs))", "strs"
            e, t = self.ex(n.value)
            if t == "vrow" and n.attr in ("ndim", "size"): return f"{self.atom(e)}.{n.attr}", "nat"
            self.err(f"unsupported attribute {ast.unparse(n)}")
        if isinstance(n, ast.Subscript):
            v, tv = self.ex(n.value)
            if tv == "edge" and isinstance(n.slice, ast.Constant) and n.slice.value in (0, 1):
                return f"{self.atom(v)}.{n.slice.value + 1}", "int"
            i, ti = self.ex(n.slice)
            if tv == "hdict" and ti == "str":
                return f"{self.hattrs(n.value.id)}|{i}", "ahandle"        # the attribute called <i> of the container the dict points into
            if ti != "nat": self.err(f"index of type {ti}")
            if tv == "ahandle":
                A, k = v.split("|")
                return f"attrRead {A} {k} {self.atom(i)}", "aval"
            pr = self.pair(n.value)
            if pr is not None and tv in ("rrows", "vrows", "edges"):     # `self.<container>[i]`: DataContainer.__getitem__ (translated)
                d = {"rrows": "(.list [])", "vrows": "default", "edges": "(0, 0)"}[tv]
                return f"dcGet {pr} {self.atom(i)} {d}", ELEM[tv]
            if tv == "rrows": return f"rowGet {self.atom(v)} {self.atom(i)}", "rrow"
            if tv == "row": return f"getN {self.atom(v)} {self.atom(i)}", "nat"
            if tv == "vrows": return f"vget {self.atom(v)} {self.atom(i)}", "vrow"
            if tv == "edges": return f"edgeGet {self.atom(v)} {self.atom(i)}", "edge"
            self.err(f"subscript of a {tv}")
        if isinstance(n, ast.UnaryOp) and isinstance(n.op, ast.Not):
            e, t = self.ex(n.operand)
            if t != "bool": self.err(f"`not` of a {t}")
            return f"(!{e})", "bool"
        if isinstance(n, ast.BoolOp):
            parts = [self.ex(v) for v in n.values]
            if any(t != "bool" for _, t in parts): self.err("and/or of non-booleans")
            return "(" + (" && " if isinstance(n.op, ast.And) else " || ").join(e for e, _ in parts) + ")", "bool"
        if isinstance(n, ast.BinOp):
            a, ta = self.ex(n.left); b, tb = self.ex(n.right)
            if isinstance(n.op, ast.Mult) and ta == "row" and tb == "nat" and isinstance(n.left, ast.List) and len(n.left.elts) == 1:
                x, _ = self.ex(n.left.elts[0])
                return f"List.replicate {self.atom(b)} {self.atom(x)}", "row"
            sym = {ast.Add: "+", ast.Sub: "-", ast.Mod: "%", ast.Mult: "*"}.get(type(n.op))
            if sym is None or ta != "nat" or tb != "nat": self.err(f"arithmetic {type(n.op).__name__} on {ta},{tb}")
            return f"({a} {sym} {b})", "nat"
        if isinstance(n, ast.Compare):
            terms = [n.left] + list(n.comparators)
            if len(n.ops) == 1 and isinstance(n.ops[0], (ast.In, ast.NotIn)):
                neg = isinstance(n.ops[0], ast.NotIn)
                # `v.dtype.kind in "iub"`
                a = n.left
                if isinstance(a, ast.Attribute) and a.attr == "kind" and isinstance(a.value, ast.Attribute) and a.value.attr == "dtype" \
                        and isinstance(n.comparators[0], ast.Constant) and isinstance(n.comparators[0].value, str):
                    v, tv = self.ex(a.value.value)
                    if tv != "vrow": self.err("dtype.kind of a non-vertex")
                    r = f'kindIn {self.atom(v)} "{n.comparators[0].value}"'
                    return (f"(!{r})" if neg else r), "bool"
                k, tk = self.ex(a)
                st, ts = self.ex(n.comparators[0])
                if (ts, tk) == ("ahandle", "nat"):
                    A, key = st.split("|")
                    r = f"attrHas {A} {key} {self.atom(k)}"
                    return (f"(!{r})" if neg else r), "bool"
                if (ts, tk) not in (("rowset", "row"), ("edgeset", "edge")): self.err(f"membership of a {tk} in a {ts}")
                r = f"(setHas {self.atom(st)} {self.atom(k)})"
                return (f"(!{r})" if neg else r), "bool"
            if len(n.ops) == 1 and isinstance(n.ops[0], (ast.Is, ast.IsNot)) and isinstance(n.comparators[0], ast.Constant) and n.comparators[0].value is None:
                e, t = self.ex(n.left)
                if t != "optnat": self.err(f"`is None` test of a {t}")
                return (f"{self.atom(e)}.isNone" if isinstance(n.ops[0], ast.Is) else f"{self.atom(e)}.isSome"), "bool"
            vals = [self.ex(t) for t in terms]
            ty = "int" if any(t == "int" for _, t in vals) else "nat"
            if any(t not in ("nat", "int") for _, t in vals): self.err(f"comparison of {[t for _, t in vals]}")
            parts = []
            for (a, ta), op, (b, tb) in zip(vals, n.ops, vals[1:]):
                sym = {ast.Eq: "=", ast.NotEq: "≠", ast.Lt: "<", ast.LtE: "≤"}.get(type(op))
                if sym is None: self.err(f"comparison operator {type(op).__name__}")
                parts.append(f"decide ({self.cast(a, ta, ty)} {sym} {self.cast(b, tb, ty)})")
            return (parts[0] if len(parts) == 1 else "(" + " && ".join(parts) + ")"), "bool"
        if isinstance(n, (ast.Tuple, ast.List)):
            if not n.elts:
                return "[]", "empty"
            vals = [self.ex(e) for e in n.elts]
            if all(t == "nat" for _, t in vals): return "[" + ", ".join(e for e, _ in vals) + "]", "row"
            if all(t == "row" for _, t in vals): return "[" + ", ".join(e for e, _ in vals) + "]", "rows"
            self.err(f"tuple/list of {[t for _, t in vals]}")
        if isinstance(n, (ast.ListComp, ast.GeneratorExp)):
            return self.comp(n)
        if isinstance(n, ast.Call):
            return self.call(n)
        self.err(f"unsupported expression {ast.unparse(n)[:80]}")

    def pair(self, node):
        """`self.<container>` as the pair (rows, attributes) the translated DataContainer accessors take; None if `node` is not one"""
        if not (_is_self(node) and self.acc): return None
        a = node.attr
        if self.state == "raw":
            if a == "edges": return "(s.edges, s.eattrs)"
            if a in ("faces", "cells"): return f"(s.{a}, ([] : List Attr))"
            if a == "vertices": return "(s.verts, ([] : List Attr))"
        if self.state == "vstate" and a == "vertices": return "(s.verts, ([] : List Attr))"
        if self.state == "rawr" and a in ("faces", "cells"): return f"(s.{a}, ([] : List Attr))"
        return None

    def hattrs(self, d):
        """Lean term of the attribute list the handles stored in dict `d` point into"""
        h = self.hd.get(d)
        if h is None: self.err(f"{d} is not a dict of attribute handles")
        return "s.eattrs" if h[0] == "self" else f"{h[1]}.2"

    def atom(self, e):
        return e if (e.replace(".", "").replace("_", "").isalnum() or (e.startswith("(") and e.endswith(")")) or e.startswith('"')) else f"({e})"

    def comp(self, n):
        if len(n.generators) != 1 or n.generators[0].ifs or not isinstance(n.generators[0].target, ast.Name):
            self.err("comprehension is not `[e for x in X]`")
        g = n.generators[0]
        it, ti = self.ex(g.iter)
        if self.pair(g.iter) is not None: it = f"(dcIter {self.pair(g.iter)})"        # DataContainer.__iter__ (translated)
        if ti not in ELEM: self.err(f"comprehension over a {ti}")
        v = g.target.id
        saved = self.env.get(v)
        self.env[v] = (v, ELEM[ti])
        e, te = self.ex(n.elt)
        if saved is None: del self.env[v]
        else: self.env[v] = saved
        out = {"row": "rows", "nat": "row", "edge": "edges"}.get(te)
        if out is None: self.err(f"comprehension element of type {te}")
        # eta-reduced spelling where the element is one application to the variable
        if e == f"keyF {v}": fn = "keyF"
        elif e == f"keyE {v}": fn = "keyE"
        elif e == f"{v}.length": fn = "List.length"
        else: fn = f"(fun {v} => {e})"
        return f"{self.atom(it)}.map {fn}", out

    def call(self, n):
        f = n.func
        txt = ast.unparse(f)
        args = n.args
        if n.keywords and txt not in ("DataContainer",): self.err(f"keyword arguments in {txt}(..)")
        if txt == "len" and len(args) == 1:
            a = args[0]
            if _is_self(a) and a.attr in CORNERS and self.state == "raw":       # CornerDataContainer.__len__ (translated)
                if not self.acc: self.err("the container accessors were not translated")
                return f"cornerLen (s.{CORNERS[a.attr][0]}, s.{CORNERS[a.attr][1]})", "nat"
            if self.pair(a) is not None: return f"dcLen {self.pair(a)}", "nat"                      # DataContainer.__len__ (translated)
            if _is_self(a) and not self.acc: self.err("the container accessors were not translated")
            if _is_self(a) and a.attr == "vertices": return "s.verts.length", "nat"
            e, t = self.ex(a)
            if t in ("row", "rows", "edges", "vrows", "rrows"): return f"{self.atom(e)}.length", "nat"
            self.err(f"len of a {t}")
        if txt == "isinstance" and len(args) == 2:
            e, t = self.ex(args[0])
            cls = ast.unparse(args[1])
            if t == "rrow" and cls in ("np.ndarray", "numpy.ndarray"): return f"{self.atom(e)}.isNumpy", "bool"
            if t == "ahandle" and cls == "ArrayAttribute":
                A, k = e.split("|")
                return f"attrIsDense {A} {k}", "bool"
            self.err(f"isinstance of a {t} with {cls}")
        if txt == "any" and len(args) == 1 and isinstance(args[0], (ast.GeneratorExp, ast.ListComp)):
            g = args[0]
            if len(g.generators) != 1 or g.generators[0].ifs: self.err("any(<generator>) with filters")
            gen = g.generators[0]
            it, ti = self.ex(gen.iter)
            if self.pair(gen.iter) is not None: it = f"(dcIter {self.pair(gen.iter)})"
            if ti != "edges" or not (isinstance(gen.target, ast.Tuple) and len(gen.target.elts) == 2 and all(isinstance(x, ast.Name) for x in gen.target.elts)):
                self.err("any(.. for a, b in <edges>) expected")
            names = [x.id for x in gen.target.elts]
            saved = {x: self.env.get(x) for x in names}
            for k, x in enumerate(names): self.env[x] = ("unpackedE", "e", k)
            e, t = self.ex(g.elt)
            for x in names:
                if saved[x] is None: self.env.pop(x, None)
                else: self.env[x] = saved[x]
            if t != "bool": self.err("any of non-booleans")
            return f"{self.atom(it)}.any (fun e => {e})", "bool"
        if txt == "DataContainer" and not args and [k.arg for k in n.keywords] == ["id"] and ast.unparse(n.keywords[0].value) == "'edges'":
            if not self.acc: self.err("the container accessors were not translated")
            return "(dcInit none none)", "econt"                                          # DataContainer.__init__ (translated)
        if isinstance(f, ast.Attribute) and f.attr == "tolist" and not args:
            e, t = self.ex(f.value)
            if t != "rrow": self.err(f"tolist of a {t}")
            return f"{self.atom(e)}.tolist", "rrow"
        if txt == "range" and len(args) == 1:
            a0 = args[0]
            if isinstance(a0, ast.Call) and ast.unparse(a0.func) == "len" and len(a0.args) == 1 and self.pair(a0.args[0]) is not None:
                # `self.id_x` (normalised to `range(len(self.x))`): the translated property
                return f"(id{a0.args[0].attr.capitalize()} {self.pair(a0.args[0])})", "row"
            e, t = self.ex(args[0])
            if t != "nat": self.err("range of a non-integer")
            return f"(List.range {self.atom(e)})", "row"
        if txt == "enumerate" and len(args) == 1:
            e, t = self.ex(args[0])
            if t != "rows": self.err(f"enumerate of a {t}")
            return f"(enumerate {self.atom(e)})", "enumrows"
        if txt == "set" and len(args) == 1:
            e, t = self.ex(args[0])
            if t == "rows": return e, "rowset"
            if t == "edges": return e, "edgeset"
            self.err(f"set of a {t}")
        if txt == "set" and not args: return "[]", "empty"
        if txt == "dict" and not args: return "[]", "empty"
        if txt == "sum" and len(args) == 1:
            e, t = self.ex(args[0])
            if t != "row": self.err(f"sum of a {t}")
            return f"({e}).sum", "nat"
        if txt == "utils.keyify":
            vals = [self.ex(a) for a in args]
            ts = [t for _, t in vals]
            if ts == ["nat", "nat"]: return f"keyify2 {self.atom(vals[0][0])} {self.atom(vals[1][0])}", "edge"
            if ts == ["int", "int"]: return f"keyE ({vals[0][0]}, {vals[1][0]})", "edge"
            if ts == ["edge"]: return f"keyE {self.atom(vals[0][0])}", "edge"
            if ts == ["row"]: return f"keyF {self.atom(vals[0][0])}", "row"
            self.err(f"keyify of {ts}")
        if txt == "Vec" and len(args) == 1:
            e, t = self.ex(args[0])
            if t != "vrow": self.err(f"Vec of a {t}")
            return f"vecOf {self.atom(e)}", "vrow"
        if txt == "np.pad" and len(args) == 2 and isinstance(args[1], ast.Tuple) and len(args[1].elts) == 2:
            e, t = self.ex(args[0]); a, ta = self.ex(args[1].elts[0]); b, tb = self.ex(args[1].elts[1])
            if (t, ta, tb) != ("vrow", "nat", "nat"): self.err("np.pad(v, (a, b)) expected")
            return f"npPad {self.atom(e)} {self.atom(a)} {self.atom(b)}", "vrow"
        if isinstance(f, ast.Attribute) and f.attr == "astype" and len(args) == 1 and ast.unparse(args[0]) in ("np.float64", "float", "np.double"):
            e, t = self.ex(f.value)
            if t != "vrow": self.err("astype of a non-vertex")
            return f"astypeFloat {self.atom(e)}", "vrow"
        if isinstance(f, ast.Attribute) and f.attr == "empty" and not args and self.pair(f.value) is not None:
            return f"dcEmpty {self.pair(f.value)}", "bool"                                         # DataContainer.empty (translated)
        if isinstance(f, ast.Attribute) and f.attr == "empty" and not args:
            if _is_self(f.value): self.err("the container accessors were not translated")
            e, t = self.ex(f.value)
            if t not in ("rows", "edges"): self.err(f"empty() of a {t}")
            return f"{self.atom(e)}.isEmpty", "bool"
        if isinstance(f, ast.Attribute) and f.attr == "has_attribute" and _is_self(f.value, "edges") and len(args) == 1:
            e, t = self.ex(args[0])
            if t != "str": self.err("has_attribute of a non-string")
            if not self.acc: self.err("the container accessors were not translated")
            return f"(dcHasAttr (s.edges, s.eattrs) {e})", "bool"                                   # has_attribute (translated)
        if isinstance(f, ast.Attribute) and f.attr == "get" and len(args) == 2 and isinstance(args[1], ast.Constant) and args[1].value is None:
            d, td = self.ex(f.value); k, tk = self.ex(args[0])
            if (td, tk) != ("facedict", "row"): self.err(f"get on a {td} with a {tk}")
            return f"dictGet {self.atom(d)} {self.atom(k)}", "optnat"
        if isinstance(f, ast.Name) and f.id in self.env and self.env[f.id][0] == "lambda":
            _, ps, body = self.env[f.id]
            if len(ps) != len(args): self.err("arity of a nested function call")
            saved = {p: self.env.get(p) for p in ps}
            vals = [self.ex(a) for a in args]
            for p, v in zip(ps, vals): self.env[p] = v
            r = self.ex(body)
            for p in ps:
                if saved[p] is None: self.env.pop(p, None)
                else: self.env[p] = saved[p]
            return r
        self.err(f"unsupported call {ast.unparse(n)[:80]}")

    # -- state description -------------------------------------------------------------------------------------------------
    def svar(self):
        return "c" if self.state in ("cpair", "dcont") else "s"

    def ret(self, mut):
        return self.svar() if not mut else "(" + ", ".join([self.svar()] + mut) + ")"

    def sty(self, mut):
        base = LEAN_TY[self.state]
        return base if not mut else " × ".join([base] + [LEAN_TY[self.env[m][1]] for m in mut])

    def proj(self, k, n):
        """projection of component k (0-based) of an n-tuple `st`"""
        if n == 1: return "st"
        if k == n - 1: return "st" + ".2" * k
        return "st" + ".2" * k + ".1"

    # -- statements --------------------------------------------------------------------------------------------------------
    def block(self, stmts, mut, ind, in_loop):
        """lines computing `mut` (the text of the value of the block: the state, or the tuple of the state and the locals
        carried through it) after running the statements"""
        stmts = _strip(stmts)
        out = []
        for k, st in enumerate(stmts):
            rest = stmts[k + 1:]
            if isinstance(st, ast.If):
                body, orelse = _strip(st.body), _strip(st.orelse)
                c, tc = self.ex(st.test)
                if tc != "bool": self.err(f"condition of type {tc}")
                jump = len(body) == 1 and isinstance(body[0], (ast.Continue, ast.Return)) and not orelse
                if jump:
                    if isinstance(body[0], ast.Continue) and not in_loop: self.err("continue outside a loop")
                    if isinstance(body[0], ast.Return) and (in_loop or body[0].value is not None): self.err("return inside a loop / with a value")
                    out.append(f"{ind}if {c} then")
                    out.append(f"{ind}  {mut}")
                    out.append(f"{ind}else")
                    t = st.test
                    if isinstance(t, ast.Compare) and len(t.ops) == 1 and isinstance(t.ops[0], ast.Is) and isinstance(t.left, ast.Name) \
                            and self.env.get(t.left.id, (None, None))[1] == "optnat":
                        self.env[t.left.id] = (f"({t.left.id}.getD 0)", "nat")      # past `if x is None: continue`, x is an index
                    out += self.block(rest, mut, ind + "  ", in_loop)
                    return out
                if _jumps(body) or _jumps(orelse): self.err("continue/return nested in a compound branch")
                if not rest:
                    out.append(f"{ind}if {c} then")
                    saved = dict(self.env)
                    out += self.block(body, mut, ind + "  ", in_loop)
                    self.env = dict(saved)
                    out.append(f"{ind}else")
                    out += self.block(orelse, mut, ind + "  ", in_loop)
                    self.env = saved
                    return out
                # a conditional in the middle: it returns what its branches rebind
                names, state = _assigned(body + orelse)
                names = names + [self.hd[b][1] for b in _assigned.nested if self.hd.get(b, ("",))[0] == "local" and self.hd[b][1] not in names]
                carried = [x for x in names if x in self.env and self.env[x][0] not in ("unpacked", "unpackedE", "lambda")
                           and self.env[x][1] != "handle"]
                fresh = self.maybe_unbound(st, rest)
                if fresh is not None and not carried and not state:
                    out += self.optional_binding(st, fresh, ind, in_loop)
                    continue
                saved_state = self.state
                tup = ([self.svar()] if state else []) + carried
                if not tup: self.err("a conditional without effect")
                rt = tup[0] if len(tup) == 1 else "(" + ", ".join(tup) + ")"
                out.append(f"{ind}let {'st' if len(tup) > 1 else tup[0]} := if {c} then")
                saved = dict(self.env)
                out += self._block_ret(body, rt, ind + "    ", in_loop)
                env_body = self.env
                self.env = dict(saved)
                out.append(f"{ind}  else")
                out += self._block_ret(orelse, rt, ind + "    ", in_loop)
                # types of carried names must agree
                for x in carried:
                    if env_body[x][1] != self.env[x][1] and "empty" not in (env_body[x][1], self.env[x][1]):
                        self.err(f"{x} has different types in the two branches")
                    if self.env[x][1] == "empty": self.env[x] = env_body[x]
                for x in list(self.env):
                    if x not in saved: del self.env[x]
                if len(tup) > 1:
                    for j, x in enumerate(tup):
                        out.append(f"{ind}let {x} := {self.proj(j, len(tup))}")
                continue
            if isinstance(st, ast.For):
                out += self.loop(st, mut, ind)
                continue
            out += self.simple(st, ind)
        out.append(f"{ind}{mut}")
        return out

    def maybe_unbound(self, st, rest):
        """`if c1: ..; x = e1  elif c2: ..; x = e2` (no else) where x is not bound before and is read afterwards: x"""
        node, names = st, None
        while True:
            body = _strip(node.body)
            tg = [n.targets[0].id for n in body if isinstance(n, ast.Assign) and len(n.targets) == 1 and isinstance(n.targets[0], ast.Name)]
            tg = [x for x in tg if x not in self.env]
            if len(tg) != 1: return None
            if names is None: names = tg[0]
            elif names != tg[0]: return None
            oe = _strip(node.orelse)
            if not oe: break
            if len(oe) == 1 and isinstance(oe[0], ast.If): node = oe[0]; continue
            return None
        return names if names in _reads(rest) else None

    def optional_binding(self, st, x, ind, in_loop):
        out = [f"{ind}let {x} : {LEAN_TY['optrows']} :="]
        node, depth = st, 0
        while True:
            c, tc = self.ex(node.test)
            if tc != "bool": self.err(f"condition of type {tc}")
            pad = ind + "  " * (depth + 1)
            out.append(f"{pad}if {c} then")
            saved = dict(self.env)
            lines = self.block(_strip(node.body), f"some {x}", pad + "  ", in_loop)
            if self.env.get(x, (None, None))[1] != "rows": self.err(f"{x} is not a list of rows in a branch")
            self.env = saved
            out += lines
            out.append(f"{pad}else")
            oe = _strip(node.orelse)
            if not oe:
                out.append(f"{pad}  none")
                break
            node = oe[0]; depth += 1
        self.env[x] = (x, "optrows")
        return out

    def _block_ret(self, stmts, rt, ind, in_loop):
        return self.block(stmts, rt, ind, in_loop)

    def bind(self, name, e, t, ind):
        ann = ""
        if t == "empty":
            t = self.lookahead_type(name)
            ann = f" : {LEAN_TY[t]}"
        if t == "econt": ann = f" : {LEAN_TY[t]}"
        self.env[name] = (name, t)
        return [f"{ind}let {name}{ann} := {e}"]

    def lookahead_type(self, name):
        """type of a local first bound to an empty literal: that of its first typed (re)binding / use"""
        for n in ast.walk(self.fn):
            if isinstance(n, ast.Assign) and len(n.targets) == 1 and isinstance(n.targets[0], ast.Name) and n.targets[0].id == name:
                v = n.value
                if isinstance(v, ast.List) and v.elts and isinstance(v.elts[0], ast.Tuple): return "rows"
            if isinstance(n, ast.Assign) and isinstance(n.targets[0], ast.Subscript) and isinstance(n.targets[0].value, ast.Name) \
                    and n.targets[0].value.id == name:
                v = n.value
                if isinstance(v, ast.Call) and isinstance(v.func, ast.Attribute) and v.func.attr in ("get_attribute", "create_attribute"):
                    return "hdict"
                return "facedict"
        self.err(f"cannot type the empty literal bound to {name}")

    def simple(self, st, ind):
        s = self.svar()
        if isinstance(st, ast.FunctionDef):
            body = _strip(st.body)
            if len(body) != 1 or not isinstance(body[0], ast.Return) or body[0].value is None or st.args.defaults:
                self.err("nested def is not `def f(..): return <expr>`")
            self.env[st.name] = ("lambda", [a.arg for a in st.args.args], body[0].value)
            return []
        if isinstance(st, ast.Assign) and len(st.targets) == 1:
            t, v = st.targets[0], st.value
            if isinstance(t, ast.Name):
                # `h = self.edges.create_attribute(name, bool)`
                if isinstance(v, ast.Call) and isinstance(v.func, ast.Attribute) and v.func.attr == "create_attribute" and _is_self(v.func.value, "edges"):
                    if len(v.args) != 2 or v.keywords or ast.unparse(v.args[1]) != "bool": self.err("create_attribute(name, bool) expected")
                    nm, tn = self.ex(v.args[0])
                    if tn != "str": self.err("attribute name is not a string")
                    self.env[t.id] = (t.id, "handle")
                    call = f"(dcCreateAttribute (s.edges, s.eattrs) {nm} false none none)"
                    return [f"{ind}let s := {{ s with edges := {call}.1, eattrs := {call}.2 }}", f"{ind}let {t.id} := {nm}"]
                e, ty = self.ex(v)
                return self.bind(t.id, e, ty, ind)
            if isinstance(t, ast.Tuple) and all(isinstance(x, ast.Name) for x in t.elts):
                e, ty = self.ex(v)
                if ty == "row":
                    for k, x in enumerate(t.elts): self.env[x.id] = ("unpacked", self.atom(e), k)
                    return []
                if ty == "edge" and len(t.elts) == 2:
                    for k, x in enumerate(t.elts): self.env[x.id] = ("unpackedE", self.atom(e), k)
                    return []
                self.err(f"unpacking of a {ty}")
            if isinstance(t, ast.Attribute) and isinstance(t.value, ast.Attribute) and _is_self(t.value) and t.value.attr in CORNERS \
                    and t.attr in ("_elem", "_adj") and isinstance(v, ast.List) and not v.elts:
                fld = CORNERS[t.value.attr][0 if t.attr == "_elem" else 1]
                return [f"{ind}let s := {{ s with {fld} := [] }}"]
            if isinstance(t, ast.Attribute) and _is_self(t, "edges") and self.state == "raw" and isinstance(v, ast.Name):
                e, ty = self.ex(v)
                if ty != "econt": self.err("self.edges = <a fresh edge container> expected")
                return [f"{ind}let s := {{ s with edges := {e}.1, eattrs := {e}.2 }}"]
            if isinstance(t, ast.Subscript) and isinstance(t.value, ast.Subscript) and isinstance(t.value.value, ast.Name):
                # `new_attrs[name][n] = old_attrs[name][ie]`
                d = t.value.value.id
                h = self.hd.get(d)
                if h is None or h[0] != "local": self.err("write through a handle that does not point into a local container")
                k, tk = self.ex(t.value.slice); i, ti = self.ex(t.slice); e, ty = self.ex(v)
                if (tk, ti, ty) != ("str", "nat", "aval"): self.err("d[name][i] = <attribute value> expected")
                return [f"{ind}let {h[1]} := econtAttrSet {h[1]} {k} {self.atom(i)} ({e})"]
            if isinstance(t, ast.Subscript) and isinstance(t.value, ast.Name) and self.env.get(t.value.id, (None, None))[1] == "hdict":
                d = t.value.id
                k, tk = self.ex(t.slice)
                if tk != "str" or not (isinstance(v, ast.Call) and isinstance(v.func, ast.Attribute)): self.err("d[name] = <handle> expected")
                if v.func.attr == "get_attribute" and _is_self(v.func.value, "edges") and len(v.args) == 1 and not v.keywords \
                        and self.ex(v.args[0]) == (k, "str"):
                    self.hd[d] = ("self",)
                    return [f"{ind}let {d} := {d} ++ [{k}]"]
                if v.func.attr == "create_attribute" and isinstance(v.func.value, ast.Name) and self.env.get(v.func.value.id, (None, None))[1] == "econt":
                    c = v.func.value.id
                    kw = {x.arg: x.value for x in v.keywords}
                    if len(v.args) != 3 or set(kw) != {"dense", "default_value"} or self.ex(v.args[0]) != (k, "str"):
                        self.err("create_attribute(name, <type>, <elemsize>, dense=.., default_value=..) expected")
                    hs = []
                    for a, fld in ((v.args[1], "type"), (v.args[2], "elemsize"), (kw["default_value"], "_default_value")):
                        if not (isinstance(a, ast.Attribute) and a.attr == fld): self.err(f"argument is not <old attribute>.{fld}")
                        hs.append(self.ex(a.value))
                    dn, tdn = self.ex(kw["dense"])
                    if tdn != "bool" or any(t2 != "ahandle" for _, t2 in hs) or len({e2 for e2, _ in hs}) != 1:
                        self.err("create_attribute arguments do not all read the same old attribute")
                    A, key = hs[0][0].split("|")
                    if key != k or dn != f"attrIsDense {A} {k}": self.err("the new attribute is not created from the old attribute of the same name")
                    self.hd[d] = ("local", c)
                    return [f"{ind}let {c} := dcCreateAttribute {c} {k} ({dn}) (some (attrDflt {A} {k})) none", f"{ind}let {d} := {d} ++ [{k}]"]
                self.err(f"unsupported handle assignment {ast.unparse(st)[:80]}")
            if isinstance(t, ast.Subscript):
                i, ti = self.ex(t.slice)
                if _is_self(t.value) and t.value.attr in ("faces", "cells") and self.state == "rawr":
                    e, ty = self.ex(v)
                    if (ti, ty) != ("nat", "rrow"): self.err("self.faces[i] = <row> expected")
                    return [f"{ind}let s := {{ s with {t.value.attr} := (dcSet {self.pair(t.value)} {self.atom(i)} {self.atom(e)}).1 }}"]
                if _is_self(t.value, "vertices") and self.state == "vstate":
                    e, ty = self.ex(v)
                    if (ti, ty) != ("nat", "vrow"): self.err("self.vertices[i] = v with i an index and v a row expected")
                    return [f"{ind}let s := {{ s with verts := (dcSet {self.pair(t.value)} {self.atom(i)} {self.atom(e)}).1 }}"]
                if _is_self(t.value, "edges") and self.state == "raw":
                    e, ty = self.ex(v)
                    if (ti, ty) != ("nat", "edge"): self.err("self.edges[i] = e with i an index and e an edge expected")
                    return [f"{ind}let s := {{ s with edges := (dcSet {self.pair(t.value)} {self.atom(i)} {self.atom(e)}).1 }}"]
                if isinstance(t.value, ast.Name) and t.value.id in self.env:
                    b = self.env[t.value.id]
                    if b[1] == "handle" and isinstance(v, ast.Constant) and v.value is True and ti == "nat":
                        return [f"{ind}let s := attrSet s {b[0]} {self.atom(i)} 1"]
                    if b[1] == "facedict":
                        e, ty = self.ex(v)
                        if (ti, ty) != ("row", "nat"): self.err("dict[key] = index expected")
                        return [f"{ind}let {b[0]} := dictSet {b[0]} {self.atom(i)} {self.atom(e)}"]
            self.err(f"unsupported assignment {ast.unparse(st)[:80]}")
        if isinstance(st, ast.AugAssign) and isinstance(st.op, ast.Add):
            t = st.target
            if isinstance(t, ast.Name) and t.id in self.env and self.env[t.id][1] == "nat":
                e, ty = self.ex(st.value)
                if ty != "nat": self.err("+= of a non-integer")
                return [f"{ind}let {t.id} := {t.id} + {self.atom(e)}"]
            if isinstance(t, ast.Attribute) and isinstance(t.value, ast.Attribute) and _is_self(t.value) and t.value.attr in CORNERS and t.attr in ("_elem", "_adj"):
                fld = CORNERS[t.value.attr][0 if t.attr == "_elem" else 1]
                e, ty = self.ex(st.value)
                if ty != "row": self.err("+= of a non-list on a corner list")
                return [f"{ind}let s := {{ s with {fld} := s.{fld} ++ {e} }}"]
            self.err(f"unsupported augmented assignment {ast.unparse(st)[:80]}")
        if isinstance(st, ast.Expr) and isinstance(st.value, ast.Call) and isinstance(st.value.func, ast.Attribute):
            c = st.value
            f, args = c.func, c.args
            if c.keywords: self.err("keyword arguments")
            if f.attr == "append":
                if self.state == "cpair" and _is_self(f.value) and f.value.attr in ("_elem", "_adj") and len(args) == 1:
                    e, ty = self.ex(args[0])
                    if ty != "nat": self.err("append of a non-index")
                    return [f"{ind}let c := (c.1 ++ [{e}], c.2)" if f.value.attr == "_elem" else f"{ind}let c := (c.1, c.2 ++ [{e}])"]
                if self.state == "dcont" and _is_self(f.value, "_data") and len(args) == 1:
                    e, ty = self.ex(args[0])
                    if ty != "any": self.err("append of something else than the parameter")
                    return [f"{ind}let c := (c.1 ++ [{e}], c.2)"]
                if not self.data_append and (_is_self(f.value, "faces") or _is_self(f.value, "edges") or isinstance(f.value, ast.Name)):
                    self.err("DataContainer.append was not translated")
                if _is_self(f.value, "faces") and len(args) == 1:
                    e, ty = self.ex(args[0])
                    if ty != "row": self.err(f"faces.append of a {ty}")
                    # (attributes of the face container are not part of the model)
                    return [f"{ind}let s := {{ s with faces := (dataAppend (s.faces, ([] : List Attr)) {self.atom(e)}).1 }}"]
                if _is_self(f.value, "edges") and len(args) == 1:
                    e, ty = self.ex(args[0])
                    if ty != "edge": self.err(f"edges.append of a {ty}")
                    call = f"(dataAppend (s.edges, s.eattrs) {self.atom(e)})"
                    return [f"{ind}let s := {{ s with edges := {call}.1, eattrs := {call}.2 }}"]
                if isinstance(f.value, ast.Name) and self.env.get(f.value.id, (None, None))[1] == "econt" and len(args) == 1:
                    e, ty = self.ex(args[0])
                    if ty != "edge": self.err(f"append of a {ty} to an edge container")
                    return [f"{ind}let {f.value.id} := dataAppend {f.value.id} {self.atom(e)}"]
                if _is_self(f.value) and f.value.attr in ("face_corners", "cell_corners") and len(args) == 2:
                    if self.corner_sig is None: self.err("CornerDataContainer.append was not translated")
                    (a, ta), (b, tb) = self.ex(args[0]), self.ex(args[1])
                    if (ta, tb) != ("nat", "nat"): self.err("corner append of non-indices")
                    el, ad = CORNERS[f.value.attr]
                    call = f"(cornerAppend (s.{el}, s.{ad}) {self.atom(a)} {self.atom(b)})"
                    return [f"{ind}let s := {{ s with {el} := {call}.1, {ad} := {call}.2 }}"]
                if isinstance(f.value, ast.Attribute) and isinstance(f.value.value, ast.Attribute) and _is_self(f.value.value) \
                        and f.value.value.attr in CORNERS and f.value.attr in ("_elem", "_adj") and len(args) == 1:
                    fld = CORNERS[f.value.value.attr][0 if f.value.attr == "_elem" else 1]
                    e, ty = self.ex(args[0])
                    if ty != "nat": self.err("append of a non-index to a corner list")
                    return [f"{ind}let s := {{ s with {fld} := s.{fld} ++ [{e}] }}"]
            if f.attr == "add" and isinstance(f.value, ast.Name) and len(args) == 1:
                b = self.env.get(f.value.id)
                e, ty = self.ex(args[0])
                if b is None or (b[1], ty) not in (("rowset", "row"), ("edgeset", "edge")): self.err("set.add of a foreign key")
                return [f"{ind}let {b[0]} := setAdd {b[0]} {self.atom(e)}"]
        if isinstance(st, ast.For) and self.state == "dcont":
            # `for attr in self._attr.values(): attr._expand(k)`
            b = _strip(st.body)
            if ast.unparse(st.iter) == "self._attr.values()" and isinstance(st.target, ast.Name) and len(b) == 1 and isinstance(b[0], ast.Expr) \
                    and isinstance(b[0].value, ast.Call) and ast.unparse(b[0].value.func) == f"{st.target.id}._expand" \
                    and len(b[0].value.args) == 1 and isinstance(b[0].value.args[0], ast.Constant) and isinstance(b[0].value.args[0].value, int):
                return [f"{ind}let c := (c.1, c.2.map (expandAttr {b[0].value.args[0].value}))"]
        if isinstance(st, ast.For) and self.state == "cpair":
            # `for attr in self._attr.values(): attr._expand(1)`: attributes of corner containers are not part of the model
            if ast.unparse(st.iter) == "self._attr.values()" and len(st.body) == 1 and ast.unparse(st.body[0]).endswith("._expand(1)"):
                return []
        self.err(f"unsupported statement {ast.unparse(st)[:90]}")

    def loop(self, st, mut, ind):
        if st.orelse: self.err("for/else")
        if self.state in ("cpair", "dcont"):
            return self.simple(st, ind)
        if isinstance(st.iter, ast.Name) and self.env.get(st.iter.id, (None, None))[1] == "hdict":
            it, ti = st.iter.id, "hdict"            # iterating a dict of handles: its keys, in insertion order
        else:
            it, ti = self.ex(st.iter)
            if self.pair(st.iter) is not None: it = f"(dcIter {self.pair(st.iter)})"    # `for x in self.<container>`
        self.nloop += 1
        k = self.nloop
        name = f"{self.lean}_loop{k}"
        body = _strip(st.body)
        saved = dict(self.env)
        # loop variable(s)
        pro = []
        if ti == "enumrows":
            if not (isinstance(st.target, ast.Tuple) and len(st.target.elts) == 2 and all(isinstance(x, ast.Name) for x in st.target.elts)):
                self.err("enumerate loop without `for i, R in`")
            i, r = st.target.elts[0].id, st.target.elts[1].id
            var, vty = "p", "Nat × List Nat"
            self.env[i] = (i, "nat"); self.env[r] = (r, "row")
            pro = [f"  let {i} := p.1", f"  let {r} := p.2"]
            bound = [i, r]
        else:
            if ti not in ELEM or not isinstance(st.target, ast.Name): self.err(f"loop over a {ti}")
            var, vty = st.target.id, LEAN_TY[ELEM[ti]]
            self.env[var] = (var, ELEM[ti])
            bound = [var]
        names, _ = _assigned(body)
        names = names + [self.hd[b][1] for b in _assigned.nested if self.hd.get(b, ("",))[0] == "local" and self.hd[b][1] not in names]
        carried = [x for x in names if x in saved and saved[x][0] not in ("unpacked", "unpackedE", "lambda") and x not in bound
                   and saved[x][1] != "handle"]
        reads = [x for x in _reads(body) if x in saved and x not in carried and x not in bound]
        caps = []
        for x in reads:
            b = saved[x]
            if b[0] in ("unpacked", "unpackedE", "lambda"): continue
            caps.append(x)
        # nested lambdas read their own free names
        for x in reads:
            b = saved[x]
            if b[0] == "lambda":
                for y in _reads([b[2]]):
                    if y in saved and y not in caps and y not in b[1] and saved[y][0] not in ("unpacked", "unpackedE", "lambda"): caps.append(y)
            if b[0] in ("unpacked", "unpackedE"):
                for y in saved:
                    if saved[y][0] not in ("unpacked", "unpackedE", "lambda") and (saved[y][0] == b[1] or f"({saved[y][0]})" == b[1]) and y not in caps: caps.append(y)
        caps.sort(key=lambda x: int(x[1:]) if x[1:].isdigit() else -1)
        sty = self.sty(carried)
        lines = [f"/-- `{self.py}`, loop {k} -/",
                 f"def {name}" + "".join(f" ({x} : {LEAN_TY[saved[x][1]]})" for x in caps) +
                 f" ({'st' if carried else 's'} : {sty}) ({var} : {vty}) : {sty} :="]
        if carried:
            lines.append("  let s := st.1")
            for j, x in enumerate(carried): lines.append(f"  let {x} := {self.proj(j + 1, len(carried) + 1)}")
        lines += pro
        idx = len(self.defs)
        inner = self.block(body, self.ret(carried), "  ", True)
        self.defs.append("\n".join(lines + inner) + "\n")
        for x in list(self.env):
            if x not in saved: del self.env[x]
        call = f"{self.atom(it)}.foldl ({name}{''.join(' ' + x for x in caps)})"
        if carried:
            out = [f"{ind}let st := {call} ({', '.join(['s'] + carried)})", f"{ind}let s := st.1"]
            for j, x in enumerate(carried): out.append(f"{ind}let {x} := {self.proj(j + 1, len(carried) + 1)}")
            return out
        return [f"{ind}let s := {call} s"]

    # -- whole function -------------------------------------------------------------------------------------------------
    def compile(self):
        body = _strip(self.fn.body)
        sv = self.svar()
        ptypes = {"cpair": ["nat", "nat"], "dcont": ["any"]}.get(self.state, [])
        if len(self.params) != len(ptypes): self.err(f"unexpected parameters {self.params}")
        for p, t in zip(self.params, ptypes): self.env[p] = (p, t)
        lines = self.block(body, self.ret([]), "  ", False)
        sig = f"def {self.lean}{' {α : Type}' if self.state == 'dcont' else ''} ({sv} : {LEAN_TY[self.state]})" + "".join(f" ({p} : {LEAN_TY[t]})" for p, t in zip(self.params, ptypes)) + f" : {LEAN_TY[self.state]} :="
        return "\n".join(self.defs + [f"/-- `{self.py}` -/\n{sig}\n" + "\n".join(lines) + "\n"])


# ------------------------------------------------------------------------------------------------------------------
# sites
# ------------------------------------------------------------------------------------------------------------------
FUNCTIONS = [
    # (file, qualified python name, lean name, state)
    (DC_FILE, "CornerDataContainer.append", "cornerAppend", "cpair"),
    (DC_FILE, "DataContainer.append", "dataAppend", "dcont"),
    (MD_FILE, "RawMeshData._complete_faces_from_cells", "completeFaces", "raw"),
    (MD_FILE, "RawMeshData._complete_edges_from_faces", "completeEdges", "raw"),
    (MD_FILE, "RawMeshData._prepare_vertices", "prepareVertices", "vstate"),
    (MD_FILE, "RawMeshData._generate_face_corners", "genFaceCorners", "raw"),
    (MD_FILE, "RawMeshData._generate_cell_corners", "genCellCorners", "raw"),
    (MD_FILE, "RawMeshData._generate_cell_faces", "genCellFaces", "raw"),
    (MD_FILE, "RawMeshData._prepare_faces", "prepareFaces", "rawr"),
    (MD_FILE, "RawMeshData._prepare_cells", "prepareCells", "rawr"),
    (MD_FILE, "RawMeshData._prepare_edges", "prepareEdges", "raw"),
]

# ------------------------------------------------------------------------------------------------------------------
# RawMeshData.__init__ (fresh containers / re-wrap of a mesh object): a list of conditional bindings, read one by one
# ------------------------------------------------------------------------------------------------------------------
INIT_FIELDS = {"vertices": ("data", ["verts"]), "edges": ("data", ["edges", "eattrs"]), "faces": ("data", ["faces"]),
               "cells": ("data", ["cells"]), "face_corners": ("corner", ["fcElem", "fcAdj"]),
               "cell_corners": ("corner", ["ccElem", "ccAdj"]), "cell_faces": ("corner", ["cfElem", "cfAdj"])}


def init_program(tree):
    fn = T.find_def(tree, "RawMeshData.__init__")
    fn = Norm().visit(copy.deepcopy(fn)); ast.fix_missing_locations(fn)
    params = [a.arg for a in fn.args.args]
    if len(params) != 2 or [ast.unparse(d) for d in fn.args.defaults] != ["None"]:
        raise TranslateError("RawMeshData.__init__ is not `__init__(self, mesh=None)`")
    m = params[1]
    fields, prepared = {}, None
    for st in _strip(fn.body):
        if not (isinstance(st, ast.Assign) and len(st.targets) == 1 and _is_self(st.targets[0])):
            raise TranslateError(f"__init__: unrecognised statement {ast.unparse(st)[:80]}")
        x, v = st.targets[0].attr, st.value
        if x == "_dimensionality" and isinstance(v, ast.Constant) and v.value is None: continue      # a cache, recomputed by prepare()
        if x == "_prepared" and isinstance(v, ast.Constant) and isinstance(v.value, bool):
            prepared = v.value; continue
        if x not in INIT_FIELDS or not isinstance(v, ast.IfExp):
            raise TranslateError(f"__init__: unrecognised binding of self.{x}")
        kind, flds = INIT_FIELDS[x]
        # fresh container when the test holds
        fresh = v.body
        want = "DataContainer" if kind == "data" else "CornerDataContainer"
        if not (isinstance(fresh, ast.Call) and ast.unparse(fresh.func) == want and not fresh.args and all(k.arg == "id" for k in fresh.keywords)):
            raise TranslateError(f"__init__: self.{x} is not a fresh empty {want} when there is no mesh")
        # the test: `mesh is None` [or not hasattr(mesh, "<name>")]
        t = v.test
        parts = list(t.values) if isinstance(t, ast.BoolOp) and isinstance(t.op, ast.Or) else [t]
        parts.sort(key=lambda q: 0 if ast.unparse(q) == f"{m} is None" else 1)     # `A or B` = `B or A` for these two side-effect-free tests
        if ast.unparse(parts[0]) != f"{m} is None": raise TranslateError(f"__init__: test of self.{x} does not contain `{m} is None`")
        has = None
        if len(parts) == 2:
            q = parts[1]
            if not (isinstance(q, ast.UnaryOp) and isinstance(q.op, ast.Not) and isinstance(q.operand, ast.Call) and ast.unparse(q.operand.func) == "hasattr"
                    and len(q.operand.args) == 2 and ast.unparse(q.operand.args[0]) == m and isinstance(q.operand.args[1], ast.Constant)):
                raise TranslateError(f"__init__: second test of self.{x} is not `not hasattr({m}, <name>)`")
            has = q.operand.args[1].value
        elif len(parts) != 1:
            raise TranslateError(f"__init__: test of self.{x} not recognised")
        src = v.orelse
        if not (isinstance(src, ast.Attribute) and isinstance(src.value, ast.Name) and src.value.id == m and src.attr in INIT_FIELDS):
            raise TranslateError(f"__init__: self.{x} is not taken from an attribute of the mesh")
        skind, sflds = INIT_FIELDS[src.attr]
        if skind != kind: raise TranslateError(f"__init__: self.{x} is bound to {m}.{src.attr}, a container of another kind")
        sflds = (sflds + ["eattrs"])[:len(flds)] if kind == "data" and len(flds) > len(sflds) else sflds[:len(flds)]
        if x in fields: raise TranslateError(f"__init__: self.{x} bound twice")
        fields[x] = (has, src.attr, list(zip(flds, sflds)))
    if prepared is None or set(fields) != set(INIT_FIELDS):
        raise TranslateError("__init__: a container or `self._prepared = <bool>` is missing")
    rows = []
    for x in INIT_FIELDS:
        has, src, pairs = fields[x]
        for tf, sf in pairs:
            if sf == "eattrs" and src != "edges": val = "[]"          # only the edge container carries modelled attributes
            else: val = f"m.{sf}"
            rows.append(f"    {tf} := {val}" if has is None else f"    {tf} := if has \"{has}\" then {val} else []")
    txt = ("/-- `RawMeshData.__init__(mesh)` for a mesh object: `has n` = `hasattr(mesh, n)`, `m` = the containers the mesh holds -/\n"
           "def initFromMesh (has : String → Bool) (m : Raw) : Raw :=\n  {\n" + ",\n".join(rows) + f",\n    prepared := {'true' if prepared else 'false'} }}\n\n"
           "/-- `RawMeshData()`: every container fresh and empty -/\n"
           f"def initFresh : Raw := {{ prepared := {'true' if prepared else 'false'} }}\n")
    return txt


# ------------------------------------------------------------------------------------------------------------------
# mesh.py: from_arrays, load  and  RawMeshData.dimensionality (property): straight-line bodies with `raise` / `return`,
# compiled to `Except String _` terms, one stage per statement (a stage that raises ends the function)
# ------------------------------------------------------------------------------------------------------------------
MM_FILE = "mouette/mesh/mesh.py"
EXC_ENUM = {"Exception": "err:Other(Exception)", "ValueError": "err:Value", "IndexError": "err:Index", "TypeError": "err:Type", "KeyError": "err:Key"}


def _raise_enum(st):
    if not (isinstance(st, ast.Raise) and st.exc is not None): return None
    e = st.exc
    name = ast.unparse(e.func) if isinstance(e, ast.Call) else ast.unparse(e)
    return EXC_ENUM.get(name, f"err:Other({name})")


def _shape(n, arr, k):
    return isinstance(n, ast.Subscript) and ast.unparse(n.value) == f"{arr}.shape" and isinstance(n.slice, ast.Constant) and n.slice.value == k


def from_arrays_program(tree):
    fn = T.find_def(tree, "from_arrays")
    fn = Norm().visit(copy.deepcopy(fn)); ast.fix_missing_locations(fn)
    params = [a.arg for a in fn.args.args]
    if len(params) != 5 or [ast.unparse(d) for d in fn.args.defaults] != ["None", "None", "None", "False"]:
        raise TranslateError("from_arrays is not `from_arrays(V, E=None, F=None, C=None, raw=False)`")
    pV, pE, pF, pC, praw = params
    body = _strip(fn.body)
    if not (body and isinstance(body[0], ast.Assign) and isinstance(body[0].targets[0], ast.Name) and ast.unparse(body[0].value) == "RawMeshData()"):
        raise TranslateError("from_arrays does not start with `m = RawMeshData()`")
    m = body[0].targets[0].id
    lines = ["  let m : Raw := initFresh"]
    nvar = None
    cont = {"vertices": ("verts", pV), "edges": ("edges", pE), "faces": ("faces", pF), "cells": ("cells", pC)}
    width = {pV: "w", pE: "ew"}

    def cond(t, arr):
        """a test on the array `arr`, as a Lean Bool"""
        if isinstance(t, ast.Compare) and len(t.ops) == 1 and _shape(t.left, arr, 1) and arr in width and isinstance(t.comparators[0], ast.Constant):
            sym = {ast.Lt: "<", ast.NotEq: "≠", ast.Eq: "=", ast.LtE: "≤"}.get(type(t.ops[0]))
            if sym is None: raise TranslateError("from_arrays: comparison operator on shape[1]")
            return f"decide ({width[arr]} {sym} {t.comparators[0].value})"
        if isinstance(t, ast.Compare) and len(t.ops) == 1 and isinstance(t.left, ast.Constant) and _shape(t.comparators[0], arr, 1) and arr in width:
            sym = {ast.Lt: "<", ast.NotEq: "≠", ast.Eq: "=", ast.LtE: "≤"}.get(type(t.ops[0]))
            if sym is None: raise TranslateError("from_arrays: comparison operator on shape[1]")
            return f"decide ({t.left.value} {sym} {width[arr]})"
        # np.any(np.asarray(X) >= n_vert)   (normalised: n_vert <= np.asarray(X))
        if isinstance(t, ast.Call) and ast.unparse(t.func) == "np.any" and len(t.args) == 1 and isinstance(t.args[0], ast.Compare) and len(t.args[0].ops) == 1:
            c = t.args[0]
            a, op, b = c.left, c.ops[0], c.comparators[0]
            arrs = (f"np.asarray({arr})", f"np.array({arr})", arr)
            if isinstance(op, ast.LtE) and ast.unparse(a) == nvar and ast.unparse(b) in arrs: kind = "GE"
            elif isinstance(op, ast.Lt) and ast.unparse(a) == nvar and ast.unparse(b) in arrs: kind = "GT"
            elif isinstance(op, ast.GtE) and ast.unparse(b) == nvar and ast.unparse(a) in arrs: kind = "GE"
            elif isinstance(op, ast.Gt) and ast.unparse(b) == nvar and ast.unparse(a) in arrs: kind = "GT"
            else: raise TranslateError(f"from_arrays: unrecognised range test {ast.unparse(t)}")
            return ("anyEdge" if arr == pE else "anyRow") + kind + f" {arr} n"
        raise TranslateError(f"from_arrays: unrecognised test {ast.unparse(t)[:60]}")

    def iadd(st, arr):
        if isinstance(st, ast.AugAssign) and isinstance(st.op, ast.Add) and isinstance(st.target, ast.Attribute) and ast.unparse(st.target.value) == m \
                and st.target.attr in cont and cont[st.target.attr][1] == arr \
                and ast.unparse(st.value) in (f"list({arr})", f"list(np.array({arr}))", f"list(np.asarray({arr}))"):
            f = cont[st.target.attr][0]
            if f == "edges":
                return f"{{ m with edges := (dcIaddList (m.edges, m.eattrs) {arr}).1, eattrs := (dcIaddList (m.edges, m.eattrs) {arr}).2 }}"
            return f"{{ m with {f} := (dcIaddList (m.{f}, ([] : List Attr)) {arr}).1 }}"
        return None
    k = 1
    done = set()
    ret = None
    while k < len(body):
        st = body[k]; k += 1
        # padding / width test of the vertex array
        if isinstance(st, ast.If) and nvar is None and not done:
            node, first = st, True
            out = [f"  match (("]
            chain = []
            while True:
                c = cond(node.test, pV)
                b = _strip(node.body)
                if len(b) == 1 and _raise_enum(b[0]):
                    chain.append((c, f'.error "{_raise_enum(b[0])}"'))
                elif len(b) == 1 and isinstance(b[0], ast.Assign) and ast.unparse(b[0].targets[0]) == pV and isinstance(b[0].value, ast.Call) \
                        and ast.unparse(b[0].value.func) == "np.pad" and ast.unparse(b[0].value.args[0]) == pV and isinstance(b[0].value.args[1], ast.Tuple):
                    spec = b[0].value.args[1]
                    if len(spec.elts) != 2 or ast.unparse(spec.elts[0]).replace(" ", "") != "(0,0)" or not isinstance(spec.elts[1], ast.Tuple) or len(spec.elts[1].elts) != 2:
                        raise TranslateError("from_arrays: np.pad specification is not ((0,0),(a,b))")
                    def amt(e):
                        if isinstance(e, ast.Constant) and isinstance(e.value, int): return str(e.value)
                        if isinstance(e, ast.BinOp) and isinstance(e.op, ast.Sub) and isinstance(e.left, ast.Constant) and _shape(e.right, pV, 1): return f"({e.left.value} - w)"
                        raise TranslateError("from_arrays: pad amount")
                    chain.append((c, f".ok (padCols {pV} {amt(spec.elts[1].elts[0])} {amt(spec.elts[1].elts[1])})"))
                else:
                    raise TranslateError(f"from_arrays: unrecognised branch on the vertex array: {ast.unparse(node)[:80]}")
                oe = _strip(node.orelse)
                if not oe: break
                if len(oe) == 1 and isinstance(oe[0], ast.If): node = oe[0]; continue
                raise TranslateError("from_arrays: else branch on the vertex array")
            term = f".ok {pV}"
            for c, v in reversed(chain): term = f"if {c} then {v} else ({term})"
            lines.append(f"  Except.bind (({term}) : Except String (List (List Rat))) fun {pV} =>")
            continue
        if isinstance(st, ast.Assign) and isinstance(st.targets[0], ast.Name) and _shape(st.value, pV, 0):
            nvar = st.targets[0].id
            lines.append(f"  let n := {pV}.length")
            continue
        r = iadd(st, pV)
        if r is not None:
            if nvar is None: raise TranslateError("from_arrays: vertices stored before n_vert is read")
            lines.append(f"  let m := {r}"); done.add(pV); continue
        if isinstance(st, ast.If) and isinstance(st.test, ast.Compare) and isinstance(st.test.ops[0], ast.IsNot) and ast.unparse(st.test.comparators[0]) == "None" \
                and ast.unparse(st.test.left) in (pE, pF, pC) and not st.orelse:
            arr = ast.unparse(st.test.left)
            if pV not in done or nvar is None: raise TranslateError("from_arrays: element arrays handled before the vertices")
            inner = []
            stored = False
            for b in _strip(st.body):
                if isinstance(b, ast.If) and not b.orelse and len(_strip(b.body)) == 1 and _raise_enum(_strip(b.body)[0]) and not stored:
                    inner.append((cond(b.test, arr), _raise_enum(_strip(b.body)[0]))); continue
                r = iadd(b, arr)
                if r is not None and not stored: stored = r; continue
                raise TranslateError(f"from_arrays: unrecognised statement under `if {arr} is not None`: {ast.unparse(b)[:60]}")
            if not stored: raise TranslateError(f"from_arrays: {arr} is never stored")
            term = f".ok {stored}"
            for c, e in reversed(inner): term = f'if {c} then .error "{e}" else ({term})'
            lines.append(f"  Except.bind ((match {arr} with\n      | none => .ok m\n      | some {arr} => {term}) : Except String Raw) fun m =>")
            done.add(arr); continue
        if isinstance(st, ast.If) and ast.unparse(st.test) == praw and len(_strip(st.body)) == 1 and isinstance(_strip(st.body)[0], ast.Return) \
                and ast.unparse(_strip(st.body)[0].value) == m and not st.orelse:
            ret = "raw"; continue
        if isinstance(st, ast.Return) and isinstance(st.value, ast.Call) and ast.unparse(st.value.func) == "_instanciate_raw_mesh_data" and ret == "raw":
            a = st.value.args
            if not a or ast.unparse(a[0]) != m or st.value.keywords or len(a) > 2: raise TranslateError("from_arrays: arguments of _instanciate_raw_mesh_data")
            dim = "none" if len(a) == 1 or ast.unparse(a[1]) == "None" else f"(some {T.int_literal_table(a[1])})"
            lines.append(f"  if raw then .ok (.inl m) else\n  Except.bind (instantiate cfg m {dim}) fun b => .ok (.inr b)")
            ret = "done"; continue
        raise TranslateError(f"from_arrays: unrecognised statement {ast.unparse(st)[:80]}")
    if ret != "done" or done != {pV, pE, pF, pC}:
        raise TranslateError("from_arrays: an array is not stored or the function does not end with `if raw: return m; return _instanciate_raw_mesh_data(m)`")
    return ("/-- `mesh.from_arrays(V, E, F, C, raw)`: `w`, `ew` = `V.shape[1]`, `E.shape[1]`; a `raise` ends the function with the error -/\n"
            f"def fromArrays (cfg : Cfg) (w ew : Nat) ({pV} : List (List Rat)) ({pE} : Option (List (Int × Int))) ({pF} {pC} : Option (List (List Nat))) (raw : Bool) :\n"
            "    Except String (Raw ⊕ Built) :=\n" + "\n".join(lines) + "\n")


def load_program(tree):
    """`load(filename, dim, raw)`: read, `if raw: return data`, `return _instanciate_raw_mesh_data(data, dim)`"""
    fn = T.find_def(tree, "load")
    params = [a.arg for a in fn.args.args]
    if len(params) != 3 or [ast.unparse(d) for d in fn.args.defaults] != ["None", "False"]:
        raise TranslateError("load is not `load(filename, dim=None, raw=False)`")
    fname, dim, raw = params
    body = _strip(Norm().visit(copy.deepcopy(fn)).body)
    if len(body) != 3: raise TranslateError("load: three statements expected")
    a, b, c = body
    if not (isinstance(a, ast.Assign) and isinstance(a.targets[0], ast.Name) and ast.unparse(a.value) == f"read_by_extension({fname})"):
        raise TranslateError("load: first statement is not `data = read_by_extension(filename)`")
    d = a.targets[0].id
    if not (isinstance(b, ast.If) and ast.unparse(b.test) == raw and not b.orelse and len(_strip(b.body)) == 1 and isinstance(_strip(b.body)[0], ast.Return)
            and ast.unparse(_strip(b.body)[0].value) == d):
        raise TranslateError("load: second statement is not `if raw: return data`")
    if not (isinstance(c, ast.Return) and isinstance(c.value, ast.Call) and ast.unparse(c.value.func) == "_instanciate_raw_mesh_data" and not c.value.keywords
            and [ast.unparse(x) for x in c.value.args] == [d, dim]):
        raise TranslateError("load: last statement is not `return _instanciate_raw_mesh_data(data, dim)`")
    return ("/-- `mesh.load(filename, dim, raw)`: `read` = what `read_by_extension(filename)` returns (`none`: the reader raised) -/\n"
            "def load (cfg : Cfg) (read : Option Raw) (dim : Option Nat) (raw : Bool) : Except String (Raw ⊕ Built) :=\n"
            "  match read with\n  | none => .error \"err:Other(Exception)\"\n  | some data =>\n"
            "  if raw then .ok (.inl data) else\n  Except.bind (instantiate cfg data dim) fun b => .ok (.inr b)\n")


def dimensionality_program(tree):
    """the property `dimensionality`: `if self._dimensionality is None: self._compute_dimensionality()` ; `return self._dimensionality`"""
    fn = T.find_def(tree, "RawMeshData.dimensionality")
    body = _strip(Norm().visit(copy.deepcopy(fn)).body)
    if len(body) != 2: raise TranslateError("dimensionality: two statements expected")
    a, b = body
    if not (isinstance(a, ast.If) and ast.unparse(a.test) == "self._dimensionality is None" and not a.orelse and len(_strip(a.body)) == 1
            and ast.unparse(_strip(a.body)[0]) == "self._compute_dimensionality()"):
        raise TranslateError("dimensionality: first statement is not `if self._dimensionality is None: self._compute_dimensionality()`")
    if not (isinstance(b, ast.Return) and ast.unparse(b.value) == "self._dimensionality"):
        raise TranslateError("dimensionality: does not return the cached value")
    return ("/-- the property `RawMeshData.dimensionality`: `cache` = `self._dimensionality`, `compute` = what `_compute_dimensionality` assigns;\n"
            "returns the value and the cache afterwards -/\n"
            "def dimensionalityProp (cache : Option Nat) (compute : Nat) : Nat × Option Nat :=\n"
            "  let cache := if cache.isNone then some compute else cache\n  (cache.getD 0, cache)\n")


# ------------------------------------------------------------------------------------------------------------------
# one-line accessors of the containers and the id_* properties: `return <expr>` read against a table of shapes
# ------------------------------------------------------------------------------------------------------------------
def _single_return(tree, qual):
    fn = T.find_def(tree, qual)
    body = _strip(Norm().visit(copy.deepcopy(fn)).body)
    if len(body) != 1 or not isinstance(body[0], ast.Return) or body[0].value is None:
        raise TranslateError(f"{qual} is not a single `return <expr>`")
    return ast.unparse(body[0].value), [a.arg for a in fn.args.args][1:]


def accessors_program(md, dc):
    out = []
    e, _ = _single_return(dc, "DataContainer.__len__")
    if e not in ("len(self._data)", "self._data.__len__()"): raise TranslateError(f"DataContainer.__len__ returns {e}")
    out.append("/-- `DataContainer.__len__` -/\nabbrev dcLen {α : Type} (c : List α × List Attr) : Nat := c.1.length\n")
    e, _ = _single_return(dc, "DataContainer.empty")
    if e == "not self._data": out.append("/-- `DataContainer.empty` -/\nabbrev dcEmpty {α : Type} (c : List α × List Attr) : Bool := c.1.isEmpty\n")
    elif e in ("len(self._data) == 0", "len(self) == 0"): out.append("/-- `DataContainer.empty` -/\nabbrev dcEmpty {α : Type} (c : List α × List Attr) : Bool := decide (dcLen c = 0)\n")
    else: raise TranslateError(f"DataContainer.empty returns {e}")
    e, ps = _single_return(dc, "_BaseDataContainer.has_attribute")
    if len(ps) != 1 or e not in (f"{ps[0]} in self._attr", f"{ps[0]} in self._attr.keys()", f"{ps[0]} in self.attributes"):
        raise TranslateError(f"has_attribute returns {e}")
    out.append("/-- `_BaseDataContainer.has_attribute(name)`: membership in the dict `_attr` -/\n"
               "abbrev dcHasAttr {α : Type} (c : List α × List Attr) (name : String) : Bool := hasAttr c.2 name\n")
    e, _ = _single_return(dc, "_BaseDataContainer.attributes")
    if e not in ("self._attr.keys()", "list(self._attr.keys())", "list(self._attr)"): raise TranslateError(f"attributes returns {e}")
    out.append("/-- the property `_BaseDataContainer.attributes`: the attribute names, in insertion order -/\n"
               "abbrev dcAttributes {α : Type} (c : List α × List Attr) : List String := c.2.map (·.name)\n")
    e, _ = _single_return(dc, "CornerDataContainer.__len__")
    if e not in ("len(self._elem)", "self._elem.__len__()"): raise TranslateError(f"CornerDataContainer.__len__ returns {e}")
    out.append("/-- `CornerDataContainer.__len__` -/\nabbrev cornerLen (c : List Nat × List Nat) : Nat := c.1.length\n")

    # ---- round 7: element access, iteration, constructors, attribute creation / lookup, `+=`
    e, ps = _single_return(dc, "DataContainer.__getitem__")
    if len(ps) != 1 or e != f"self._data[{ps[0]}]": raise TranslateError(f"DataContainer.__getitem__ returns {e}")
    out.append("/-- `DataContainer.__getitem__(key)` (an out-of-range read is totalised with `d`; IndexError is not modelled) -/\n"
               "abbrev dcGet {α : Type} (c : List α × List Attr) (key : Nat) (d : α) : α := c.1.getD key d\n")
    e, _ = _single_return(dc, "DataContainer.__iter__")
    if e not in ("self._data.__iter__()", "iter(self._data)"): raise TranslateError(f"DataContainer.__iter__ returns {e}")
    out.append("/-- `DataContainer.__iter__`: the rows, in order -/\nabbrev dcIter {α : Type} (c : List α × List Attr) : List α := c.1\n")
    # __setitem__: `self._data[key] = value`, possibly inside try/except that re-raises
    fn = T.find_def(dc, "DataContainer.__setitem__")
    ps = [a.arg for a in fn.args.args][1:]
    body = _strip(fn.body)
    if len(body) == 1 and isinstance(body[0], ast.Try) and not body[0].orelse and not body[0].finalbody and \
            all(h.body and isinstance(_strip(h.body)[-1], ast.Raise) for h in body[0].handlers):
        body = _strip(body[0].body)
    if len(ps) != 2 or len(body) != 1 or ast.unparse(body[0]) != f"self._data[{ps[0]}] = {ps[1]}":
        raise TranslateError("DataContainer.__setitem__ is not `self._data[key] = value` (under a re-raising try)")
    out.append("/-- `DataContainer.__setitem__(key, value)`: the row is replaced in place, attributes untouched -/\n"
               "abbrev dcSet {α : Type} (c : List α × List Attr) (key : Nat) (v : α) : List α × List Attr := (c.1.set key v, c.2)\n")
    # constructors
    fn = T.find_def(dc, "_BaseDataContainer.__init__")
    ps = [a.arg for a in fn.args.args][1:]
    body = [b for b in _strip(fn.body) if not (isinstance(b, ast.Assign) and ast.unparse(b.targets[0]) == "self.id")]
    ok = len(ps) == 2 and len(body) == 1 and isinstance(body[0], ast.If) and ast.unparse(body[0].test) == f"{ps[0]} is None" \
        and [ast.unparse(x) for x in _strip(body[0].body)] in (["self._attr = dict()"], ["self._attr = {}"]) \
        and [ast.unparse(x) for x in _strip(body[0].orelse) if not isinstance(x, ast.Assert)] == [f"self._attr = {ps[0]}"]
    if not ok: raise TranslateError("_BaseDataContainer.__init__: `self._attr = dict() if attributes is None else attributes` not recognised")
    out.append("/-- `_BaseDataContainer.__init__(attributes)`: a fresh dict, or the dict handed over (shared, not copied) -/\n"
               "abbrev baseInit (attributes : Option (List Attr)) : List Attr := match attributes with | none => [] | some a => a\n")
    fn = T.find_def(dc, "DataContainer.__init__")
    ps = [a.arg for a in fn.args.args][1:]
    body = [ast.unparse(b) for b in _strip(fn.body)]
    if len(ps) != 3 or body != [f"super().__init__({ps[1]}, {ps[2]})", f"self._data = [] if {ps[0]} is None else list({ps[0]})"]:
        raise TranslateError(f"DataContainer.__init__ body not recognised: {body}")
    out.append("/-- `DataContainer.__init__(data, attributes)`: the base constructor, then a fresh list holding the rows given -/\n"
               "abbrev dcInit {α : Type} (data : Option (List α)) (attributes : Option (List Attr)) : List α × List Attr :=\n"
               "  ((match data with | none => [] | some d => d), baseInit attributes)\n")
    fn = T.find_def(dc, "CornerDataContainer.__init__")
    ps = [a.arg for a in fn.args.args][1:]
    body = [ast.unparse(b) for b in _strip(fn.body)]
    if len(ps) != 4 or body[0] != f"super().__init__({ps[2]}, {ps[3]})" or sorted(body[1:]) != sorted(
            [f"self._elem = [] if {ps[0]} is None else list({ps[0]})", f"self._adj = [] if {ps[1]} is None else list({ps[1]})"]):
        raise TranslateError(f"CornerDataContainer.__init__ body not recognised: {body}")
    out.append("/-- `CornerDataContainer.__init__(elem, adj)` -/\n"
               "abbrev cornerInit (elem adj : Option (List Nat)) : List Nat × List Nat :=\n"
               "  ((match elem with | none => [] | some l => l), (match adj with | none => [] | some l => l))\n")
    # get_attribute
    fn = T.find_def(dc, "_BaseDataContainer.get_attribute")
    ps = [a.arg for a in fn.args.args][1:]
    body = _strip(Norm().visit(copy.deepcopy(fn)).body)
    if not (len(ps) == 1 and len(body) == 2 and isinstance(body[0], ast.If) and ast.unparse(body[0].test) == f"{ps[0]} not in self._attr"
            and len(_strip(body[0].body)) == 1 and isinstance(_strip(body[0].body)[0], ast.Raise) and not body[0].orelse
            and ast.unparse(body[1]) == f"return self._attr[{ps[0]}]"):
        raise TranslateError("get_attribute is not `if name not in self._attr: raise ..; return self._attr[name]`")
    out.append("/-- `_BaseDataContainer.get_attribute(name)` (`none` = the exception) -/\n"
               "abbrev dcGetAttribute {α : Type} (c : List α × List Attr) (name : String) : Option Attr :=\n"
               "  if (!(hasAttr c.2 name)) then none else findAttr c.2 name\n")
    # create_attribute
    fn = T.find_def(dc, "_BaseDataContainer.create_attribute")
    ps = [a.arg for a in fn.args.args][1:]
    if ps != ["name", "data_type", "elem_size", "dense", "default_value", "size"]: raise TranslateError(f"create_attribute parameters {ps}")
    body = [b for b in _strip(fn.body) if not (isinstance(b, ast.If) and not _strip(b.body) and not _strip(b.orelse))]   # `if ..: warnings.warn(..)`
    if not (len(body) == 2 and isinstance(body[0], ast.If) and ast.unparse(body[0].test) == "dense" and ast.unparse(body[1]) == "return self._attr[name]"):
        raise TranslateError("create_attribute is not `[warn]; if dense: .. else: ..; return self._attr[name]`")
    b1, b2 = _strip(body[0].body), _strip(body[0].orelse)
    if len(b1) != 1 or len(b2) != 1: raise TranslateError("create_attribute: one assignment per branch expected")

    def ctor(st, cls):
        if not (isinstance(st, ast.Assign) and ast.unparse(st.targets[0]) == "self._attr[name]" and isinstance(st.value, ast.Call) and ast.unparse(st.value.func) == cls):
            raise TranslateError(f"create_attribute: `self._attr[name] = {cls}(..)` expected")
        c = st.value
        kw = {k.arg: ast.unparse(k.value) for k in c.keywords}
        if kw != {"elem_size": "elem_size", "default_value": "default_value"} or ast.unparse(c.args[0]) != "data_type":
            raise TranslateError(f"create_attribute: arguments of {cls}")
        return [ast.unparse(a) for a in c.args[1:]]
    a_dense, a_sparse = ctor(b1[0], "ArrayAttribute"), ctor(b2[0], "Attribute")
    if a_sparse: raise TranslateError("create_attribute: Attribute(..) takes no size")
    if a_dense == ["len(self) if size is None else int(size)"]: sz = "(match size with | none => dcLen c | some n => n)"
    elif a_dense == ["len(self)"]: sz = "(dcLen c)"
    else: raise TranslateError(f"create_attribute: size of the dense storage is {a_dense}")
    out.append("/-- `_BaseDataContainer.create_attribute(name, data_type, elem_size, dense, default_value, size)` for one scalar per element;\n"
               "`dflt` = `default_value` (`none`: the zero of `data_type`); `self._attr[name] = ..` is `attrDictSet` -/\n"
               "def dcCreateAttribute {α : Type} (c : List α × List Attr) (name : String) (dense : Bool) (dflt : Option Int) (size : Option Nat) :\n"
               "    List α × List Attr :=\n"
               f"  if dense then (c.1, attrDictSet c.2 name {{ name := name, dflt := dflt.getD 0, st := .dense (List.replicate {sz} (dflt.getD 0)) }})\n"
               "  else (c.1, attrDictSet c.2 name { name := name, dflt := dflt.getD 0, st := .sparse [] })\n")
    # __iadd__
    fn = T.find_def(dc, "DataContainer.__iadd__")
    ps = [a.arg for a in fn.args.args][1:]
    body = _strip(fn.body)
    if not (len(ps) == 1 and len(body) == 2 and isinstance(body[0], ast.If) and ast.unparse(body[1]) == "return self"):
        raise TranslateError("DataContainer.__iadd__ is not `if ..: .. elif ..: .. else: raise; return self`")
    o = ps[0]
    br1, rest = body[0], _strip(body[0].orelse)
    kinds = sorted(ast.unparse(v) for v in (br1.test.values if isinstance(br1.test, ast.BoolOp) and isinstance(br1.test.op, ast.Or) else [br1.test]))
    if kinds != sorted([f"isinstance({o}, list)", f"isinstance({o}, tuple)", f"isinstance({o}, set)"]):
        raise TranslateError(f"__iadd__: first test {kinds}")
    if not (len(rest) == 1 and isinstance(rest[0], ast.If) and ast.unparse(rest[0].test) == f"isinstance({o}, DataContainer)"
            and len(_strip(rest[0].orelse)) == 1 and isinstance(_strip(rest[0].orelse)[0], ast.Raise)):
        raise TranslateError("__iadd__: `elif isinstance(other, DataContainer): .. else: raise` expected")

    def branch(stmts, srcs, lens):
        """-> Lean amount expression; the statements must be: [n = <len>], self._data += <src>, for attr in self._attr.values(): attr._expand(<len>|n)"""
        names, data, amount = {}, None, None
        for st in _strip(stmts):
            if isinstance(st, ast.Assign) and isinstance(st.targets[0], ast.Name) and ast.unparse(st.value) in lens:
                names[st.targets[0].id] = lens[ast.unparse(st.value)]; continue
            if isinstance(st, ast.AugAssign) and isinstance(st.op, ast.Add) and ast.unparse(st.target) == "self._data" and ast.unparse(st.value) in srcs and data is None:
                data = True; continue
            if isinstance(st, ast.For) and ast.unparse(st.iter) == "self._attr.values()" and len(_strip(st.body)) == 1 and amount is None:
                c = _strip(st.body)[0]
                if isinstance(c, ast.Expr) and isinstance(c.value, ast.Call) and ast.unparse(c.value.func) == f"{st.target.id}._expand" and len(c.value.args) == 1:
                    a = ast.unparse(c.value.args[0])
                    if a in lens: amount = lens[a]
                    elif a in names: amount = names[a]
                    elif a.isdigit(): amount = a
                    else: raise TranslateError(f"__iadd__: attributes expanded by {a}")
                    continue
            raise TranslateError(f"__iadd__: unrecognised statement {ast.unparse(st)[:60]}")
        if not data or amount is None: raise TranslateError("__iadd__: a branch does not extend both the rows and the attributes")
        return amount
    a1 = branch(br1.body, (f"list({o})", o), {f"len({o})": "other.length"})
    a2 = branch(rest[0].body, (f"{o}._data", f"list({o}._data)"), {f"len({o}._data)": "o.1.length", f"len({o})": "o.1.length"})
    out.append("/-- `DataContainer.__iadd__(other)`, `other` a list / tuple / set: the rows appended, every attribute expanded -/\n"
               "def dcIaddList {α : Type} (c : List α × List Attr) (other : List α) : List α × List Attr :=\n"
               f"  (c.1 ++ other, c.2.map (expandAttr ({a1})))\n")
    out.append("/-- … `other` a DataContainer (its length read before the rows are appended: `other` may be `self`) -/\n"
               "def dcIaddCont {α : Type} (c o : List α × List Attr) : List α × List Attr :=\n"
               f"  (c.1 ++ o.1, c.2.map (expandAttr ({a2})))\n")
    for prop, cont in ID_PROPS.items():
        fn = T.find_def(md, "RawMeshData." + prop)
        body = _strip(fn.body)       # NOT normalised: the normaliser rewrites `self.id_x` itself
        if len(body) != 1 or not isinstance(body[0], ast.Return): raise TranslateError(f"RawMeshData.{prop} is not a single return")
        e = ast.unparse(body[0].value)
        if e == f"range(len(self.{cont}))": rhs = "List.range (dcLen c)"
        else: raise TranslateError(f"RawMeshData.{prop} returns {e}, not range(len(self.{cont}))")
        out.append(f"/-- the property `RawMeshData.{prop}` (`c` = the container `self.{cont}`) -/\n"
                   f"abbrev id{cont.capitalize()} {{α : Type}} (c : List α × List Attr) : List Nat := {rhs}\n")
    return "\n".join(out)


# what is emitted for a function whose body is not recognised (so that the other bridges still compile and only this one breaks)
STUB = {"cpair": "def {lean} (c : List Nat × List Nat) (a0 : Nat) (a1 : Nat) : List Nat × List Nat := c\n",
        "raw": "def {lean} (s : Raw) : Raw := s\n", "vstate": "def {lean} (s : VState) : VState := s\n",
        "rawr": "def {lean} (s : RawR) : RawR := s\n",
        "dcont": "def {lean} {{α : Type}} (c : List α × List Attr) (a0 : α) : List α × List Attr := c\n"}


def _check_id_props(tree):
    """`id_x` must be the property returning `range(len(self.x))` (the normalisation relies on it)"""
    for prop, cont in ID_PROPS.items():
        fn = T.find_def(tree, "RawMeshData." + prop)
        body = _strip(fn.body)
        if len(body) != 1 or not isinstance(body[0], ast.Return) or ast.unparse(body[0].value) != f"range(len(self.{cont}))":
            raise TranslateError(f"RawMeshData.{prop} is not `return range(len(self.{cont}))`")


def _check_len(tree):
    fn = T.find_def(tree, "CornerDataContainer.__len__")
    body = _strip(fn.body)
    if len(body) != 1 or not isinstance(body[0], ast.Return) or ast.unparse(body[0].value) not in ("len(self._elem)", "self._elem.__len__()"):
        raise TranslateError("CornerDataContainer.__len__ is not `return len(self._elem)`")


def translate_bodies():
    sites, chunks = [], []
    trees = {}

    def tree(f):
        if f not in trees: trees[f] = T.load(f)[0]
        return trees[f]
    rec = T.site("data_container.py: DataContainer.__len__, empty, has_attribute, attributes, CornerDataContainer.__len__; mesh_data.py: id_* properties (one-line bodies)",
                 lambda: accessors_program(tree(MD_FILE), tree(DC_FILE)))
    acc_ok = rec["ok"]
    if acc_ok:
        chunks.append(rec["detail"]); rec["detail"] = {"lean": "Generated.C02B.dcLen, dcEmpty, dcHasAttr, dcAttributes, dcGet, dcIter, dcSet, baseInit, dcInit, cornerInit, dcGetAttribute, dcCreateAttribute, dcIaddList, dcIaddCont, cornerLen, idVertices, idEdges, idFaces, idCells"}
    else:
        chunks.append(f"/-- container accessors: NOT TRANSLATED ({rec['detail'][:200]}) -/\ndef accessorsNotTranslated : Unit := ()\n")
    sites.append(rec)
    corner_ok = False
    data_ok = [False]
    for f, py, lean, state in FUNCTIONS:
        def one(f=f, py=py, lean=lean, state=state):
            fn = T.find_def(tree(f), py)
            c = Fn(py, lean, fn, state, corner_append_sig=True if corner_ok else None)
            c.data_append = data_ok[0]
            c.acc = acc_ok
            txt = c.compile()
            return txt
        rec = T.site(f"{f.split('/')[-1]}:{py.split('.')[-1]} (body, statement by statement)", one)
        if rec["ok"]:
            chunks.append(rec["detail"])
            rec["detail"] = {"lean": f"Generated.C02B.{lean}", "lines": rec["detail"].count("\n")}
            if lean == "cornerAppend": corner_ok = True
            if lean == "dataAppend": data_ok[0] = True
        else:
            chunks.append(f"/-- `{py}`: NOT TRANSLATED ({rec['detail'][:200]}) -/\n" + STUB[state].format(lean=lean))
        sites.append(rec)
    rec = T.site("mesh_data.py:__init__ (fresh containers / containers of the wrapped mesh, one binding per container)",
                 lambda: init_program(tree(MD_FILE)))
    if rec["ok"]:
        chunks.append(rec["detail"]); rec["detail"] = {"lean": "Generated.C02B.initFromMesh, initFresh"}
    else:
        chunks.append(f"/-- `RawMeshData.__init__`: NOT TRANSLATED ({rec['detail'][:200]}) -/\ndef initNotTranslated : Unit := ()\n")
    sites.append(rec)
    for nm, f, prog, names in (("mesh.py:from_arrays (whole body: padding, range checks, storing, raw / instanciate)", MM_FILE, from_arrays_program, "fromArrays"),
                               ("mesh.py:load (read, raw, instanciate)", MM_FILE, load_program, "load"),
                               ("mesh_data.py:dimensionality property (cache test, compute, return)", MD_FILE, dimensionality_program, "dimensionalityProp")):
        rec = T.site(nm, lambda f=f, prog=prog: prog(tree(f)))
        if rec["ok"]:
            chunks.append(rec["detail"]); rec["detail"] = {"lean": f"Generated.C02B.{names}"}
        else:
            chunks.append(f"/-- `{names}`: NOT TRANSLATED ({rec['detail'][:200]}) -/\ndef {names}NotTranslated : Unit := ()\n")
        sites.append(rec)
    body = ("import Mouette.Model.PrepareSource\nimport Mouette.Lemmas.C02Rows\nset_option linter.unusedVariables false\nnamespace Mouette.Generated.C02B\n"
            "open Mouette.Prepare Mouette.PrepSrc\n\n" + "\n".join(chunks) + "\nend Mouette.Generated.C02B\n")
    T.write_generated("C02Bodies", body)
    return sites
