"""C04 helpers that do NOT use mouette: tokenisers, the vocabulary table (`restrict`), and an independent
reference writer + reader per file format, written from the format definitions.

Mesh *content* is plain data:
  {"V": [[hx,hy,hz],...]  (float.hex() strings, so bit-exact and JSON-safe),
   "E": [[a,b],...], "nd": number of leading *declared* edges of E (rest = completed from faces),
   "hard": None | [edge ids flagged in the hard_edges attribute],
   "F": [[...],...], "C": [[...],...],
   "attrs": [{"on": container, "name", "type": bool|int|float, "arity": k, "values": [[...] per element]}]}
Tokens are ("k", str) | ("i", int) | ("x", float-hex str); a file is a list of non-empty token lines.
"""
import math, re, struct

FORMATS = ["obj", "mesh", "geogram_ascii", "off", "tet", "xyz", "stl"]
_INT = re.compile(r"^[+-]?[0-9]+$")


def fhex(x):
    x = float(x)
    if x != x: return "nan"
    return x.hex()


def unhex(s):
    if s in ("nan", "inf", "-inf"): return float(s)
    if "0x" in s: return float.fromhex(s)
    return float(s)


def canon_num(s):
    """canonical spelling of a coordinate printed by either side (hex, decimal or integer text)"""
    return fhex(unhex(s))


def classify(tok):
    if _INT.match(tok):
        return ("i", int(tok))
    try:
        return ("x", fhex(float(tok)))
    except ValueError:
        return ("k", tok)


def tokenize_text(fmt, text):
    lines = []
    for ln in text.split("\n"):
        if fmt == "geogram_ascii":
            ln = ln.split("#")[0]
        toks = ln.split()
        if toks:
            lines.append([classify(t) for t in toks])
    return lines


def f32hex(b4):
    return fhex(struct.unpack("<f", b4)[0])


def tokenize_stl(data):
    """binary STL -> [[i n]] + one line per record: 12 float32 (as hex of the exact value) + attribute word"""
    if len(data) < 84:
        return [[("k", "truncated")]]
    n = struct.unpack("<I", data[80:84])[0]
    lines = [[("i", n)]]
    off = 84
    for _ in range(n):
        rec = data[off:off + 50]
        if len(rec) < 50:
            lines.append([("k", "truncated")]); break
        lines.append([("x", f32hex(rec[4 * j:4 * j + 4])) for j in range(12)] + [("i", struct.unpack("<H", rec[48:50])[0])])
        off += 50
    if off != len(data):
        lines.append([("k", "trailing-bytes")])
    return lines


def tokenize(fmt, data):
    if fmt == "stl":
        if isinstance(data, str): data = data.encode()
        if data[:5] == b"solid":
            return tokenize_text(fmt, data.decode())
        return tokenize_stl(data)
    if isinstance(data, bytes): data = data.decode()
    return tokenize_text(fmt, data)


def enc_tok(t):
    return f"{t[0]}:{t[1]}"


def enc_file(lines):
    out = [str(len(lines))]
    for l in lines:
        out.append(str(len(l)))
        out += [enc_tok(t) for t in l]
    return " ".join(out)


def show_file(lines):
    return " | ".join(" ".join(enc_tok(t) for t in l) for l in lines)


# ------------------------------------------------------------------------------------------------
# vocabulary table (DESIGN.md C04) : what a format can express
# ------------------------------------------------------------------------------------------------
def kind_of_face(f):
    return {3: "tri-face", 4: "quad-face"}.get(len(f), "polygon-face")


def kind_of_cell(c):
    return {4: "tet-cell", 8: "hex-cell"}.get(len(c), "other-cell")


def f32round(h):
    import numpy as np
    return fhex(float(np.float32(unhex(h))))


def keyify(e):
    return [min(e), max(e)]


def declared_edges(content, fmt, cfg, ignore=()):
    """edges that must come back (vocabulary 'declared/hard edges' for obj/medit, 'all edges' for geogram).
    What is written with ignore_elements=K is the restriction of the mesh to the kept element kinds, in the
    format's vocabulary.  The edges completed from faces may be left out ONLY when the reader can complete them
    again, i.e. when the file itself carries faces (or cells, in a format that expresses cells) of the mesh;
    otherwise (wireframe export) every edge of the mesh has to be written.  Returns (lower, upper)."""
    E, nd = content["E"], content["nd"]
    if "edges" in ignore or fmt in ("off", "tet", "xyz", "stl"):
        return [], []
    if fmt == "geogram_ascii":
        return E, E
    if fmt == "obj" and not cfg.get("export_edges_in_obj", True):
        return [], []
    if not content["F"] or not cfg.get("complete_edges_from_faces", True):
        return E, E          # no completion happened in this mesh: every edge is a declared one
    faces_in_file = bool(content["F"]) and "faces" not in ignore
    cells_in_file = bool(content["C"]) and "cells" not in ignore and fmt == "mesh"
    if not (faces_in_file or cells_in_file):
        return E, E          # wireframe: nothing in the file lets a reader rebuild the completed edges
    return E[:nd], E[:nd]


def restrict(content, fmt, cfg=None, ignore=()):
    """Expected content of load(save(mesh)) before completion: the vocabulary table applied to the mesh."""
    cfg = cfg or {}
    V = [list(v) for v in content["V"]]
    F = [] if "faces" in ignore else [list(f) for f in content["F"]]
    C = [] if "cells" in ignore else [list(c) for c in content["C"]]
    lo, up = declared_edges(content, fmt, cfg, ignore)
    out = {"V": V, "E": [list(e) for e in lo], "E_up": [list(e) for e in up], "F": [], "C": [], "attrs": []}
    if fmt == "obj":
        out["F"] = F
        out["E"] = [keyify(e) for e in out["E"]]; out["E_up"] = [keyify(e) for e in out["E_up"]]
    elif fmt == "mesh":
        out["F"] = [f for f in F if len(f) == 3] + [f for f in F if len(f) == 4]       # per-kind blocks
        out["C"] = [c for c in C if len(c) == 8] + [c for c in C if len(c) == 4]
    elif fmt == "geogram_ascii":
        out["F"], out["C"] = F, C
        out["attrs"] = [a for a in content.get("attrs", []) if not (a["on"] in ("faces", "face_corners") and "faces" in ignore)
                        and not (a["on"] == "edges" and "edges" in ignore)
                        and not (a["on"] in ("cells", "cell_corners", "cell_faces") and "cells" in ignore)]
    elif fmt == "off":
        out["F"] = F
    elif fmt == "tet":
        out["C"] = C      # arity-prefixed records: any cell arity is expressible (geogram's .tet reader does the same)
    elif fmt == "xyz":
        pass
    elif fmt == "stl":
        out["F"] = [f for f in F if len(f) == 3]
        out["V"] = [[f32round(c) for c in v] for v in V]
    return out


def implied_dim(content):
    return 3 if content["C"] else 2 if content["F"] else 1 if content["E"] else 0


def soup(content, faces=None):
    """triangle soup (multiset of coordinate triples) of the triangles of a content"""
    V = content["V"]
    return sorted(tuple(tuple(V[i]) for i in f) for f in (content["F"] if faces is None else faces))


# ------------------------------------------------------------------------------------------------
# reference writers (independent of mouette; from the format definitions)
# ------------------------------------------------------------------------------------------------
def _num(h, style, k=0):
    x = unhex(h)
    r = repr(x)
    if style == "plain":
        return r
    # 'spaced' style: other legal spellings of the same double
    if x == int(x) and abs(x) < 1e15 and not (x == 0 and math.copysign(1, x) < 0):
        return [str(int(x)), r, "%.1f" % x, "+" + r if x >= 0 else r][k % 4]          # integers, explicit plus sign
    if "e" not in r and k % 3 == 1:
        return r + "0"              # trailing zero
    if k % 3 == 2:
        m = "%.17e" % x             # 17 significant digits always round-trip
        return m.upper() if k % 2 else m
    return r


def ref_write(fmt, content, style="plain"):
    sp = (style != "plain")
    sep = "  \t " if sp else " "
    V, E, F, C = content["V"], content["E"], content["F"], content["C"]
    L = []
    k = [0]

    def num(h):
        k[0] += 1
        return _num(h, style, k[0])
    if fmt == "obj":
        if sp: L += ["# written by the reference writer", ""]
        for v in V: L.append("v" + sep + sep.join(num(c) for c in v))
        if sp: L.append("")
        for a, b in E: L.append(f"l{sep}{a + 1}{sep}{b + 1}")
        for f in F: L.append("f" + sep + sep.join(str(i + 1) for i in f))
        return "\n".join(L) + "\n"
    if fmt == "off":
        L.append("OFF")
        L.append(f"{len(V)}{sep}{len(F)}{sep}0")
        if sp: L.append("")
        for v in V: L.append(sep.join(num(c) for c in v))
        for f in F: L.append(f"{len(f)}{sep}" + sep.join(str(i) for i in f))
        return "\n".join(L) + "\n"
    if fmt == "tet":
        L.append(f"{len(V)} vertices"); L.append(f"{len(C)} tets")
        for v in V: L.append(sep.join(num(c) for c in v))
        for c in C: L.append(f"{len(c)}{sep}" + sep.join(str(i) for i in c))
        return "\n".join(L) + "\n"
    if fmt == "xyz":
        for v in V: L.append(("  " if sp else "") + sep.join(num(c) for c in v))
        return "\n".join(L) + "\n"
    if fmt == "mesh":
        ind = " " if sp else ""
        L.append(f"{ind}MeshVersionFormatted 2"); L.append(f"{ind}Dimension 3")
        if sp: L.append("")

        def block(kw, recs, shift=1, ref="0"):
            if not recs: return
            L.append(ind + kw); L.append(ind + str(len(recs)))
            for r in recs: L.append(ind + sep.join(str(i + shift) for i in r) + sep + ref)
            if sp: L.append("")
        if V:
            L.append(ind + "Vertices"); L.append(ind + str(len(V)))
            for v in V: L.append(ind + sep.join(num(c) for c in v) + sep + ("7" if sp else "0"))
        block("Edges", E)
        # a writer is free to order the blocks; the 'spaced' style uses another legal order
        tri = [f for f in F if len(f) == 3]; quad = [f for f in F if len(f) == 4]
        tet = [c for c in C if len(c) == 4]; hexa = [c for c in C if len(c) == 8]
        if sp:
            block("Quadrilaterals", quad, ref="3"); block("Triangles", tri, ref="2"); block("Tetrahedra", tet); block("Hexahedra", hexa)
        else:
            block("Triangles", tri); block("Quadrilaterals", quad); block("Tetrahedra", tet); block("Hexahedra", hexa)
        L.append(ind + "End")
        return "\n".join(L) + "\n"
    if fmt == "geogram_ascii":
        cm = (lambda s: "  # " + s) if sp else (lambda s: "")

        def atts(name, n):
            L.extend(["[ATTS]", f'"GEO::Mesh::{name}"', str(n) + cm("number of items")])

        def attr(cont, name, typ, size, dim, values):
            L.extend(["[ATTR]", f'"GEO::Mesh::{cont}"', f'"{name}"', f'"{typ}"', str(size) + cm("this is the size of an element (in bytes)"),
                      str(dim) + cm("this is the number of elements per item")])
            L.extend(str(v) for v in values)
        L.extend(["[HEAD]", '"GEOGRAM"', '"1.0"'])
        atts("vertices", len(V))
        attr("vertices", "point", "double", 8, 3, [num(c) for v in V for c in v])
        ty = {"bool": ("bool", 1), "int": ("int", 4), "float": ("double", 8)}

        def user(cont_m, cont_g):
            for a in content.get("attrs", []):
                if a["on"] != cont_m: continue
                t, sz = ty[a["type"]]
                vals = []
                for row in a["values"]:
                    for v in row:
                        vals.append(str(int(v)) if a["type"] in ("bool", "int") else num(v))
                attr(cont_g, a["name"], t, sz, a["arity"], vals)
        user("vertices", "vertices")
        if E:
            atts("edges", len(E))
            attr("edges", "GEO::Mesh::edges::edge_vertex", "index_t", 4, 2, [i for e in E for i in e])
            user("edges", "edges")
        if F:
            atts("facets", len(F))
            if any(len(f) != 3 for f in F):
                ptr, p = [], 0
                for f in F: ptr.append(p); p += len(f)
                attr("facets", "GEO::Mesh::facets::facet_ptr", "index_t", 4, 1, ptr)
            user("faces", "facets")
            atts("facet_corners", sum(len(f) for f in F))
            attr("facet_corners", "GEO::Mesh::facet_corners::corner_vertex", "index_t", 4, 1, [i for f in F for i in f])
            user("face_corners", "facet_corners")
        if C:
            atts("cells", len(C))
            if any(len(c) != 4 for c in C):
                ptr, p = [], 0
                for c in C: ptr.append(p); p += len(c)
                attr("cells", "GEO::Mesh::cells::cell_ptr", "index_t", 4, 1, ptr)
            user("cells", "cells")
            atts("cell_corners", sum(len(c) for c in C))
            attr("cell_corners", "GEO::Mesh::cell_corners::corner_vertex", "index_t", 4, 1, [i for c in C for i in c])
            user("cell_corners", "cell_corners")
            if sp and all(len(c) == 4 for c in C):
                # as geogram itself does for volumes: adjacency across the facet opposite to each corner (no neighbour = 2^32-1)
                loc = [(1, 3, 2), (0, 2, 3), (3, 1, 0), (0, 1, 2)]
                owner = {}
                for ic, c in enumerate(C):
                    for k, t in enumerate(loc): owner.setdefault(tuple(sorted(c[i] for i in t)), []).append(ic)
                adj = []
                for ic, c in enumerate(C):
                    for k, t in enumerate(loc):
                        o = [x for x in owner[tuple(sorted(c[i] for i in t))] if x != ic]
                        adj.append(o[0] if o else 4294967295)
                atts("cell_facets", 4 * len(C))
                attr("cell_facets", "GEO::Mesh::cell_facets::adjacent_cell", "index_t", 4, 1, adj)
        return "\n".join(L) + "\n"
    if fmt == "stl":
        tris = [f for f in F if len(f) == 3]
        if style == "ascii":
            L.append("solid ref")
            for f in tris:
                L.append(" facet normal 0 0 0"); L.append("  outer loop")
                for i in f: L.append("   vertex " + " ".join(repr(unhex(f32round(c))) for c in V[i]))
                L.append("  endloop"); L.append(" endfacet")
            L.append("endsolid ref")
            return "\n".join(L) + "\n"
        out = struct.pack("<80sI", b"reference binary stl", len(tris))
        for f in tris:
            vals = [0.0, 0.0, 0.0] + [unhex(f32round(c)) for i in f for c in V[i]]
            out += struct.pack("<12fH", *vals, 0)
        return out
    raise ValueError(fmt)


# ------------------------------------------------------------------------------------------------
# reference readers (independent of mouette; from the format definitions). They raise RefError on files
# that are not valid instances of the format.
# ------------------------------------------------------------------------------------------------
class RefError(Exception):
    pass


def _f(tok):
    try:
        return fhex(float(tok))
    except ValueError:
        raise RefError(f"not a number: {tok!r}")


def _i(tok):
    if not _INT.match(tok): raise RefError(f"not an integer: {tok!r}")
    return int(tok)


def ref_read(fmt, data):
    out = {"V": [], "E": [], "F": [], "C": [], "attrs": []}
    if fmt == "stl":
        if isinstance(data, str): data = data.encode()
        if len(data) < 84: raise RefError("short stl")
        n = struct.unpack("<I", data[80:84])[0]
        if len(data) != 84 + 50 * n: raise RefError("stl size does not match the facet count")
        for t in range(n):
            rec = data[84 + 50 * t: 84 + 50 * t + 50]
            for j in range(3):
                out["V"].append([f32hex(rec[12 + 12 * j + 4 * c: 16 + 12 * j + 4 * c]) for c in range(3)])
            out["F"].append([3 * t, 3 * t + 1, 3 * t + 2])
        return out
    if isinstance(data, bytes): data = data.decode()
    lines = data.split("\n")
    if fmt == "obj":
        for ln in lines:
            ln = ln.split("#")[0]
            t = ln.split()
            if not t: continue
            if t[0] == "v":
                if len(t) < 4: raise RefError("short v")
                out["V"].append([_f(x) for x in t[1:4]])
            elif t[0] == "f":
                if len(t) < 4: raise RefError("face with < 3 vertices")
                out["F"].append([_i(x.split("/")[0]) - 1 for x in t[1:]])
            elif t[0] == "l":
                idx = [_i(x.split("/")[0]) - 1 for x in t[1:]]
                if len(idx) < 2: raise RefError("short l")
                for a, b in zip(idx, idx[1:]): out["E"].append(keyify([a, b]))
            elif t[0] in ("vn", "vt", "g", "o", "s", "usemtl", "mtllib"):
                pass
            else:
                raise RefError(f"unknown obj statement {t[0]!r}")
        return out
    if fmt == "off":
        rows = [ln.split("#")[0].split() for ln in lines]
        rows = [r for r in rows if r]
        if not rows or rows[0][0] != "OFF": raise RefError("OFF header missing")
        if len(rows[0]) > 1: rows[0] = rows[0][1:]
        else: rows = rows[1:]
        nv, nf = _i(rows[0][0]), _i(rows[0][1])
        rows = rows[1:]
        if len(rows) != nv + nf: raise RefError("record count does not match the header")
        for r in rows[:nv]:
            if len(r) < 3: raise RefError("short vertex")
            out["V"].append([_f(x) for x in r[:3]])
        for r in rows[nv:]:
            n = _i(r[0])
            if len(r) < n + 1: raise RefError("short face")
            out["F"].append([_i(x) for x in r[1:n + 1]])
        return out
    if fmt == "tet":
        rows = [ln.split() for ln in lines if ln.split()]
        if len(rows) < 2 or rows[0][1:] != ["vertices"] or rows[1][1:] != ["tets"]: raise RefError("bad tet header")
        nv, nc = _i(rows[0][0]), _i(rows[1][0])
        rows = rows[2:]
        if len(rows) != nv + nc: raise RefError("record count does not match the header")
        for r in rows[:nv]:
            if len(r) != 3: raise RefError("vertex record")
            out["V"].append([_f(x) for x in r])
        for r in rows[nv:]:
            n = _i(r[0])
            if len(r) != n + 1: raise RefError("cell record arity")
            out["C"].append([_i(x) for x in r[1:]])
        return out
    if fmt == "xyz":
        for ln in lines:
            t = ln.split()
            if not t: continue
            if len(t) not in (3, 6): raise RefError("xyz record must have 3 or 6 numbers")
            out["V"].append([_f(x) for x in t[:3]])
        return out
    if fmt == "mesh":
        toks = []
        for ln in lines:
            toks += ln.split("#")[0].split()
        p = 0
        dim = 3
        arity = {"Edges": ("E", 2), "Triangles": ("F", 3), "Quadrilaterals": ("F", 4), "Tetrahedra": ("C", 4), "Hexahedra": ("C", 8)}
        while p < len(toks):
            kw = toks[p]; p += 1
            if kw == "MeshVersionFormatted": _i(toks[p]); p += 1
            elif kw == "Dimension": dim = _i(toks[p]); p += 1
            elif kw == "End": break
            elif kw == "Vertices":
                n = _i(toks[p]); p += 1
                for _ in range(n):
                    c = [_f(x) for x in toks[p:p + dim]]
                    if len(c) != dim: raise RefError("short vertex block")
                    _i(toks[p + dim]); p += dim + 1
                    out["V"].append((c + [fhex(0.0)])[:3])
            elif kw in arity:
                cont, k = arity[kw]
                n = _i(toks[p]); p += 1
                for _ in range(n):
                    if p + k + 1 > len(toks): raise RefError("short block " + kw)
                    out[cont].append([_i(x) - 1 for x in toks[p:p + k]]); _i(toks[p + k]); p += k + 1
            else:
                raise RefError(f"unknown medit keyword {kw!r}")
        return out
    if fmt == "geogram_ascii":
        vals = []
        for ln in lines:
            s = ln.split("#")[0].strip()
            if s: vals.append(s)
        chunks, cur = [], None
        for s in vals:
            if s in ("[HEAD]", "[ATTS]", "[ATTR]"):
                cur = [s]; chunks.append(cur)
            elif s.startswith("["):
                cur = [s]; chunks.append(cur)       # other chunk kinds are skipped below
            elif cur is None: raise RefError("data before the first chunk")
            else: cur.append(s)
        sizes, attrs = {}, []
        for ch in chunks:
            if ch[0] == "[HEAD]":
                if ch[1:3] != ['"GEOGRAM"', '"1.0"']: raise RefError("bad HEAD")
            elif ch[0] == "[ATTS]":
                sizes[ch[1].strip('"')] = _i(ch[2])
        for ch in chunks:
            if ch[0] != "[ATTR]": continue
            cont, name, typ = ch[1].strip('"'), ch[2].strip('"'), ch[3].strip('"')
            esz, dim = _i(ch[4]), _i(ch[5])
            if cont not in sizes: raise RefError(f"attribute on undeclared element set {cont}")
            data = ch[6:]
            if len(data) != sizes[cont] * dim: raise RefError(f"attribute {name}: {len(data)} values for {sizes[cont]}x{dim}")
            attrs.append((cont, name, typ, dim, data))
        A = {(c, n): (t, d, data) for c, n, t, d, data in attrs}

        def idx(cont, name):
            t, d, data = A.pop((cont, name))
            return [_i(x) for x in data], d
        if ("GEO::Mesh::vertices", "point") in A:
            t, d, data = A.pop(("GEO::Mesh::vertices", "point"))
            if d != 3: raise RefError("points must have 3 coordinates")
            out["V"] = [[_f(x) for x in data[3 * i:3 * i + 3]] for i in range(len(data) // 3)]
        elif sizes.get("GEO::Mesh::vertices", 0): raise RefError("no point attribute")
        if sizes.get("GEO::Mesh::edges", 0):
            ev, d = idx("GEO::Mesh::edges", "GEO::Mesh::edges::edge_vertex")
            out["E"] = [[ev[2 * i], ev[2 * i + 1]] for i in range(len(ev) // 2)]
        for (elts, corners, ptrname, cvname, default, key) in (
                ("GEO::Mesh::facets", "GEO::Mesh::facet_corners", "GEO::Mesh::facets::facet_ptr", "GEO::Mesh::facet_corners::corner_vertex", 3, "F"),
                ("GEO::Mesh::cells", "GEO::Mesh::cell_corners", "GEO::Mesh::cells::cell_ptr", "GEO::Mesh::cell_corners::corner_vertex", 4, "C")):
            n = sizes.get(elts, 0)
            if not n: continue
            cv, _ = idx(corners, cvname)
            if (elts, ptrname) in A:
                ptr, _ = idx(elts, ptrname)
                ptr = ptr[:n] + [len(cv)]
            else:
                if len(cv) != default * n: raise RefError(f"{elts}: no {ptrname} but {len(cv)} corners for {n} elements")
                ptr = [default * i for i in range(n + 1)]
            for i in range(n):
                if not (0 <= ptr[i] <= ptr[i + 1] <= len(cv)): raise RefError("bad ptr")
                out[key].append(cv[ptr[i]:ptr[i + 1]])
        cname = {"GEO::Mesh::vertices": "vertices", "GEO::Mesh::edges": "edges", "GEO::Mesh::facets": "faces",
                 "GEO::Mesh::facet_corners": "face_corners", "GEO::Mesh::cells": "cells", "GEO::Mesh::cell_corners": "cell_corners",
                 "GEO::Mesh::cell_facets": "cell_faces"}
        tname = {"double": "float", "float": "float", "int": "int", "index_t": "int", "signed_index_t": "int", "bool": "bool"}
        for (cont, name), (t, d, data) in A.items():
            if t not in tname: raise RefError(f"attribute {name}: unknown type {t}")
            ty = tname[t]
            conv = (lambda x: fhex(unhex(_f(x)))) if ty == "float" else (lambda x: _i(x))
            flat = [conv(x) for x in data]
            if ty == "bool": flat = [int(bool(x)) for x in flat]
            out["attrs"].append({"on": cname.get(cont, cont), "name": name, "type": ty, "arity": d,
                                 "values": [flat[d * i:d * i + d] for i in range(len(flat) // d)]})
        return out
    raise ValueError(fmt)
