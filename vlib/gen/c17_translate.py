"""C17 translated fragments, round 4: the assembly of the Tutte system, re-extracted on every run into
lean/Mouette/Generated/C17Sys.lean (vocabulary: lean/Mouette/Model/TutteSource.lean).

  laplacian_op.py: laplacian          the per-face weights (`0.5, 0.5, 0.5` / `cot[..]/2 for _v in (p,q,r)`), the pairing
                                      `[(p,q,c),(q,r,a),(r,p,b)]`, the four COO writes per pair in the branch `connection is None`
                                      (row, column, value, each followed by `_c+1`), `n_coeffs = 12*len(mesh.faces)`, the guard
                                      structure choosing the cotangents (flag first, cached attribute second)
  tutte.py: TutteEmbedding.run        `freeInds`, the row / column selectors of `LI` and `LB`, the right-hand sides `-LB.dot(Ubnd)`,
                                      `-LB.dot(Vbnd)`, which solve goes to U and to V, and the four storage loops (which index list,
                                      which arrays, which index, vertex slot or the corners of the vertex)
  tutte.py: BoundaryMode.from_string  the ordered table substring -> mode, the enum values
  base.py: BaseParametrization.flat_mesh   the corner index `3*T+i` and which coordinates are copied

Tolerated respellings: renamed locals, `0.5` / `1/2`, `x/2` / `0.5*x` / `x*0.5`, `-v` / `-1*v`, `_c+1` / `1+_c`, `_c += 1` on its own line is
NOT the same shape (TranslateError), docstrings, comments, type annotations. Anything else raises TranslateError.
"""
import ast
from fractions import Fraction

from .. import translate as T
from ..translate import TranslateError

LAP = "mouette/operators/laplacian_op.py"
TUT = "mouette/processing/parametrization/tutte.py"
BASE = "mouette/processing/parametrization/base.py"


def _strip(stmts):
    out = []
    for s in stmts:
        if isinstance(s, ast.Pass) or (isinstance(s, ast.Expr) and isinstance(s.value, ast.Constant)): continue
        if isinstance(s, ast.AnnAssign):           # `x : T = e` is `x = e`; a bare annotation is nothing
            if s.value is None: continue
            s = ast.copy_location(ast.Assign([s.target], s.value), s)
        out.append(s)
    return out


def _path(n):
    parts = []
    while isinstance(n, ast.Attribute):
        parts.append(n.attr); n = n.value
    if isinstance(n, ast.Name):
        parts.append(n.id); return ".".join(reversed(parts))
    return None


def _rat(node, names):
    """arithmetic over the given names (python name -> Lean term) and numeric literals -> Lean Rat term, in a normal form
    for the re-spellings listed above"""
    if isinstance(node, ast.Constant) and isinstance(node.value, (int, float)) and not isinstance(node.value, bool):
        fr = Fraction(node.value)
        return f"(({fr.numerator} : Rat) / ({fr.denominator} : Rat))" if fr.denominator != 1 else f"({fr.numerator} : Rat)"
    if isinstance(node, ast.Name) and node.id in names: return names[node.id]
    if isinstance(node, ast.UnaryOp) and isinstance(node.op, ast.USub):
        return f"(-{_rat(node.operand, names)})"
    if isinstance(node, ast.BinOp):
        a, b = node.left, node.right
        if isinstance(node.op, ast.Div):
            # literal / literal -> one rational literal
            if all(isinstance(x, ast.Constant) and isinstance(x.value, (int, float)) for x in (a, b)) and b.value != 0:
                fr = Fraction(a.value) / Fraction(b.value)
                return f"(({fr.numerator} : Rat) / ({fr.denominator} : Rat))" if fr.denominator != 1 else f"({fr.numerator} : Rat)"
            return f"({_rat(a, names)} / {_rat(b, names)})"
        if isinstance(node.op, ast.Mult):
            # 0.5*x, x*0.5 -> x / 2 ; -1*v -> -v
            for lit, other in ((a, b), (b, a)):
                if isinstance(lit, ast.Constant) and isinstance(lit.value, (int, float)) and not isinstance(lit.value, bool):
                    fr = Fraction(lit.value)
                    if fr == Fraction(1, 2): return f"({_rat(other, names)} / (2 : Rat))"
                    if fr == -1: return f"(-{_rat(other, names)})"
                if isinstance(lit, ast.UnaryOp) and isinstance(lit.op, ast.USub) and isinstance(lit.operand, ast.Constant) and lit.operand.value == 1:
                    return f"(-{_rat(other, names)})"
            return f"({_rat(a, names)} * {_rat(b, names)})"
        if isinstance(node.op, ast.Add): return f"({_rat(a, names)} + {_rat(b, names)})"
        if isinstance(node.op, ast.Sub): return f"({_rat(a, names)} - {_rat(b, names)})"
    raise TranslateError(f"unsupported arithmetic expression: {ast.unparse(node)[:80]}")


# ------------------------------------------------------------------------------------------------------------------
# laplacian_op.py: laplacian
# ------------------------------------------------------------------------------------------------------------------
def _compile_laplacian():
    tree, _ = T.load(LAP)
    fn = T.find_def(tree, "laplacian")
    params = [a.arg for a in fn.args.args]
    if params[:2] != ["mesh", "cotan"] or "connection" not in params:
        raise TranslateError(f"laplacian: parameters {params}")
    body = _strip(fn.body)
    # n_coeffs = 12*len(mesh.faces)
    ncoef = None
    cot_guard = None
    loop = None
    for st in body:
        if isinstance(st, ast.Assign) and isinstance(st.targets[0], ast.Name) and st.targets[0].id == "n_coeffs":
            v = st.value
            ok = isinstance(v, ast.BinOp) and isinstance(v.op, ast.Mult)
            if ok:
                lit, ln = (v.left, v.right) if isinstance(v.left, ast.Constant) else (v.right, v.left)
                ok = isinstance(lit, ast.Constant) and isinstance(lit.value, int) and isinstance(ln, ast.Call) and getattr(ln.func, "id", None) == "len" \
                    and _path(ln.args[0]) == "mesh.faces"
            if not ok: raise TranslateError(f"laplacian: `{ast.unparse(st)}` is not `n_coeffs = <int>*len(mesh.faces)`")
            ncoef = lit.value
        if isinstance(st, ast.If) and isinstance(st.test, ast.Name) and st.test.id == "cotan" and loop is None:
            # if cotan: (if has_attribute("cotan"): cot = get_attribute else: cot = cotangent(mesh)) else: cot = None
            b, o = _strip(st.body), _strip(st.orelse)
            ok = len(b) == 1 and isinstance(b[0], ast.If) and len(o) == 1 and isinstance(o[0], ast.Assign) and isinstance(o[0].value, ast.Constant) and o[0].value.value is None
            if ok:
                t = b[0].test
                ok = isinstance(t, ast.Call) and _path(t.func) == "mesh.face_corners.has_attribute" and len(t.args) == 1 and isinstance(t.args[0], ast.Constant)
                ib, io = _strip(b[0].body), _strip(b[0].orelse)
                ok = ok and len(ib) == 1 and isinstance(ib[0], ast.Assign) and isinstance(ib[0].value, ast.Call) and _path(ib[0].value.func) == "mesh.face_corners.get_attribute" \
                    and ib[0].value.args[0].value == t.args[0].value \
                    and len(io) == 1 and isinstance(io[0], ast.Assign) and isinstance(io[0].value, ast.Call) and getattr(io[0].value.func, "id", None) == "cotangent"
            if not ok: raise TranslateError("laplacian: the selection of the cotangents is not `if cotan: (cached attribute | cotangent(mesh)) else: None`")
            cot_guard = ("flag", t.args[0].value)
        if isinstance(st, ast.For): loop = st
    if ncoef is None: raise TranslateError("laplacian: n_coeffs not found")
    if cot_guard is None: raise TranslateError("laplacian: the cotangent selection `if cotan:` is not the first use of the flag")
    if loop is None: raise TranslateError("laplacian: face loop not found")
    it = loop.iter
    ok = isinstance(it, ast.Call) and getattr(it.func, "id", None) == "enumerate" and len(it.args) == 1 and _path(it.args[0]) == "mesh.faces" \
        and isinstance(loop.target, ast.Tuple) and len(loop.target.elts) == 2 and isinstance(loop.target.elts[0], ast.Name) \
        and isinstance(loop.target.elts[1], ast.Tuple) and len(loop.target.elts[1].elts) == 3
    if not ok: raise TranslateError("laplacian: loop header is not `for iT, (p,q,r) in enumerate(mesh.faces)`")
    iT = loop.target.elts[0].id
    p, q, r = [e.id for e in loop.target.elts[1].elts]
    lb = _strip(loop.body)
    if len(lb) != 2 or not isinstance(lb[0], ast.If) or not isinstance(lb[1], ast.For):
        raise TranslateError("laplacian: loop body is not `if cotan: a,b,c = .. else: a,b,c = ..` followed by the inner loop")
    w = lb[0]
    if not (isinstance(w.test, ast.Name) and w.test.id == "cotan"): raise TranslateError("laplacian: weight selection is not on `cotan`")
    wb, wo = _strip(w.body), _strip(w.orelse)
    def abc(st):
        if not (isinstance(st, ast.Assign) and isinstance(st.targets[0], ast.Tuple) and len(st.targets[0].elts) == 3):
            raise TranslateError("laplacian: weights are not assigned as `a,b,c = ..`")
        return [e.id for e in st.targets[0].elts]
    if len(wb) != 1 or len(wo) != 1: raise TranslateError("laplacian: weight branches")
    names_c, names_u = abc(wb[0]), abc(wo[0])
    if names_c != names_u: raise TranslateError("laplacian: the two branches assign different names")
    a_, b_, c_ = names_c
    # cotan branch: generator over (p,q,r)
    g = wb[0].value
    ok = isinstance(g, (ast.GeneratorExp, ast.ListComp)) and len(g.generators) == 1 and isinstance(g.generators[0].iter, ast.Tuple) \
        and [getattr(e, "id", None) for e in g.generators[0].iter.elts] == [p, q, r] and isinstance(g.generators[0].target, ast.Name)
    if not ok: raise TranslateError("laplacian: cotangent weights are not `(.. for _v in (p,q,r))`")
    gv = g.generators[0].target.id
    # element: cot[mesh.connectivity.vertex_to_corner_in_face(_v,iT)] / 2
    class CotSub(ast.NodeTransformer):
        found = 0
        def visit_Subscript(self, n):
            if isinstance(n.value, ast.Name) and n.value.id == "cot" and isinstance(n.slice, ast.Call) and _path(n.slice.func) == "mesh.connectivity.vertex_to_corner_in_face" \
                    and [getattr(x, "id", None) for x in n.slice.args] == [gv, iT]:
                CotSub.found += 1
                return ast.Name("__cot", ast.Load())
            return self.generic_visit(n)
    CotSub.found = 0
    elt = CotSub().visit(g.elt)
    if CotSub.found != 1: raise TranslateError("laplacian: cotangent weight does not read `cot[vertex_to_corner_in_face(_v,iT)]` exactly once")
    cotw = _rat(elt, {"__cot": "x"})
    # uniform branch
    u = wo[0].value
    if not (isinstance(u, ast.Tuple) and len(u.elts) == 3): raise TranslateError("laplacian: uniform weights are not a 3-tuple")
    uni = [_rat(e, {}) for e in u.elts]
    # inner loop
    inner = lb[1]
    ok = isinstance(inner.target, ast.Tuple) and len(inner.target.elts) == 3 and isinstance(inner.iter, (ast.List, ast.Tuple)) and len(inner.iter.elts) == 3
    if not ok: raise TranslateError("laplacian: inner loop is not `for (i,j,v) in [.. three triples ..]`")
    i_, j_, v_ = [e.id for e in inner.target.elts]
    nm = {p: "p", q: "q", r: "r", a_: "a", b_: "b", c_: "c"}
    pairs = []
    for tr in inner.iter.elts:
        if not (isinstance(tr, ast.Tuple) and len(tr.elts) == 3 and all(isinstance(e, ast.Name) and e.id in nm for e in tr.elts)):
            raise TranslateError("laplacian: a pairing triple is not made of p,q,r / a,b,c")
        x, y, z = [nm[e.id] for e in tr.elts]
        if x not in "pqr" or y not in "pqr" or z not in "abc": raise TranslateError("laplacian: a pairing triple is not (vertex, vertex, weight)")
        pairs.append(f"({x}, {y}, {z})")
    ib = _strip(inner.body)
    def write(st, cname=None):
        """rows[_c], cols[_c], coeffs[_c], _c = R, C, VAL, _c+1  ->  (R, C, VAL)"""
        ok = isinstance(st, ast.Assign) and isinstance(st.targets[0], ast.Tuple) and len(st.targets[0].elts) == 4 and isinstance(st.value, ast.Tuple) and len(st.value.elts) == 4
        if not ok: raise TranslateError(f"laplacian: `{ast.unparse(st)[:70]}` is not a 4-way write")
        tg = st.targets[0].elts
        arrs = []
        for t in tg[:3]:
            if not (isinstance(t, ast.Subscript) and isinstance(t.value, ast.Name) and isinstance(t.slice, ast.Name)): raise TranslateError("laplacian: write target")
            arrs.append((t.value.id, t.slice.id))
        cn = arrs[0][1]
        if [x for x, _ in arrs] != ["rows", "cols", "coeffs"] or any(k != cn for _, k in arrs) or not (isinstance(tg[3], ast.Name) and tg[3].id == cn):
            raise TranslateError("laplacian: a write does not fill rows, cols, coeffs at the running index and advance it")
        inc = st.value.elts[3]
        ok = isinstance(inc, ast.BinOp) and isinstance(inc.op, ast.Add) and {ast.unparse(inc.left), ast.unparse(inc.right)} == {cn, "1"}
        if not ok: raise TranslateError("laplacian: the running index is not advanced by one")
        vals = st.value.elts[:3]
        ent = []
        for e in vals[:2]:
            if not (isinstance(e, ast.Name) and e.id in (i_, j_)): raise TranslateError("laplacian: row/column of a write is not i or j")
            ent.append("i" if e.id == i_ else "j")
        return f"({ent[0]}, {ent[1]}, {_rat(vals[2], {v_: 'v'})})"
    if len(ib) != 3 or not isinstance(ib[2], ast.If): raise TranslateError("laplacian: inner body is not two diagonal writes followed by `if connection is not None`")
    entries = [write(ib[0]), write(ib[1])]
    t = ib[2].test
    neg = None
    if isinstance(t, ast.Compare) and len(t.ops) == 1 and isinstance(t.left, ast.Name) and t.left.id == "connection" \
            and isinstance(t.comparators[0], ast.Constant) and t.comparators[0].value is None:
        neg = isinstance(t.ops[0], ast.IsNot)
    if neg is None: raise TranslateError("laplacian: the branch on `connection` is not recognised")
    plain = _strip(ib[2].orelse if neg else ib[2].body)
    if len(plain) != 2: raise TranslateError("laplacian: the branch without connection does not make two writes")
    entries += [write(plain[0]), write(plain[1])]
    return ("/-- `n_coeffs = k*len(mesh.faces)` -/\n"
            f"def lapNCoeffs (nF : Nat) : Nat := {ncoef} * nF\n\n"
            "/-- the cotangents are selected by the FLAG first (`if cotan:`), the cached attribute of that name second -/\n"
            f"def lapCotSelection : String × String := (\"{cot_guard[0]}\", \"{cot_guard[1]}\")\n\n"
            "/-- uniform weights `a,b,c = ..` -/\n"
            f"def lapUniform : Rat × Rat × Rat := ({uni[0]}, {uni[1]}, {uni[2]})\n\n"
            "/-- cotangent weights: `.. for _v in (p,q,r)` applied to `x = cot[vertex_to_corner_in_face(_v,iT)]` -/\n"
            f"def lapCotWeight (x : Rat) : Rat := {cotw}\n\n"
            "/-- `for (i,j,v) in [...]` -/\n"
            f"def lapPairs (p q r : Nat) (a b c : Rat) : List (Nat × Nat × Rat) := [{', '.join(pairs)}]\n\n"
            "/-- the COO entries written for one `(i,j,v)` when `connection is None`, in order -/\n"
            f"def lapEntries (i j : Nat) (v : Rat) : List (Nat × Nat × Rat) := [{', '.join(entries)}]\n")


# ------------------------------------------------------------------------------------------------------------------
# tutte.py: run
# ------------------------------------------------------------------------------------------------------------------
def _compile_run():
    tree, _ = T.load(TUT)
    fn = T.find_def(tree, "TutteEmbedding.run")
    body = _strip(fn.body)
    roles = {}     # python local -> role
    sel = {}
    solves = []
    store = None
    lap_call = None
    bnd_arrays = None
    for st in body:
        if isinstance(st, ast.Assign) and len(st.targets) == 1:
            tg, v = st.targets[0], st.value
            if isinstance(tg, ast.Tuple) and isinstance(v, ast.Call) and _path(v.func) == "self._initialize_boundary":
                if len(tg.elts) != 2: raise TranslateError("run: _initialize_boundary is not unpacked into two arrays")
                bnd_arrays = [e.id for e in tg.elts]
                roles[bnd_arrays[0]] = "Ubnd"; roles[bnd_arrays[1]] = "Vbnd"
                continue
            if isinstance(tg, ast.Name) and isinstance(v, ast.Call) and _path(v.func) == "operators.laplacian":
                kws = {k.arg: k.value for k in v.keywords}
                ok = len(v.args) == 1 and _path(v.args[0]) == "self.mesh" and set(kws) == {"cotan"} and _path(kws["cotan"]) == "self._use_cotan"
                if not ok: raise TranslateError("run: `operators.laplacian(self.mesh, cotan=self._use_cotan)` not recognised")
                roles[tg.id] = "lap"; lap_call = True
                continue
            if isinstance(tg, ast.Name) and _path(v) == "self.mesh.interior_vertices":
                roles[tg.id] = "free"; continue
            if isinstance(tg, ast.Name) and isinstance(v, ast.Subscript) and isinstance(v.value, ast.Subscript):
                # lap[R, :][:, C]
                o, i2 = v, v.value
                ok = isinstance(i2.value, ast.Name) and roles.get(i2.value.id) == "lap" and isinstance(i2.slice, ast.Tuple) and len(i2.slice.elts) == 2 \
                    and isinstance(i2.slice.elts[0], ast.Name) and isinstance(i2.slice.elts[1], ast.Slice) and i2.slice.elts[1].lower is None and i2.slice.elts[1].upper is None \
                    and isinstance(o.slice, ast.Tuple) and len(o.slice.elts) == 2 and isinstance(o.slice.elts[0], ast.Slice) and o.slice.elts[0].lower is None \
                    and o.slice.elts[0].upper is None and isinstance(o.slice.elts[1], ast.Name)
                if not ok: raise TranslateError(f"run: `{ast.unparse(st)[:70]}` is not `lap[rows, :][:, cols]`")
                rr, cc = roles.get(i2.slice.elts[0].id), roles.get(o.slice.elts[1].id)
                if rr not in ("free", "bnd") or cc not in ("free", "bnd"): raise TranslateError("run: selector of the sub-matrix is not freeInds / bndInds")
                roles[tg.id] = f"M:{rr}:{cc}"; sel[tg.id] = (rr, cc)
                continue
            if isinstance(tg, ast.Name) and isinstance(v, ast.Call) and _path(v.func) in ("linalg.spsolve", "spsolve"):
                if len(v.args) != 2 or v.keywords: raise TranslateError("run: spsolve arguments")
                A, rhs = v.args
                if not (isinstance(A, ast.Name) and A.id in sel): raise TranslateError("run: matrix of the solve")
                ok = isinstance(rhs, ast.UnaryOp) and isinstance(rhs.op, ast.USub) and isinstance(rhs.operand, ast.Call) and isinstance(rhs.operand.func, ast.Attribute) \
                    and rhs.operand.func.attr == "dot" and isinstance(rhs.operand.func.value, ast.Name) and rhs.operand.func.value.id in sel \
                    and len(rhs.operand.args) == 1 and isinstance(rhs.operand.args[0], ast.Name)
                if not ok: raise TranslateError(f"run: right-hand side `{ast.unparse(rhs)[:60]}` is not `-LB.dot(Xbnd)`")
                B = rhs.operand.func.value.id; xb = roles.get(rhs.operand.args[0].id)
                if xb not in ("Ubnd", "Vbnd"): raise TranslateError("run: the right-hand side does not use a boundary array")
                solves.append((tg.id, sel[A.id], sel[B], xb))
                continue
        if isinstance(st, ast.If) and isinstance(st.test, ast.Compare) and _path(st.test.left) == "euler_characteristic" or \
                (isinstance(st, ast.If) and isinstance(st.test, ast.Compare) and isinstance(st.test.left, ast.Call) and getattr(st.test.left.func, "id", None) == "euler_characteristic"):
            continue      # the gate: site of round 3
        if isinstance(st, ast.If) and _path(getattr(st.test, "left", None)) == "self._bnd_mode":
            # bndInds (site of round 3 checks the sources); here: which local
            for br in (st.body, st.orelse):
                for s2 in _strip(br):
                    if isinstance(s2, ast.Assign):
                        t2 = s2.targets[0]
                        nm = t2.id if isinstance(t2, ast.Name) else (t2.elts[0].id if isinstance(t2, ast.Tuple) and isinstance(t2.elts[0], ast.Name) else None)
                        if nm is None: raise TranslateError("run: bndInds assignment")
                        roles[nm] = "bnd"
            continue
        if isinstance(st, ast.If) and _path(st.test) == "self.save_on_corners":
            store = st; continue
        raise TranslateError(f"run: unsupported statement `{ast.unparse(st)[:70]}`")
    if not lap_call or bnd_arrays is None or store is None: raise TranslateError("run: laplacian call / boundary arrays / storage branch missing")
    if len(solves) != 2: raise TranslateError(f"run: expected two solves, found {len(solves)}")
    for k, (name, A, B, xb) in enumerate(solves):
        roles[name] = "U" if k == 0 else "V"
    # storage loops
    def loops(br, corner):
        br = _strip(br)
        if len(br) != 3: raise TranslateError("run: a storage branch is not `create_attribute` followed by two loops")
        ca = br[0]
        ok = isinstance(ca, ast.Assign) and _path(ca.targets[0]) == "self.uvs" and isinstance(ca.value, ast.Call) \
            and _path(ca.value.func) == ("self.mesh.face_corners.create_attribute" if corner else "self.mesh.vertices.create_attribute")
        if not ok: raise TranslateError("run: the storage attribute is not created on " + ("face_corners" if corner else "vertices"))
        out = []
        for lp in br[1:]:
            ok = isinstance(lp, ast.For) and isinstance(lp.iter, ast.Call) and getattr(lp.iter.func, "id", None) == "enumerate" and len(lp.iter.args) == 1 \
                and isinstance(lp.iter.args[0], ast.Name) and isinstance(lp.target, ast.Tuple) and len(lp.target.elts) == 2
            if not ok: raise TranslateError("run: storage loop header is not `for i,v in enumerate(<inds>)`")
            src = roles.get(lp.iter.args[0].id)
            if src not in ("free", "bnd"): raise TranslateError("run: storage loop does not run over freeInds / bndInds")
            ix, vx = lp.target.elts[0].id, lp.target.elts[1].id
            b = _strip(lp.body)
            if corner:
                ok = len(b) == 1 and isinstance(b[0], ast.For) and isinstance(b[0].iter, ast.Call) and _path(b[0].iter.func) == "self.mesh.connectivity.vertex_to_corners" \
                    and [getattr(a, "id", None) for a in b[0].iter.args] == [vx] and isinstance(b[0].target, ast.Name)
                if not ok: raise TranslateError("run: per-corner storage does not loop over vertex_to_corners(v)")
                slot = b[0].target.id; b = _strip(b[0].body)
            else:
                slot = vx
            ok = len(b) == 1 and isinstance(b[0], ast.Assign) and isinstance(b[0].targets[0], ast.Subscript) and _path(b[0].targets[0].value) == "self.uvs" \
                and isinstance(b[0].targets[0].slice, ast.Name) and b[0].targets[0].slice.id == slot and isinstance(b[0].value, ast.Call) \
                and getattr(b[0].value.func, "id", None) == "Vec" and len(b[0].value.args) == 2
            if not ok: raise TranslateError("run: storage write is not `self.uvs[slot] = Vec(X[i], Y[i])`")
            arrs = []
            for a in b[0].value.args:
                if not (isinstance(a, ast.Subscript) and isinstance(a.value, ast.Name) and isinstance(a.slice, ast.Name) and a.slice.id == ix):
                    raise TranslateError("run: stored value is not indexed by the enumerate index")
                arrs.append(roles.get(a.value.id))
            if arrs == ["U", "V"]: kind = "Src.free"
            elif arrs == ["Ubnd", "Vbnd"]: kind = "Src.bnd"
            else: raise TranslateError(f"run: stored arrays {arrs} are not (U,V) or (Ubnd,Vbnd)")
            out.append(f"({src}.zipIdx.map (fun p => (p.1, {kind} p.2)))")
        return " ++ ".join(out)
    sc, sv = loops(store.body, True), loops(store.orelse, False)
    def mat(rc): return f"{rc[0]}.map (fun r => {rc[1]}.map (fun c => L r c))"
    (nU, AU, BU, xU), (nV_, AV, BV, xV) = solves
    if AU != AV or BU != BV: raise TranslateError("run: the two solves do not use the same matrices")
    return ("/-- matrix of both solves: `lap[rows, :][:, cols]` -/\n"
            f"def sysA (L : Nat → Nat → Rat) (free bnd : List Nat) : List (List Rat) := {mat(AU)}\n\n"
            "/-- matrix applied to the boundary arrays in the right-hand sides -/\n"
            f"def sysB (L : Nat → Nat → Rat) (free bnd : List Nat) : List (List Rat) := {mat(BU)}\n\n"
            "/-- right-hand side `-B.dot(X)` -/\n"
            "def sysRhs (B : List (List Rat)) (x : List Rat) : List Rat := B.map (fun row => -(dotL row x))\n\n"
            "/-- boundary array used by the first solve (-> U) and by the second (-> V) -/\n"
            f"def sysBoundaryOf : String × String := (\"{xU}\", \"{xV}\")\n\n"
            "/-- `freeInds` -/\ndef sysFreeSource : String := \"interior_vertices\"\n\n"
            "/-- per-vertex storage: the writes `(vertex, source)` in the order of the code -/\n"
            f"def storeVertex (free bnd : List Nat) : List (Nat × Src) :=\n  {sv}\n\n"
            "/-- per-corner storage: the same writes, each applied to every corner of the vertex (`vertex_to_corners`) -/\n"
            f"def storeCorner (free bnd : List Nat) : List (Nat × Src) :=\n  {sc}\n")


# ------------------------------------------------------------------------------------------------------------------
# tutte.py: BoundaryMode / from_string ; base.py: flat_mesh
# ------------------------------------------------------------------------------------------------------------------
def _compile_from_string():
    tree, _ = T.load(TUT)
    cls = T.find_def(tree, "TutteEmbedding.BoundaryMode")
    vals = {}
    for st in cls.body:
        if isinstance(st, ast.Assign) and isinstance(st.targets[0], ast.Name) and isinstance(st.value, ast.Constant) and isinstance(st.value.value, int):
            vals[st.targets[0].id] = st.value.value
    fn = T.find_def(tree, "TutteEmbedding.BoundaryMode.from_string")
    arg = fn.args.args[0].arg
    rows = []
    body = _strip(fn.body)
    for st in body[:-1]:
        ok = isinstance(st, ast.If) and not st.orelse and isinstance(st.test, ast.Compare) and len(st.test.ops) == 1 and isinstance(st.test.ops[0], ast.In) \
            and isinstance(st.test.left, ast.Constant) and isinstance(st.test.left.value, str) and ast.unparse(st.test.comparators[0]) == f"{arg}.lower()" \
            and len(_strip(st.body)) == 1 and isinstance(_strip(st.body)[0], ast.Return)
        if not ok: raise TranslateError(f"from_string: `{ast.unparse(st)[:60]}` is not `if \"<name>\" in s.lower(): return <mode>`")
        p = _path(_strip(st.body)[0].value)
        if p is None or p.split(".")[-1] not in vals: raise TranslateError("from_string: returned mode")
        rows.append((st.test.left.value, vals[p.split(".")[-1]]))
    if not isinstance(body[-1], ast.Raise): raise TranslateError("from_string: does not end with `raise`")
    modes = ", ".join(f'("{k}", {v})' for k, v in sorted(vals.items(), key=lambda kv: kv[1]))
    return ("/-- `class BoundaryMode(Enum)` -/\n"
            f"def boundaryModes : List (String × Nat) := [{modes}]\n\n"
            "/-- `from_string`: the tests `\"<substring>\" in s.lower()` in order, with the value of the mode returned; then `raise` -/\n"
            f"def fromStringTable : List (String × Nat) := [{', '.join(f'(\"{k}\", {v})' for k, v in rows)}]\n")


def _compile_flat_mesh():
    tree, _ = T.load(BASE)
    fn = T.find_def(tree, "BaseParametrization.flat_mesh")
    idx = []
    for n in ast.walk(fn):
        if isinstance(n, ast.If) and _path(n.test) == "self.save_on_corners":
            for br, kind in ((n.body, "corner"), (n.orelse, "vertex")):
                b = _strip(br)
                ok = len(b) == 1 and isinstance(b[0], ast.Assign) and isinstance(b[0].value, ast.Call) and getattr(b[0].value.func, "id", None) == "Vec" \
                    and len(b[0].value.args) == 3
                if not ok: raise TranslateError("flat_mesh: branch is not `self._flat_mesh.vertices[v] = Vec(.., .., 0.)`")
                xs = b[0].value.args
                keys = []
                for k, a in enumerate(xs[:2]):
                    ok = isinstance(a, ast.Subscript) and isinstance(a.slice, ast.Constant) and a.slice.value == k and isinstance(a.value, ast.Subscript) \
                        and _path(a.value.value) == "self.uvs"
                    if not ok: raise TranslateError("flat_mesh: coordinates are not `self.uvs[key][0], self.uvs[key][1]`")
                    keys.append(a.value.slice)
                if ast.unparse(keys[0]) != ast.unparse(keys[1]): raise TranslateError("flat_mesh: x and y are read at different keys")
                if not (isinstance(xs[2], ast.Constant) and xs[2].value == 0): raise TranslateError("flat_mesh: z is not 0")
                idx.append((kind, keys[0]))
    if len(idx) != 2: raise TranslateError("flat_mesh: the `if self.save_on_corners` branch was not found")
    loops = [n for n in ast.walk(fn) if isinstance(n, ast.For)]
    if len(loops) != 2: raise TranslateError("flat_mesh: expected two nested loops")
    Tn = loops[0].target.id if isinstance(loops[0].target, ast.Name) else None
    it = loops[1].target
    if Tn is None or not (isinstance(it, ast.Tuple) and len(it.elts) == 2): raise TranslateError("flat_mesh: loop targets")
    i_, v_ = it.elts[0].id, it.elts[1].id
    ck = T.lean_int_expr(dict(idx)["corner"], {Tn: "t", i_: "i"})
    vk = T.lean_int_expr(dict(idx)["vertex"], {v_: "v"})
    return ("/-- `flat_mesh`, per-corner storage: key of `self.uvs` read for corner `i` of face `t` -/\n"
            f"def flatCornerKey (t i : Nat) : Nat := {ck}\n\n"
            "/-- … per-vertex storage: key read for vertex `v` -/\n"
            f"def flatVertexKey (v : Nat) : Nat := {vk}\n")


def _compile_inits():
    """TutteEmbedding.__init__ (accepted mode strings, the custom boundary overrides the mode, where use_cotan comes from) and
    BaseParametrization.__init__ (keyword names and defaults)"""
    tree, _ = T.load(TUT)
    fn = T.find_def(tree, "TutteEmbedding.__init__")
    params = [a.arg for a in fn.args.args]
    if params[:3] != ["self", "mesh", "boundary_mode"] or "use_cotan" not in params: raise TranslateError(f"TutteEmbedding.__init__: parameters {params}")
    enum = {}
    for st in T.find_def(tree, "TutteEmbedding.BoundaryMode").body:
        if isinstance(st, ast.Assign) and isinstance(st.targets[0], ast.Name) and isinstance(st.value, ast.Constant): enum[st.targets[0].id] = st.value.value
    allowed = ckey = cdef = cot = mode = None
    for st in _strip(fn.body):
        if isinstance(st, ast.Expr) and isinstance(st.value, ast.Call):
            f = st.value.func
            if getattr(f, "id", None) == "check_argument":
                a = st.value.args
                ok = len(a) == 4 and isinstance(a[1], ast.Name) and a[1].id == "boundary_mode" and isinstance(a[3], (ast.List, ast.Tuple)) \
                    and all(isinstance(e, ast.Constant) and isinstance(e.value, str) for e in a[3].elts)
                if not ok: raise TranslateError("TutteEmbedding.__init__: check_argument on boundary_mode not recognised")
                allowed = [e.value for e in a[3].elts]; continue
            if isinstance(f, ast.Attribute) and f.attr == "__init__": continue       # super().__init__(...)
            raise TranslateError(f"TutteEmbedding.__init__: unsupported call `{ast.unparse(st)[:60]}`")
        if isinstance(st, ast.Assign) and _path(st.targets[0]) == "self._custom_bnd":
            v = st.value
            ok = isinstance(v, ast.Call) and _path(v.func) == "kwargs.get" and len(v.args) == 2 and isinstance(v.args[0], ast.Constant) \
                and isinstance(v.args[1], ast.Constant) and v.args[1].value is None
            if not ok: raise TranslateError("TutteEmbedding.__init__: `_custom_bnd = kwargs.get(<key>, None)` not recognised")
            ckey = v.args[0].value; continue
        if isinstance(st, ast.Assign) and _path(st.targets[0]) == "self._use_cotan":
            if not (isinstance(st.value, ast.Name) and st.value.id in params): raise TranslateError("TutteEmbedding.__init__: _use_cotan is not a parameter")
            cot = st.value.id; continue
        if isinstance(st, ast.If):
            t = st.test
            ok = isinstance(t, ast.Compare) and len(t.ops) == 1 and _path(t.left) == "self._custom_bnd" and isinstance(t.comparators[0], ast.Constant) \
                and t.comparators[0].value is None and isinstance(t.ops[0], (ast.Is, ast.IsNot))
            if not ok: raise TranslateError(f"TutteEmbedding.__init__: condition `{ast.unparse(t)}` is not `self._custom_bnd is None`")
            none_br, some_br = (st.body, st.orelse) if isinstance(t.ops[0], ast.Is) else (st.orelse, st.body)
            def val(br):
                br = _strip(br)
                if len(br) != 1 or not (isinstance(br[0], ast.Assign) and _path(br[0].targets[0]) == "self._bnd_mode"): raise TranslateError("TutteEmbedding.__init__: branch does not assign _bnd_mode")
                v = br[0].value
                if isinstance(v, ast.Call) and (_path(v.func) or "").endswith("from_string") and len(v.args) == 1 and isinstance(v.args[0], ast.Name) and v.args[0].id == "boundary_mode":
                    return "fromString"
                pth = _path(v)
                if pth and pth.split(".")[-1] in enum: return str(enum[pth.split(".")[-1]])
                raise TranslateError(f"TutteEmbedding.__init__: mode `{ast.unparse(v)[:50]}`")
            mode = (val(none_br), val(some_br)); continue
        raise TranslateError(f"TutteEmbedding.__init__: unsupported statement `{ast.unparse(st)[:60]}`")
    if None in (allowed, ckey, cot, mode): raise TranslateError("TutteEmbedding.__init__: a recognised part is missing")
    btree, _ = T.load(BASE)
    bfn = T.find_def(btree, "BaseParametrization.__init__")
    kw = {}
    for st in _strip(bfn.body):
        if isinstance(st, ast.Assign) and isinstance(st.value, ast.Call) and _path(st.value.func) == "kwargs.get" and len(st.value.args) == 2 \
                and isinstance(st.value.args[0], ast.Constant) and isinstance(st.value.args[1], ast.Constant):
            kw[_path(st.targets[0])] = (st.value.args[0].value, st.value.args[1].value)
    if "self.save_on_corners" not in kw or not isinstance(kw["self.save_on_corners"][1], bool):
        raise TranslateError("BaseParametrization.__init__: `save_on_corners = kwargs.get(<key>, <bool>)` not recognised")
    soc = kw["self.save_on_corners"]
    return ("/-- `check_argument(\"boundary_mode\", ..)`: the accepted strings -/\n"
            f"def initAllowedModes : List String := [{', '.join(chr(34) + a + chr(34) for a in allowed)}]\n\n"
            "/-- `_bnd_mode`: from the string when no custom boundary is given, otherwise the enum value assigned -/\n"
            f"def initMode (hasCustom : Bool) (fromString : Nat) : Nat := if !hasCustom then {mode[0]} else {mode[1]}\n\n"
            "/-- keyword carrying the custom boundary; parameter stored in `_use_cotan` -/\n"
            f"def initKeys : String × String := (\"{ckey}\", \"{cot}\")\n\n"
            "/-- `BaseParametrization.__init__`: keyword and default of `save_on_corners` -/\n"
            f"def baseSaveOnCorners : String × Bool := (\"{soc[0]}\", {'true' if soc[1] else 'false'})\n")


HEADER = "import Mouette.Model.TutteSource\nnamespace Mouette.Generated.C17S\nopen Mouette.Tutte\n\n"


def sites():
    recs, parts, ok = [], [], True
    for name, fn in (("laplacian_op.py: laplacian (weights, pairing, COO writes, n_coeffs, cotangent selection)", _compile_laplacian),
                     ("tutte.py: TutteEmbedding.run (sub-matrices, right-hand sides, solves, storage loops)", _compile_run),
                     ("tutte.py: TutteEmbedding.BoundaryMode.from_string (ordered table, enum values)", _compile_from_string),
                     ("base.py: BaseParametrization.flat_mesh (keys read per corner / per vertex)", _compile_flat_mesh),
                     ("tutte.py: TutteEmbedding.__init__ + base.py: BaseParametrization.__init__ (mode selection, keywords, defaults)", _compile_inits)):
        box = {}
        def run(fn=fn, box=box):
            box["t"] = fn(); return "ok"
        r = T.site(name, run)
        ok = ok and r["ok"]
        recs.append(r)
        parts.append(box.get("t", ""))
    if ok:
        _, sha = T.write_generated("C17Sys", "\n".join(parts) + "\nend Mouette.Generated.C17S\n", header=HEADER)
        for r in recs: r["detail"] = sha
    else:
        # never leave the definitions of an EARLIER tree on disk: a stub without definitions makes every bridge fail to build
        bad = "; ".join(r["site"].split(" (")[0] for r in recs if not r["ok"])
        T.write_generated("C17Sys", f"/- translation of the current tree FAILED ({bad}): no definitions are emitted, the bridges cannot build -/\n"
                          "end Mouette.Generated.C17S\n", header=HEADER)
    return recs
