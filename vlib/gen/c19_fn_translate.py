"""C19 round 4 — WHOLE-FUNCTION translation of mouette/sampling.py (+ the AABB accessors it calls): Python `ast` -> Lean
(lean/Mouette/Generated/C19Fn{Sphere,Ball,Box,Poly,Surf}.lean), re-extracted from $MOUETTE_REPO on every run.

Every sampler body is read IMPERATIVELY, statement by statement, into ONE Lean definition over the vocabulary of
Model/SamplingSource.lean (the meaning of each recognised numpy / container operation is documented there):

  x = e / x op= e            `let x := ..` (re-assignment shadows; `x op= e` is `x = x op e`)
  if c: A [else: B]; REST    `if c then <A;REST> else <B;REST>`  (the continuation is duplicated; a test on a Boolean
                             parameter already decided on the path is resolved, so `if return_normals:` blocks nest)
  raise E(..) / return e     end of a path: `.raised "E"` / `.ok <value>` (array, (array, normals), PointCloud, from_arrays)
  assert c                   `if c then REST else .raised "AssertionError"`
  check_argument(n,v,str,L)  `if !(L.contains v) then .raised "InvalidArgumentValueError" else REST`
  for i,x in enumerate(xs)   `xs.zipIdx.foldl (fun buf ix => ..lets..; buf) buf` — the state is the ONE buffer the body stores into
  buf[i,:] = e               `setRow buf i e`  (i must be the loop counter)
  a,b = (mesh.vertices[_v] for _v in mesh.edges[e])      `corner V (E.getD e []) k`
  PointCloud() / .vertices += list(a) / create_attribute("normals",float,3,dense=True)._data = n / return pointcloud
  numpy expressions are TYPED (scalar, row (d,), arr (n,d), col (n,1), vec (n,), nat, bool, str) and each operator is mapped to
  the broadcasting primitive of that type pair; an ill-typed pair raises TranslateError.
  random draws are injected functions in source order: `g i` (3 normal draws of point i), `u i`, `x i k`, `rnd i`, `rnd2 i`
  (draws of loop iteration i), `choice n size p`; irrational functions `nrm`, `cbrt`, `sqrt`, `root` are injected too.

Tolerated respellings (normalised away, the generated text does not change): renamed locals are alpha-renamed by Lean;
commuted operands of `*` / `+` between different kinds (`pts*radius`, `center + ..`), `a > b` = `b < a`, `a >= b` = `b <= a`,
commuted `==`, `x /= s` vs `x = x / s`, `np.sum(x)` vs `x.sum()`, `random()` vs `np.random.random()`, `buf[i]`/`buf[i,:]`,
docstrings / pass / type annotations / logging calls.  Anything else raises TranslateError -> broken obligation.
"""
import ast
import copy
from fractions import Fraction

from .. import translate as T
from ..translate import TranslateError

NS_OPEN = ("import Mouette.Model.SamplingSource\n{imports}namespace Mouette.Generated.C19Fn\n"
           "open Mouette.Sampling Mouette.SamplingWrap Mouette.SamplingSrc\n\n")
NS_END = "\nend Mouette.Generated.C19Fn\n"
SAMPLING = "mouette/sampling.py"
AABB = "mouette/geometry/aabb.py"

_LEAN_KW = {"end", "from", "fun", "let", "in", "do", "at", "show", "have", "then", "else", "if", "open", "def", "theorem", "match", "with",
            "local", "set", "by", "where", "structure", "class", "instance", "mut", "return", "for", "nrm", "g", "u", "x", "rnd", "rnd2",
            "choice", "cbrt", "sqrt", "root", "lens", "areas", "normals", "dflt", "V", "E", "F", "p1", "p2", "isTri"}


class Unbound(TranslateError):
    """a local name read on a path where no assignment reaches it (Python: UnboundLocalError)"""


def _chain(node):
    parts = []
    while isinstance(node, ast.Attribute):
        parts.append(node.attr); node = node.value
    if isinstance(node, ast.Name): parts.append(node.id)
    else: return None
    return parts[::-1]


def _is(node, chain):
    return _chain(node) == chain


def _lit(node):
    if isinstance(node, ast.Constant) and isinstance(node.value, (int, float)) and not isinstance(node.value, bool):
        return Fraction(node.value)
    if isinstance(node, ast.UnaryOp) and isinstance(node.op, ast.USub):
        v = _lit(node.operand)
        return None if v is None else -v
    return None


def _rat(f):
    return f"({f.numerator} : Rat)" if f.denominator == 1 else f"(({f.numerator} : Rat) / {f.denominator})"


def _strip(stmts):
    out = []
    for s in stmts:
        if isinstance(s, ast.Pass): continue
        if isinstance(s, ast.Expr) and isinstance(s.value, ast.Constant): continue          # docstring
        if isinstance(s, ast.Expr) and isinstance(s.value, ast.Call):
            c = _chain(s.value.func)
            if c and (c[0] in ("logging", "logger", "log", "warnings") or c == ["print"]): continue
        out.append(s)
    return out


class Ctx:
    """per-function translation context"""
    def __init__(self, name, params, oracles, mesh=None, ntype="Unit"):
        self.name, self.params, self.oracles, self.mesh, self.ntype = name, params, oracles, mesh, ntype
        self.used = set()
        self.counter = None          # Lean name of the current loop counter
        self.buffer = None           # python name of the buffer the current loop stores into
        self.handles = {}            # attribute handle name -> point cloud name

    def lname(self, py):
        return py + "_" if py in _LEAN_KW else py

    def use(self, o):
        if o not in self.oracles: raise TranslateError(f"{self.name}: the source uses `{o}` which this sampler is not expected to need")
        self.used.add(o); return o


# ------------------------------------------------------------------------------------------------------------------
# expressions
# ------------------------------------------------------------------------------------------------------------------
def _coerce(v, want):
    lean, ty = v
    if ty == "lit":
        f = Fraction(lean)
        if want == "nat":
            if f.denominator != 1 or f < 0: raise TranslateError(f"literal {lean} used as a natural number")
            return str(f.numerator)
        return _rat(f)
    return lean


def ev(cx, node, env, known):
    """-> (lean text, type)"""
    f = _lit(node)
    if f is not None: return (str(f), "lit")
    if isinstance(node, ast.Constant) and isinstance(node.value, str):
        return (f'"{node.value}"', "str")
    if isinstance(node, ast.Constant) and isinstance(node.value, bool):
        return ("true" if node.value else "false", "bool")
    if isinstance(node, ast.Name):
        if node.id in env: return (cx.lname(node.id), env[node.id])
        raise Unbound(f"{cx.name}: name `{node.id}` is not bound on this path")
    if isinstance(node, ast.Attribute):
        ch = _chain(node)
        if ch and len(ch) == 2 and env.get(ch[0]) == "box" and ch[1] in ("mini", "maxi", "span", "dim", "center"):
            return (f"(AABB_{ch[1]} p1 p2)", "nat" if ch[1] == "dim" else "row")
        if ch and len(ch) == 2 and ch[0] == "self" and "self" in env and ch[1] in ("_p1", "_p2"):
            return ("p1" if ch[1] == "_p1" else "p2", "row")
        if ch and len(ch) == 2 and ch[0] == "self" and "self" in env and ch[1] in ("mini", "maxi", "span", "dim", "center"):
            return (f"(AABB_{ch[1]} p1 p2)", "nat" if ch[1] == "dim" else "row")
        if node.attr == "size":
            a, t = ev(cx, node.value, env, known)
            if t == "row": return (f"{a}.length", "nat")
        raise TranslateError(f"{cx.name}: unsupported attribute {ast.unparse(node)}")
    if isinstance(node, ast.UnaryOp) and isinstance(node.op, ast.Not):
        a, t = ev(cx, node.operand, env, known)
        if t != "bool": raise TranslateError("`not` on a non-Boolean")
        return (f"(!{a})", "bool")
    if isinstance(node, ast.BoolOp):
        parts = [ev(cx, v, env, known) for v in node.values]
        if any(t != "bool" for _, t in parts): raise TranslateError(f"Boolean operator on non-Booleans: {ast.unparse(node)}")
        return ("(" + (" && " if isinstance(node.op, ast.And) else " || ").join(a for a, _ in parts) + ")", "bool")
    if isinstance(node, ast.Compare):
        return _compare(cx, node, env, known)
    if isinstance(node, ast.BinOp):
        return _binop(cx, node, env, known)
    if isinstance(node, ast.Call):
        return _call(cx, node, env, known)
    if isinstance(node, ast.GeneratorExp):
        # (np.linspace(0,1,res) for _ in range(box.dim))
        if len(node.generators) == 1 and not node.generators[0].ifs:
            g = node.generators[0]
            e = node.elt
            if isinstance(e, ast.Call) and _is(e.func, ["np", "linspace"]) and len(e.args) == 3 and not e.keywords \
                    and _lit(e.args[0]) == 0 and _lit(e.args[1]) == 1 \
                    and isinstance(g.iter, ast.Call) and isinstance(g.iter.func, ast.Name) and g.iter.func.id == "range" and len(g.iter.args) == 1:
                r, rt = ev(cx, e.args[2], env, known)
                d, dt = ev(cx, g.iter.args[0], env, known)
                if rt == "nat" and dt == "nat":
                    return (f"(List.replicate {d} (linspaceV {r}))", "axes")
        raise TranslateError(f"{cx.name}: unsupported generator {ast.unparse(node)}")
    if isinstance(node, ast.BinOp) or isinstance(node, ast.List):
        pass
    if isinstance(node, ast.List):
        raise TranslateError(f"{cx.name}: unsupported list {ast.unparse(node)}")
    raise TranslateError(f"{cx.name}: unsupported expression {ast.unparse(node)[:120]}")


def _compare(cx, node, env, known):
    terms = [node.left] + list(node.comparators)
    parts = []
    for a, o, b in zip(terms, node.ops, terms[1:]):
        (la, ta), (lb, tb) = ev(cx, a, env, known), ev(cx, b, env, known)
        if isinstance(o, (ast.Gt, ast.GtE)):       # a > b  ==  b < a
            (la, ta), (lb, tb) = (lb, tb), (la, ta)
            o = ast.Lt() if isinstance(o, ast.Gt) else ast.LtE()
        if isinstance(o, (ast.Eq, ast.NotEq)) and ta in ("lit", "str") and tb not in ("lit", "str") or \
                (isinstance(o, (ast.Eq, ast.NotEq)) and ta == tb and ta not in ("lit", "str") and la > lb):
            (la, ta), (lb, tb) = (lb, tb), (la, ta)     # commuted == : variable first / text order
        if "str" in (ta, tb):
            if not (ta == tb == "str") or not isinstance(o, (ast.Eq, ast.NotEq)): raise TranslateError(f"string comparison {ast.unparse(node)}")
            parts.append(f"({la} == {lb})" if isinstance(o, ast.Eq) else f"({la} != {lb})"); continue
        if "row" in (ta, tb):
            if ta == tb == "row" and isinstance(o, ast.LtE):      # a <= b elementwise, spelled through vge (b >= a)
                parts.append(("VEC", f"(vge {lb} {la})")); continue
            raise TranslateError(f"unsupported elementwise comparison {ast.unparse(node)}")
        want = "nat" if "nat" in (ta, tb) else "scalar"
        if {ta, tb} - {"nat", "scalar", "lit"}: raise TranslateError(f"comparison between {ta} and {tb}: {ast.unparse(node)}")
        if want == "nat" and "scalar" in (ta, tb): raise TranslateError(f"comparison between a count and a real: {ast.unparse(node)}")
        sym = {ast.Lt: "<", ast.LtE: "≤", ast.Eq: "=", ast.NotEq: "≠"}.get(type(o))
        if sym is None: raise TranslateError(f"unsupported comparison {ast.unparse(node)}")
        parts.append(f"decide ({_coerce((la, ta), want)} {sym} {_coerce((lb, tb), want)})")
    if len(parts) == 1 and isinstance(parts[0], tuple):
        return (parts[0][1], "boolvec")
    if any(isinstance(p, tuple) for p in parts): raise TranslateError("chained elementwise comparison")
    return (parts[0] if len(parts) == 1 else "(" + " && ".join(parts) + ")", "bool")


_NUMERIC = ("scalar", "lit")


def _binop(cx, node, env, known):
    op = type(node.op)
    # special forms first
    if op is ast.Mult and isinstance(node.left, ast.List) and len(node.left.elts) == 1 and _lit(node.left.elts[0]) == 0:
        n, t = ev(cx, node.right, env, known)                        # [0]*n_pts
        if t == "nat": return (f"(List.replicate {n} 0)", "natlist")
    if op is ast.Div:                                                # x / np.sum(x)  |  x / x.sum()
        s = node.right
        arg = None
        if isinstance(s, ast.Call) and _is(s.func, ["np", "sum"]) and len(s.args) == 1 and not s.keywords: arg = s.args[0]
        elif isinstance(s, ast.Call) and isinstance(s.func, ast.Attribute) and s.func.attr == "sum" and not s.args and not s.keywords: arg = s.func.value
        if arg is not None:
            (a, ta), (b, tb) = ev(cx, node.left, env, known), ev(cx, arg, env, known)
            if ta == "vec" and tb == "vec" and a == b: return (f"(normalise {a})", "vec")
            raise TranslateError(f"{cx.name}: division by a sum that is not the sum of the divided vector: {ast.unparse(node)}")
    (a, ta), (b, tb) = ev(cx, node.left, env, known), ev(cx, node.right, env, known)
    sc = lambda v: _coerce(v, "scalar")
    if ta in _NUMERIC and tb in _NUMERIC:
        if ta == tb == "lit":
            fa, fb = Fraction(a), Fraction(b)
            if op is ast.Add: return (str(fa + fb), "lit")
            if op is ast.Sub: return (str(fa - fb), "lit")
            if op is ast.Mult: return (str(fa * fb), "lit")
            if op is ast.Div and fb != 0: return (str(fa / fb), "lit")
        sym = {ast.Add: "+", ast.Sub: "-", ast.Mult: "*", ast.Div: "/"}.get(op)
        if sym:
            x, y = sc((a, ta)), sc((b, tb))
            if op in (ast.Add, ast.Mult) and y < x: x, y = y, x          # commutative: canonical operand order
            return (f"({x} {sym} {y})", "scalar")
    if ta == tb == "nat":
        sym = {ast.Add: "+", ast.Sub: "-", ast.Mult: "*"}.get(op)
        if sym: return (f"({a} {sym} {b})", "nat")
    if "nat" in (ta, tb) and "lit" in (ta, tb):
        sym = {ast.Add: "+", ast.Sub: "-", ast.Mult: "*"}.get(op)
        if sym: return (f"({_coerce((a, ta), 'nat')} {sym} {_coerce((b, tb), 'nat')})", "nat")
    pair = (ta if ta != "lit" else "scalar", tb if tb != "lit" else "scalar")

    def either(x, y):
        """operands of kinds x,y in either order -> (x operand, y operand)"""
        if pair == (x, y): return (a, ta), (b, tb)
        if pair == (y, x): return (b, tb), (a, ta)
        return None
    if op is ast.Mult:
        for kinds, fn, rt in ((("scalar", "arr"), "scale", "arr"), (("scalar", "col"), "colScale", "col"), (("scalar", "row"), "smul", "row")):
            e = either(*kinds)
            if e: return (f"({fn} {sc(e[0])} {e[1][0]})", rt)
        for kinds, fn, rt in ((("arr", "col"), "mulCol", "arr"), (("arr", "row"), "mulRow", "arr")):
            e = either(*kinds)
            if e: return (f"({fn} {e[0][0]} {e[1][0]})", rt)
    if op is ast.Add:
        e = either("arr", "row")
        if e: return (f"(addRow {e[0][0]} {e[1][0]})", "arr")
        if pair == ("row", "row"):
            x, y = (a, b) if a <= b else (b, a)                          # commutative: canonical operand order
            return (f"(vadd {x} {y})", "row")
    if op is ast.Sub and pair == ("row", "row"): return (f"(vsub {a} {b})", "row")
    if op is ast.Div:
        if pair == ("arr", "col"): return (f"(divCol {a} {b})", "arr")
        if pair == ("row", "scalar"): return (f"(vdivS {a} {sc((b, tb))})", "row")
    raise TranslateError(f"{cx.name}: no broadcasting rule for `{ast.unparse(node)}` ({ta} {op.__name__} {tb})")


def _kw(call):
    return {k.arg: k.value for k in call.keywords}


def _normal_draw(c):
    return isinstance(c, ast.Call) and _is(c.func, ["np", "random", "normal"]) and len(c.args) == 2 and _lit(c.args[0]) == 0 \
        and _lit(c.args[1]) == 1 and list(_kw(c)) == ["size"] and isinstance(_kw(c)["size"], ast.Name) and _kw(c)["size"].id == "n_pts"


def _call(cx, node, env, known):
    fch = _chain(node.func)
    kw = _kw(node)
    A = node.args
    # .T of vstack is an Attribute, handled by the caller through _transposed
    if fch == ["np", "linalg", "norm"] and len(A) == 1:
        a, t = ev(cx, A[0], env, known)
        if t == "arr" and {k: _lit(v) if _lit(v) is not None else getattr(v, "value", None) for k, v in kw.items()} == {"axis": 1, "keepdims": True}:
            return (f"(rowNorms {cx.use('nrm')} {a})", "col")
        raise TranslateError(f"{cx.name}: np.linalg.norm is not taken per row with keepdims: {ast.unparse(node)}")
    if isinstance(node.func, ast.Attribute) and node.func.attr == "reshape" and len(A) == 1:
        inner = node.func.value
        if isinstance(inner, ast.Call) and _is(inner.func, ["np", "random", "uniform"]) and len(inner.args) == 3 and not inner.keywords:
            lo, hi = (ev(cx, z, env, known) for z in inner.args[:2])
            n, nt = ev(cx, inner.args[2], env, known)
            shp = A[0]
            if nt == "nat" and isinstance(shp, ast.Tuple) and len(shp.elts) == 2 and ast.unparse(shp.elts[0]) == ast.unparse(inner.args[2]) \
                    and _lit(shp.elts[1]) == 1:
                return (f"(uniformCol {cx.use('u')} {_coerce(lo, 'scalar')} {_coerce(hi, 'scalar')} {n})", "col")
        raise TranslateError(f"{cx.name}: unsupported reshape {ast.unparse(node)}")
    if fch == ["np", "cbrt"] and len(A) == 1 and not kw:
        a, t = ev(cx, A[0], env, known)
        if t == "col": return (f"(colMap {cx.use('cbrt')} {a})", "col")
        if t in _NUMERIC: return (f"({cx.use('cbrt')} {_coerce((a, t), 'scalar')})", "scalar")
    if fch == ["np", "sqrt"] and len(A) == 1 and not kw:
        a, t = ev(cx, A[0], env, known)
        if t in _NUMERIC: return (f"({cx.use('sqrt')} {_coerce((a, t), 'scalar')})", "scalar")
    if fch == ["random"] and len(A) == 1 and not kw and isinstance(A[0], ast.Tuple) and len(A[0].elts) == 2:
        n, nt = ev(cx, A[0].elts[0], env, known); d, dt = ev(cx, A[0].elts[1], env, known)
        if nt == dt == "nat": return (f"(randomArr {cx.use('x')} {n} {d})", "arr")
    if fch in (["random"], ["np", "random", "random"]) and not A and not kw:
        if cx.counter is None: raise TranslateError("scalar draw outside a sampling loop")
        return (f"({cx.use('rnd')} {cx.counter})", "scalar")
    if fch == ["round"] and len(A) == 1 and not kw:
        p = A[0]
        if isinstance(p, ast.Call) and _is(p.func, ["np", "power"]) and len(p.args) == 2 and isinstance(p.args[1], ast.BinOp) \
                and isinstance(p.args[1].op, ast.Div) and _lit(p.args[1].left) == 1:
            n, nt = ev(cx, p.args[0], env, known); d, dt = ev(cx, p.args[1].right, env, known)
            if nt == dt == "nat": return (f"({cx.use('root')} {n} {d})", "nat")
        raise TranslateError(f"{cx.name}: resolution is not round(np.power(<count>, 1/<dim>)): {ast.unparse(node)}")
    if fch == ["choice"] and len(A) == 1 and set(kw) == {"size", "p"}:
        n, nt = ev(cx, A[0], env, known); s, st = ev(cx, kw["size"], env, known); p, pt = ev(cx, kw["p"], env, known)
        if nt == st == "nat" and pt == "vec": return (f"({cx.use('choice')} {n} {s} {p})", "natlist")
        raise TranslateError(f"{cx.name}: choice is not choice(<count>, size=<count>, p=<vector>): {ast.unparse(node)}")
    if fch == ["len"] and len(A) == 1 and cx.mesh and ast.unparse(A[0]) == f"mesh.{cx.mesh[0]}":
        return (f"{cx.mesh[1]}.length", "nat")
    if fch == ["list"] and len(A) == 1 and not kw:
        a, t = ev(cx, A[0], env, known)
        if t == "arr": return (a, "arr")
    if fch == ["PointCloud"] and not A and not kw:
        return ("PC.new", "pc")
    if fch == ["np", "zeros"] and len(A) == 1 and isinstance(A[0], ast.Tuple) and len(A[0].elts) == 2 \
            and all(k == "dtype" and ast.unparse(v) in ("float", "np.float64", "np.double") for k, v in kw.items()):
        n, nt = ev(cx, A[0].elts[0], env, known); d = _lit(A[0].elts[1])
        if nt == "nat" and d is not None and d.denominator == 1: return (f"(zeros {n} {d.numerator})", "arr")
    if isinstance(node.func, ast.Attribute) and node.func.attr == "as_array" and not A and not kw:
        inner = node.func.value
        if isinstance(inner, ast.Call) and isinstance(inner.func, ast.Name) and inner.func.id in ("edge_length", "face_area") \
                and len(inner.args) == 1 and ast.unparse(inner.args[0]) == "mesh" and {k: ast.unparse(v) for k, v in _kw(inner).items()} == {"persistent": "False"}:
            return (cx.use("lens" if inner.func.id == "edge_length" else "areas"), "vec")
        raise TranslateError(f"{cx.name}: unsupported attribute array {ast.unparse(node)}")
    if fch == ["np", "atleast_1d"] and len(A) == 1 and not kw:
        a, t = ev(cx, A[0], env, known)
        if t == "vec": return (a, "vec")
    if fch == ["face_normals"] and len(A) == 1 and ast.unparse(A[0]) == "mesh" and {k: ast.unparse(v) for k, v in kw.items()} == {"persistent": "False"}:
        return (cx.use("normals"), "normtab")
    if fch == ["np", "array"] and len(A) == 1 and not kw and isinstance(A[0], ast.ListComp):
        lc = A[0]
        if len(lc.generators) == 1 and not lc.generators[0].ifs and isinstance(lc.generators[0].target, ast.Name):
            gt = lc.generators[0].target.id
            it, itt = ev(cx, lc.generators[0].iter, env, known)
            if itt == "natlist" and isinstance(lc.elt, ast.Subscript):
                tab, tt = ev(cx, lc.elt.value, env, known)
                idx, idt = ev(cx, lc.elt.slice, dict(env, **{gt: "nat"}), known)
                if tt == "normtab" and idt == "nat":
                    return (f"({it}.map (fun {cx.lname(gt)} => {tab}.getD {idx} {cx.use('dflt')}))", "normlist")
        raise TranslateError(f"{cx.name}: unsupported gathering {ast.unparse(node)}")
    if fch == ["np", "any"] and len(A) == 1 and not kw:
        a, t = ev(cx, A[0], env, known)
        if t == "boolvec": return (f"(anyB {a})", "bool")
    if fch and len(fch) == 2 and env.get(fch[0]) == "box" and fch[1] == "is_empty" and not A and not kw:
        return ("(AABB_is_empty p1 p2)", "bool")
    if fch == ["mesh", "is_triangular"] and cx.mesh and not A and not kw:
        return (cx.use("isTri"), "bool")
    raise TranslateError(f"{cx.name}: unsupported call {ast.unparse(node)[:140]}")


def _value(cx, node, env, known):
    """expression in statement position: also the `.T` of the vstack of three normal draws, np.vstack(..meshgrid..).T"""
    if isinstance(node, ast.Attribute) and node.attr == "T" and isinstance(node.value, ast.Call) and _is(node.value.func, ["np", "vstack"]) \
            and len(node.value.args) == 1 and not node.value.keywords:
        arg = node.value.args[0]
        if isinstance(arg, ast.List) and len(arg.elts) == 3 and all(_normal_draw(c) for c in arg.elts):
            return (f"(normalDirs {cx.use('g')} n_pts)", "arr")
        a2 = copy.deepcopy(arg)
        for n in ast.walk(a2):      # the ordering convention of meshgrid does not matter for the set of grid points
            if isinstance(n, ast.Call) and _is(n.func, ["np", "meshgrid"]): n.keywords = [k for k in n.keywords if k.arg != "indexing"]
        if isinstance(a2, ast.Call) and ast.unparse(a2.func) == "list" and len(a2.args) == 1 and isinstance(a2.args[0], ast.Call) \
                and ast.unparse(a2.args[0].func) == "map" and len(a2.args[0].args) == 2 and ast.unparse(a2.args[0].args[0]) == "np.ravel":
            mg = a2.args[0].args[1]
            if isinstance(mg, ast.Call) and _is(mg.func, ["np", "meshgrid"]) and len(mg.args) == 1 and isinstance(mg.args[0], ast.Starred) and not mg.keywords:
                ax, t = ev(cx, mg.args[0].value, env, known)
                if t == "axes": return (f"(meshgridPts {ax})", "arr")
        raise TranslateError(f"{cx.name}: unsupported stacked array {ast.unparse(node)[:140]}")
    return ev(cx, node, env, known)


# ------------------------------------------------------------------------------------------------------------------
# statements
# ------------------------------------------------------------------------------------------------------------------
def _terminal(stmts):
    s = _strip(stmts)
    if not s: return False
    last = s[-1]
    if isinstance(last, (ast.Return, ast.Raise)): return True
    if isinstance(last, ast.If): return _terminal(last.body) and bool(last.orelse) and _terminal(last.orelse)
    return False


def _corner_gen(cx, value):
    """`(mesh.vertices[_v] for _v in mesh.<container>[<idx>])` -> idx node"""
    if isinstance(value, ast.GeneratorExp) and len(value.generators) == 1 and cx.mesh:
        g = value.generators[0]
        if isinstance(g.target, ast.Name) and ast.unparse(value.elt) == f"mesh.vertices[{g.target.id}]" and isinstance(g.iter, ast.Subscript) \
                and ast.unparse(g.iter.value) == f"mesh.{cx.mesh[0]}" and not g.ifs:
            return g.iter.slice
    return None


def compile_stmts(cx, stmts, env, known, ind, loop=False, depth=0):
    """-> Lean text of the continuation starting at stmts[0].  A statement that reads a local which no assignment reaches on
    this path (only possible below an `if`) is the end of the path: `.raised "UnboundLocalError"`, as in Python."""
    try:
        return _compile_stmts(cx, stmts, env, known, ind, loop, depth)
    except Unbound as e:
        if loop or depth == 0 or getattr(e, "passed", False): 
            e.passed = True
            raise
        return "  " * ind + '.raised "UnboundLocalError"\n'


def _compile_stmts(cx, stmts, env, known, ind, loop, depth):
    stmts = _strip(stmts)
    pad = "  " * ind
    if not stmts:
        if loop: return pad + cx.lname(cx.buffer) + "\n"
        raise TranslateError(f"{cx.name}: a path reaches the end of the function without `return`")
    s, rest = stmts[0], stmts[1:]
    env = dict(env)

    def go(more=None, e=None, k=None):
        return compile_stmts(cx, (more or []) + rest, e if e is not None else env, k if k is not None else known, ind, loop, depth)

    if isinstance(s, ast.AnnAssign) and s.value is not None and isinstance(s.target, ast.Name):
        s = ast.Assign([s.target], s.value)
    if isinstance(s, ast.AugAssign):
        if isinstance(s.target, ast.Name):
            s = ast.Assign([ast.Name(s.target.id, ast.Store())], ast.BinOp(ast.Name(s.target.id, ast.Load()), s.op, s.value))
        elif isinstance(s.target, ast.Attribute) and isinstance(s.op, ast.Add) and s.target.attr == "vertices" and isinstance(s.target.value, ast.Name) \
                and env.get(s.target.value.id) == "pc":
            a, t = ev(cx, s.value, env, known)
            if t != "arr": raise TranslateError(f"{cx.name}: `{ast.unparse(s)}` does not add an array of points")
            p = cx.lname(s.target.value.id)
            return pad + f"let {p} := (PC.addVerts {p} {a})\n" + go()
        else:
            raise TranslateError(f"{cx.name}: unsupported update {ast.unparse(s)}")
    if isinstance(s, ast.Assign) and len(s.targets) == 1:
        tg, val = s.targets[0], s.value
        if isinstance(tg, ast.Name):
            # attribute handle: pc_normals = pointcloud.vertices.create_attribute("normals", float, 3, dense=True)
            if isinstance(val, ast.Call) and isinstance(val.func, ast.Attribute) and val.func.attr == "create_attribute":
                own = val.func.value
                if isinstance(own, ast.Attribute) and own.attr == "vertices" and isinstance(own.value, ast.Name) and env.get(own.value.id) == "pc" \
                        and [ast.unparse(z) for z in val.args] == ["'normals'", "float", "3"] and {k: ast.unparse(v) for k, v in _kw(val).items()} == {"dense": "True"}:
                    env[tg.id] = "handle"; cx.handles[tg.id] = own.value.id
                    return go(e=env)
                raise TranslateError(f"{cx.name}: unsupported attribute creation {ast.unparse(s)}")
            a, t = _value(cx, val, env, known)
            if t == "lit": a, t = _coerce((a, t), "scalar"), "scalar"
            env[tg.id] = t
            ann = f" : PC {cx.ntype}" if t == "pc" else ""
            return pad + f"let {cx.lname(tg.id)}{ann} := {a}\n" + go(e=env)
        if isinstance(tg, ast.Tuple) and all(isinstance(e, ast.Name) for e in tg.elts):
            names = [e.id for e in tg.elts]
            idx = _corner_gen(cx, val)
            if idx is not None:
                want = {"edges": 2, "faces": 3}[cx.mesh[0]]
                if len(names) != want: raise TranslateError(f"{cx.name}: {len(names)} names unpacked from the corners of one of mesh.{cx.mesh[0]}")
                i, it = ev(cx, idx, env, known)
                if it != "nat": raise TranslateError("corner lookup index")
                out = ""
                for k, nm in enumerate(names):
                    env[nm] = "row"
                    out += pad + f"let {cx.lname(nm)} := (corner V ({cx.mesh[1]}.getD {i} []) {k})\n"
                return out + go(e=env)
            if isinstance(val, ast.Call) and _chain(val.func) in (["random"], ["np", "random", "random"]) and len(val.args) == 1 and _lit(val.args[0]) == 2 \
                    and len(names) == 2 and not val.keywords:
                if cx.counter is None: raise TranslateError("pair of draws outside a sampling loop")
                out = ""
                for k, nm in enumerate(names):
                    env[nm] = "scalar"
                    out += pad + f"let {cx.lname(nm)} := ({cx.use('rnd2')} {cx.counter}).{k + 1}\n"
                return out + go(e=env)
            raise TranslateError(f"{cx.name}: unsupported unpacking {ast.unparse(s)}")
        if isinstance(tg, ast.Subscript) and isinstance(tg.value, ast.Name) and env.get(tg.value.id) == "arr":
            if not loop: raise TranslateError(f"{cx.name}: row store outside the sampling loop: {ast.unparse(s)}")
            sl = ast.unparse(tg.slice).replace(" ", "")
            i = cx.py_counter
            if sl not in (f"({i},slice(None,None,None))", f"{i},:", f"({i},...)", f"{i},...", i) and ast.unparse(tg) not in (f"{tg.value.id}[{i}, :]", f"{tg.value.id}[{i}]", f"{tg.value.id}[{i}, ...]"):
                raise TranslateError(f"{cx.name}: the row stored is not the row of the loop counter: {ast.unparse(s)}")
            if cx.buffer is None: cx.buffer = tg.value.id
            if cx.buffer != tg.value.id: raise TranslateError(f"{cx.name}: the loop stores into two buffers")
            a, t = ev(cx, val, env, known)
            if t != "row": raise TranslateError(f"{cx.name}: the stored value is not a point: {ast.unparse(s)}")
            b = cx.lname(tg.value.id)
            return pad + f"let {b} := (setRow {b} {cx.counter} {a})\n" + go()
        if isinstance(tg, ast.Attribute) and tg.attr == "_data" and isinstance(tg.value, ast.Name) and env.get(tg.value.id) == "handle":
            a, t = ev(cx, val, env, known)
            if t != "normlist": raise TranslateError(f"{cx.name}: the `normals` attribute does not receive the gathered normals: {ast.unparse(s)}")
            p = cx.lname(cx.handles[tg.value.id])
            return pad + f"let {p} := (PC.setNormals {p} {a})\n" + go()
        raise TranslateError(f"{cx.name}: unsupported assignment {ast.unparse(s)[:120]}")
    if loop:
        raise TranslateError(f"{cx.name}: unsupported statement inside the sampling loop: {ast.unparse(s)[:100]}")
    if isinstance(s, ast.Return):
        v = s.value
        if isinstance(v, ast.Name) and v.id not in env: raise Unbound(f"{cx.name}: name `{v.id}` is not bound on this path")
        if isinstance(v, ast.Name) and env.get(v.id) == "arr": return pad + f".ok (.array {cx.lname(v.id)})\n"
        if isinstance(v, ast.Name) and env.get(v.id) == "pc": return pad + f".ok (PC.out {cx.lname(v.id)})\n"
        if isinstance(v, ast.Tuple) and len(v.elts) == 2:
            (a, ta), (b, tb) = ev(cx, v.elts[0], env, known), ev(cx, v.elts[1], env, known)
            if ta == "arr" and tb == "normlist": return pad + f".ok (.arrayNormals {a} {b})\n"
        if isinstance(v, ast.Call) and _chain(v.func) == ["from_arrays"] and len(v.args) == 1 and not v.keywords:
            a, t = ev(cx, v.args[0], env, known)
            if t == "arr": return pad + f".ok (fromArrays {a})\n"
        raise TranslateError(f"{cx.name}: unsupported return {ast.unparse(s)}")
    if isinstance(s, ast.Raise):
        exc = s.exc.func if isinstance(s.exc, ast.Call) else s.exc
        nm = ast.unparse(exc) if exc is not None else "?"
        return pad + f'.raised "{nm}"\n'
    if isinstance(s, ast.Assert):
        c, t = ev(cx, s.test, env, known)
        if t != "bool": raise TranslateError("assert on a non-Boolean")
        return pad + f"if {c} then\n" + compile_stmts(cx, rest, env, known, ind + 1, False, depth) + pad + "else\n" + pad + '  .raised "AssertionError"\n'
    if isinstance(s, ast.Expr) and isinstance(s.value, ast.Call) and _chain(s.value.func) == ["check_argument"]:
        a = s.value.args
        if len(a) == 4 and isinstance(a[1], ast.Name) and env.get(a[1].id) == "str" and ast.unparse(a[2]) == "str" and isinstance(a[3], ast.List) \
                and all(isinstance(e, ast.Constant) and isinstance(e.value, str) for e in a[3].elts) and not s.value.keywords:
            lst = "[" + ", ".join(f'"{e.value}"' for e in a[3].elts) + "]"
            return pad + f"if !({lst}.contains {cx.lname(a[1].id)}) then\n" + pad + '  .raised "InvalidArgumentValueError"\n' + pad + "else\n" + go()
        raise TranslateError(f"{cx.name}: unsupported argument check {ast.unparse(s)}")
    if isinstance(s, ast.If):
        if isinstance(s.test, ast.Name) and s.test.id in known:
            return go(more=(s.body if known[s.test.id] else s.orelse))
        c, t = ev(cx, s.test, env, known)
        if t != "bool": raise TranslateError(f"{cx.name}: test is not Boolean: {ast.unparse(s.test)}")
        kt, kf = dict(known), dict(known)
        if isinstance(s.test, ast.Name): kt[s.test.id] = True; kf[s.test.id] = False
        th = compile_stmts(cx, list(s.body) + ([] if _terminal(s.body) else rest), env, kt, ind + 1, False, depth + 1)
        el = compile_stmts(cx, list(s.orelse) + ([] if (s.orelse and _terminal(s.orelse)) else rest), env, kf, ind + 1, False, depth + 1)
        return pad + f"if {c} then\n" + th + pad + "else\n" + el
    if isinstance(s, ast.For):
        it = s.iter
        if not (isinstance(s.target, ast.Tuple) and len(s.target.elts) == 2 and all(isinstance(e, ast.Name) for e in s.target.elts)
                and isinstance(it, ast.Call) and isinstance(it.func, ast.Name) and it.func.id == "enumerate" and len(it.args) == 1 and not s.orelse):
            raise TranslateError(f"{cx.name}: sampling loop is not `for i,x in enumerate(<list>)`")
        xs, xt = ev(cx, it.args[0], env, known)
        if xt != "natlist": raise TranslateError(f"{cx.name}: the loop does not run over the drawn indices")
        ci, cxn = s.target.elts[0].id, s.target.elts[1].id
        cx.counter, cx.py_counter, cx.buffer = cx.lname(ci), ci, None
        benv = dict(env, **{ci: "nat", cxn: "nat"})
        body = compile_stmts(cx, s.body, benv, known, ind + 2, loop=True)
        buf = cx.buffer
        if buf is None: raise TranslateError(f"{cx.name}: the sampling loop stores nothing")
        cx.counter = cx.buffer = None
        b = cx.lname(buf)
        out = pad + f"let {b} := ({xs}.zipIdx).foldl (fun {b} (ix : Nat × Nat) =>\n"
        out += pad + f"    let {cx.lname(cxn)} := ix.1\n" + pad + f"    let {cx.lname(ci)} := ix.2\n" + body + pad + f"  ) {b}\n"
        return out + compile_stmts(cx, rest, env, known, ind, False, depth)
    raise TranslateError(f"{cx.name}: unsupported statement {ast.unparse(s)[:120]}")


def _if_assign_lift(stmts):
    """`if c: <assignments; v = A> else: <v = B>` where neither branch returns: rewritten so that only `v` (the names assigned
    in BOTH branches) survives — nothing to do here: the continuation is duplicated, and a name bound in one branch only is
    unbound on the other path (TranslateError when it is used there)."""
    return stmts


# ------------------------------------------------------------------------------------------------------------------
# function specs and sites
# ------------------------------------------------------------------------------------------------------------------
SPECS = {
    "sample_sphere": dict(file="C19FnSphere", params=[("center", "row"), ("radius", "scalar"), ("n_pts", "nat"), ("return_point_cloud", "bool")],
                          oracles=["nrm", "g"], sig="(nrm : Row → Rat) (g : Nat → Row) (center : Row) (radius : Rat) (n_pts : Nat) (return_point_cloud : Bool)",
                          ret="Res (Out Unit)", mesh=None, ntype="Unit"),
    "sample_ball": dict(file="C19FnBall", params=[("center", "row"), ("radius", "scalar"), ("n_pts", "nat"), ("return_point_cloud", "bool")],
                        oracles=["nrm", "cbrt", "g", "u"],
                        sig="(nrm : Row → Rat) (cbrt : Rat → Rat) (g : Nat → Row) (u : Nat → Rat) (center : Row) (radius : Rat) (n_pts : Nat) (return_point_cloud : Bool)",
                        ret="Res (Out Unit)", mesh=None, ntype="Unit"),
    "sample_AABB": dict(file="C19FnBox", params=[("box", "box"), ("n_pts", "nat"), ("mode", "str"), ("return_point_cloud", "bool")],
                        oracles=["root", "x"],
                        sig="(root : Nat → Nat → Nat) (x : Nat → Nat → Rat) (p1 p2 : Row) (n_pts : Nat) (mode : String) (return_point_cloud : Bool)",
                        ret="Res (Out Unit)", mesh=None, ntype="Unit"),
    "sample_polyline": dict(file="C19FnPoly", params=[("mesh", "mesh"), ("n_pts", "nat"), ("return_point_cloud", "bool")],
                            oracles=["choice", "rnd", "lens"],
                            sig="(choice : Nat → Nat → List Rat → List Nat) (rnd : Nat → Rat) (lens : List Rat) (V : Arr) (E : List (List Nat)) (n_pts : Nat) (return_point_cloud : Bool)",
                            ret="Res (Out Unit)", mesh=("edges", "E"), ntype="Unit"),
    "sample_surface": dict(file="C19FnSurf", params=[("mesh", "mesh"), ("n_pts", "nat"), ("return_point_cloud", "bool"), ("return_normals", "bool")],
                           oracles=["sqrt", "choice", "rnd2", "areas", "normals", "dflt", "isTri"],
                           sig="{N : Type} (sqrt : Rat → Rat) (choice : Nat → Nat → List Rat → List Nat) (rnd2 : Nat → Rat × Rat) (areas : List Rat) (normals : List N) (dflt : N) (isTri : Bool) (V : Arr) (F : List (List Nat)) (n_pts : Nat) (return_point_cloud : Bool) (return_normals : Bool)",
                           ret="Res (Out N)", mesh=("faces", "F"), ntype="N"),
}


def _defaults(fn):
    a = fn.args
    names = [x.arg for x in a.args]
    out = []
    for nm, d in zip(names[len(names) - len(a.defaults):], a.defaults):
        out.append((nm, ast.unparse(d)))
    return out


def _purity(fn, names):
    """the sampler only READS its domain arguments (same check as round 3's `_no_writes`)"""
    from .c19_translate import _no_writes
    _no_writes(fn, names)


def translate_function(fname):
    sp = SPECS[fname]
    tree, _ = T.load(SAMPLING)
    fn = T.find_def(tree, fname)
    args = [a.arg for a in fn.args.args]
    if args != [p for p, _ in sp["params"]]:
        raise TranslateError(f"{fname}: signature changed: {args}")
    if fn.args.vararg or fn.args.kwarg or fn.args.kwonlyargs: raise TranslateError(f"{fname}: signature changed (star arguments)")
    _purity(fn, {p for p, t in sp["params"] if t in ("row", "scalar", "box", "mesh")})
    cx = Ctx(fname, sp["params"], sp["oracles"], sp["mesh"], sp["ntype"])
    env = {p: t for p, t in sp["params"]}
    body = compile_stmts(cx, fn.body, env, {}, 1)
    dfl = _defaults(fn)
    out = NS_OPEN.format(imports=("import Mouette.Generated.C19FnAABB\n" if fname == "sample_AABB" else ""))
    out += f"/-- `{fname}` (mouette/sampling.py), whole body, statement by statement -/\n"
    out += f"def {fname} {sp['sig']} : {sp['ret']} :=\n{body}"
    out += f"\n/-- default values of the optional parameters of `{fname}`, as written in the `def` line -/\n"
    out += f"def {fname}_defaults : List (String × String) := [" + ", ".join(f'("{a}", "{b.replace(chr(34), chr(39))}")' for a, b in dfl) + "]\n"
    out += NS_END
    _, sha = T.write_generated(sp["file"], out)
    return {"sha": sha, "defaults": dfl, "oracles_used": sorted(cx.used), "lines": body.count("\n")}


AABB_METHODS = [("dim", "Nat"), ("mini", "Row"), ("maxi", "Row"), ("span", "Row"), ("center", "Row"), ("is_empty", "Bool")]


def translate_aabb():
    tree, _ = T.load(AABB)
    out = NS_OPEN.format(imports="")
    det = {}
    ty = {"Nat": "nat", "Row": "row", "Bool": "bool"}
    # __init__: which attributes hold the corners
    init = T.find_def(tree, "AABB.__init__")
    iargs = [a.arg for a in init.args.args]
    if iargs != ["self", "p_min", "p_max"]: raise TranslateError(f"AABB.__init__ signature changed: {iargs}")
    stores = {}
    for s in _strip(init.body):
        if isinstance(s, ast.Assign) and len(s.targets) == 1 and _chain(s.targets[0]) and _chain(s.targets[0])[0] == "self":
            src = ast.unparse(s.value).replace(" ", "")
            for p in ("p_min", "p_max"):
                if src in (f"Vec(np.array({p}))", f"Vec({p})", f"Vec(np.array({p},dtype=float))", f"Vec(np.asarray({p}))", f"Vec(np.copy({p}))"):
                    stores[_chain(s.targets[0])[1]] = p
    if stores != {"_p1": "p_min", "_p2": "p_max"}:
        raise TranslateError(f"AABB.__init__ does not store (p_min, p_max) into (_p1, _p2): {stores}")
    for name, lty in AABB_METHODS:
        fn = T.find_def(tree, "AABB." + name)
        if [a.arg for a in fn.args.args] != ["self"]: raise TranslateError(f"AABB.{name}: signature changed")
        body = _strip(fn.body)
        if len(body) != 1 or not isinstance(body[0], ast.Return): raise TranslateError(f"AABB.{name}: expected a single `return <expr>`")
        cx = Ctx("AABB." + name, [], [], None)
        a, t = ev(cx, body[0].value, {"self": "self"}, {})
        if t == "lit": a, t = _coerce((a, t), "scalar"), "scalar"
        if t != ty[lty]: raise TranslateError(f"AABB.{name}: returns a {t}, expected {ty[lty]}")
        out += f"/-- `AABB.{name}` (mouette/geometry/aabb.py); `p1`, `p2` = `self._p1`, `self._p2` -/\n"
        out += f"def AABB_{name} (p1 p2 : Row) : {lty} :=\n  {a}\n"
        det[name] = a
    out += NS_END
    _, sha = T.write_generated("C19FnAABB", out)
    det["sha"] = sha
    return det


BEZIER = "mouette/splines/bezier.py"


def translate_bezier_small():
    """BezierCurve.evaluate (delegation to de_casteljau: which arguments, in which order), BezierCurve.order, BezierPatch.order"""
    tree, _ = T.load(BEZIER)
    ev_ = T.find_def(tree, "BezierCurve.evaluate")
    a = [x.arg for x in ev_.args.args]
    if len(a) != 2 or a[0] != "self": raise TranslateError(f"BezierCurve.evaluate signature changed: {a}")
    body = _strip(ev_.body)
    if len(body) != 1 or not isinstance(body[0], ast.Return): raise TranslateError("BezierCurve.evaluate: expected a single return")
    c = body[0].value
    if not (isinstance(c, ast.Call) and isinstance(c.func, ast.Name) and c.func.id == "de_casteljau" and not c.keywords and len(c.args) == 2):
        raise TranslateError(f"BezierCurve.evaluate does not delegate to de_casteljau(.., ..): {ast.unparse(c)}")
    names = {"self.pts": "pts", a[1]: "t"}
    args = []
    for z in c.args:
        k = ast.unparse(z)
        if k not in names: raise TranslateError(f"BezierCurve.evaluate passes `{k}` to de_casteljau")
        args.append(names[k])

    def cnt(n):
        if isinstance(n, ast.Call) and isinstance(n.func, ast.Name) and n.func.id == "len" and len(n.args) == 1:
            src = ast.unparse(n.args[0])
            if src == "self.pts": return "nrows"
            if src == "self.pts[0]": return "ncols"
            raise TranslateError(f"len of {src}")
        f = _lit(n)
        if f is not None and f.denominator == 1 and f >= 0: return str(f.numerator)
        if isinstance(n, ast.BinOp) and type(n.op) in (ast.Add, ast.Sub, ast.Mult):
            op = {ast.Add: "+", ast.Sub: "-", ast.Mult: "*"}[type(n.op)]
            return f"({cnt(n.left)} {op} {cnt(n.right)})"
        raise TranslateError(f"unsupported order expression {ast.unparse(n)}")

    def single_return(q):
        f = T.find_def(tree, q)
        b = _strip(f.body)
        if len(b) != 1 or not isinstance(b[0], ast.Return): raise TranslateError(f"{q}: expected a single return")
        return b[0].value
    co = cnt(single_return("BezierCurve.order"))
    if "ncols" in co: raise TranslateError("BezierCurve.order uses a column count")
    po = single_return("BezierPatch.order")
    if not (isinstance(po, ast.Tuple) and len(po.elts) == 2): raise TranslateError("BezierPatch.order is not a pair")
    p0, p1 = cnt(po.elts[0]), cnt(po.elts[1])
    out = NS_OPEN.format(imports="")
    out += "/-- `BezierCurve.evaluate(t)`: the call it delegates to (`dc` = `de_casteljau`), arguments in source order -/\n"
    out += f"def curveEvaluate (dc : List Rat → Rat → Option Rat) (pts : List Rat) (t : Rat) : Option Rat := dc {args[0]} {args[1]}\n"
    out += "/-- `BezierCurve.order` (`nrows` = `len(self.pts)`) -/\n"
    out += f"def curveOrder (nrows : Nat) : Nat := {co}\n"
    out += "/-- `BezierPatch.order` (`nrows` = `len(self.pts)`, `ncols` = `len(self.pts[0])`) -/\n"
    out += f"def patchOrder (nrows ncols : Nat) : Nat × Nat := ({p0}, {p1})\n" + NS_END
    _, sha = T.write_generated("C19FnCurve", out)
    return {"sha": sha, "evaluate": f"dc {args[0]} {args[1]}", "curveOrder": co, "patchOrder": [p0, p1]}


SITES = [("bezier.py: BezierCurve.evaluate (delegation), BezierCurve.order, BezierPatch.order (whole bodies)", translate_bezier_small, ["C19FnCurve"]),
         ("aabb.py: AABB.__init__ corner attributes; dim / mini / maxi / span / center / is_empty (whole bodies)", translate_aabb, ["C19FnAABB"])]
for _f in ("sample_sphere", "sample_ball", "sample_AABB", "sample_polyline", "sample_surface"):
    SITES.append((f"sampling.py: {_f} (WHOLE body read imperatively: statement order, guards, dispatch, loop, stores, defaults)",
                  (lambda f=_f: translate_function(f)), [SPECS[_f]["file"]]))


def translate():
    return [T.site(n, f) for n, f, _ in SITES]
