"""Raw-input generators for C02 (mesh construction). Plain data only; all randomness from the rng passed in.

A scenario is a dict
  V     list of coordinate rows (2 or 3 dyadic floats each)
  E     declared edges [a,b] (may be self loops, out of range, negative, duplicated, reversed)
  EA    edge attributes [{"name","dense","dflt"(int|None),"vals": {str(i): int}}]  (dense: every declared edge has a value)
  F     declared faces (any arity >= 3), C cells (arity 4 or 8)
"""
from . import mesh as G


def hex_grid(rng, nx, ny, nz):
    idx = lambda i, j, k: (i * (ny + 1) + j) * (nz + 1) + k
    V = []
    for i in range(nx + 1):
        for j in range(ny + 1):
            for k in range(nz + 1):
                V.append([G.dy(i + rng.uniform(-.2, .2)), G.dy(j + rng.uniform(-.2, .2)), G.dy(k + rng.uniform(-.2, .2))])
    C = []
    for i in range(nx):
        for j in range(ny):
            for k in range(nz):
                C.append([idx(i, j, k), idx(i + 1, j, k), idx(i + 1, j + 1, k), idx(i, j + 1, k),
                          idx(i, j, k + 1), idx(i + 1, j, k + 1), idx(i + 1, j + 1, k + 1), idx(i, j + 1, k + 1)])
    return V, C


TET_T = [[1, 3, 2], [0, 2, 3], [3, 1, 0], [0, 1, 2]]
HEX_T = [[0, 1, 2, 3], [4, 5, 6, 7], [0, 3, 7, 4], [0, 1, 5, 4], [1, 2, 6, 5], [2, 3, 7, 6]]


def cell_face_sets(c):
    """vertex sets of the faces of a tet (all triples) / hex (the six quads of the usual numbering)"""
    if len(c) == 4:
        return [[c[j] for j in range(4) if j != i] for i in range(4)]
    return [[c[j] for j in t] for t in HEX_T]


def base(rng, tier):
    big = tier != "quick"
    kind = rng.choice(["points", "polyline", "surface", "surface", "surface", "tets", "tets", "hex", "mixed", "tiny", "tiny"])
    F, C, E = [], [], []
    if kind == "points":
        n = rng.randint(0, 6)
        V = [[G.dy(rng.uniform(-2, 2)), G.dy(rng.uniform(-2, 2)), G.dy(rng.uniform(-2, 2))] for _ in range(n)]
    elif kind == "polyline":
        p = G.random_polyline(rng, 10 if not big else 30)
        V, E = p["V"], [list(e) for e in p["E"]]
    elif kind == "surface":
        s = G.random_surface(rng, max_faces=(rng.choice([6, 14, 30]) if not big else rng.choice([14, 60, 200])))
        V, F = s["V"], s["F"]
    elif kind == "tets":
        t = G.random_tets(rng, max_cells=(rng.choice([4, 12, 24]) if not big else rng.choice([12, 60, 160])), orient=rng.choice(["positive", "mixed"]))
        V, C = t["V"], t["C"]
    elif kind == "hex":
        V, C = hex_grid(rng, rng.randint(1, 3 if big else 2), rng.randint(1, 3 if big else 2), rng.randint(1, 2))
    elif kind == "mixed":
        V, C = hex_grid(rng, 1, 1, rng.randint(1, 2))
        o = len(V)
        V = V + [[5.0, 0.0, 0.0], [6.0, 0.0, 0.0], [5.0, 1.0, 0.0], [5.0, 0.0, 1.0], [6.0, 1.0, 1.0]]
        C = C + [[o, o + 1, o + 2, o + 3], [o + 1, o + 2, o + 3, o + 4]]
        # a tet glued on a hex corner too
        C.append([0, 1, 3, o])
        rng.shuffle(C)
        F = [[o + 4, o + 2, o + 1]] if rng.random() < .5 else []
    else:
        n = rng.randint(3, 6)
        V = [[float(i % 3), float(i // 3), float((i * i) % 2)] for i in range(n)]
        for _ in range(rng.randint(0, 3)):
            k = rng.choice([3, 3, 4, 5]) if n >= 5 else rng.choice([3, min(4, n)])
            F.append(rng.sample(range(n), min(k, n)))
        if n >= 4 and rng.random() < .4:
            C.append(rng.sample(range(n), 4))
        if n >= 5 and rng.random() < .3:
            C.append(rng.sample(range(n), 4))
    return kind, V, E, F, C


def declare_extras(rng, V, E, F, C):
    """add declared edges (valid, reversed, duplicated, invalid), pre-declared faces of cells, attributes"""
    n = len(V)
    sides = [(f[i], f[(i + 1) % len(f)]) for f in F for i in range(len(f))]
    for c in C:
        for fs in cell_face_sets(c):
            sides += [(fs[i], fs[(i + 1) % len(fs)]) for i in range(len(fs))]
    E = [list(e) for e in E]
    k = rng.choice([0, 0, 1, 2, 3, 5])
    for _ in range(k):
        r = rng.random()
        if sides and r < .45:
            a, b = rng.choice(sides); E.append([a, b] if rng.random() < .5 else [b, a])
        elif n >= 2 and r < .6:
            a, b = rng.sample(range(n), 2); E.append([a, b])
        elif E and r < .7:
            a, b = rng.choice(E); E.append([a, b] if rng.random() < .5 else [b, a])      # duplicate / reversed duplicate
        elif n >= 1 and r < .8:
            a = rng.randrange(n); E.append([a, a])                                           # self loop
        elif r < .9:
            E.append([rng.randrange(max(n, 1)), n + rng.randint(0, 2)])                       # out of range (>= nV)
        else:
            E.append([-1 - rng.randint(0, 1), rng.randrange(max(n, 1))])                      # negative
    rng.shuffle(E)
    # faces of cells declared up front (as given by files that list boundary triangles), in any rotation/orientation
    F = [list(f) for f in F]
    if C and rng.random() < .4:
        for c in C:
            for fs in cell_face_sets(c):
                if rng.random() < .25:
                    if len(fs) == 3:
                        g = list(fs); rng.shuffle(g)
                    else:
                        r0 = rng.randrange(4); g = fs[r0:] + fs[:r0]
                        if rng.random() < .5: g = g[::-1]
                    F.append(g)
        rng.shuffle(F)
    EA = []
    if E:
        for name in rng.sample(["w", "lab", "z"], rng.choice([0, 0, 1, 1, 2])):
            dense = rng.random() < .45
            dflt = rng.choice([None, None, None, 7, -3])
            if dense:
                vals = {str(i): rng.choice([i, 10 + 2 * i, rng.randint(0, 5), 100 + i]) for i in range(len(E))}
            else:
                ks = [i for i in range(len(E)) if rng.random() < .6]
                vals = {str(i): 10 + 2 * i + rng.randint(0, 1) for i in ks}
            EA.append({"name": name, "dense": dense, "dflt": dflt, "vals": vals})
    return E, F, EA


def degenerate(rng, V, E, EA, F, C, mode=None):
    """Round 3b family: an INVALID edge that is produced by the completion, not declared by the caller.
      face-repeat : a face with two consecutive equal indices ([1,1,3], [0,2,2,3]) -> a self-loop side
      face-oor    : a face pointing at a vertex that does not exist (index >= nV)  -> out-of-range sides
      cell-repeat / cell-oor : the same one level up (cell -> completed faces -> completed edges)
    and, most of the time, only VALID declared edges (an invalid declared edge sends the code through its rebuild
    branch, which filters everything and would mask an unfiltered completed edge)."""
    n = len(V)
    modes = [m for m in (["face-repeat", "face-repeat", "face-oor"] if F else []) + (["cell-repeat", "cell-oor"] if C else [])]
    if not modes or n == 0:
        return None
    mode = mode or rng.choice(modes)
    F = [list(f) for f in F]; C = [list(c) for c in C]
    if mode == "face-repeat":
        f = F[rng.randrange(len(F))]; i = rng.randrange(len(f)); f[(i + 1) % len(f)] = f[i]
    elif mode == "face-oor":
        f = F[rng.randrange(len(F))]; f[rng.randrange(len(f))] = n + rng.randint(0, 3)
    elif mode == "cell-repeat":
        c = C[rng.randrange(len(C))]; i = rng.randrange(len(c)); c[(i + 1) % len(c)] = c[i]
    else:
        c = C[rng.randrange(len(C))]; c[rng.randrange(len(c))] = n + rng.randint(0, 3)
    if rng.random() < .75:
        ok = lambda e: e[0] != e[1] and 0 <= e[0] < n and 0 <= e[1] < n
        keep = [i for i, e in enumerate(E) if ok(e)]
        pos = {i: k for k, i in enumerate(keep)}
        E = [E[i] for i in keep]
        EA = [dict(a, vals={str(pos[int(k)]): v for k, v in a["vals"].items() if int(k) in pos}) for a in EA]
        mode += "+declared-all-valid"
    return mode, E, EA, F, C


def scenario(rng, tier, degen=None):
    kind, V, E, F, C = base(rng, tier)
    E, F, EA = declare_extras(rng, V, E, F, C)
    out = {"kind": kind}
    if degen or rng.random() < .12:
        d = degenerate(rng, V, E, EA, F, C)
        if d:
            out["degen"], E, EA, F, C = d
    vdim = 3
    if not C and rng.random() < .2:
        vdim = 2; V = [v[:2] for v in V]
    out.update({"V": V, "vdim": vdim, "E": E, "EA": EA, "F": F, "C": C})
    return out
