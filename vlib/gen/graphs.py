"""Helpers shared by C09/C10 (own file of agent ag_c09): independent edge / adjacency extraction from the raw
case data (never through mouette), exact Bellman-Ford, components, mesh-case generation and building."""
import math
from fractions import Fraction

from . import mesh as G


def gen_mesh(rng, tier, kinds=("surface", "volume", "polyline"), weights=(4, 2, 2)):
    kind = rng.choices(kinds, weights=weights[:len(kinds)])[0]
    big = tier != "quick"
    if kind == "surface":
        c = G.random_surface(rng, max_faces=rng.choice([8, 16, 30, 60]) if not big else rng.choice([16, 60, 150, 400]))
        return {"kind": kind, "V": c["V"], "F": c["F"], "tag": c["tag"]}
    if kind == "volume":
        c = G.random_tets(rng, max_cells=rng.choice([6, 30, 48]) if not big else rng.choice([6, 48, 160, 380]),
                          orient=rng.choice(["positive", "positive", "mixed"]))
        return {"kind": kind, "V": c["V"], "C": c["C"], "tag": c["tag"]}
    c = G.random_polyline(rng, max_v=rng.choice([5, 12, 25]) if not big else rng.choice([12, 40, 120]))
    return {"kind": kind, "V": c["V"], "E": c["E"], "tag": c["tag"]}


def build(mesh):
    if mesh["kind"] == "surface": return G.build_surface(mesh)
    if mesh["kind"] == "volume": return G.build_volume(mesh)
    return G.build_polyline(mesh)


def key2(a, b):
    return (a, b) if a < b else (b, a)


def edges_of(mesh):
    """Independent edge set (sorted list of (a,b), a<b) from the raw case data."""
    E = set()
    if mesh["kind"] == "polyline":
        for a, b in mesh["E"]: E.add(key2(a, b))
    elif mesh["kind"] == "surface":
        for f in mesh["F"]:
            for i in range(len(f)): E.add(key2(f[i], f[(i + 1) % len(f)]))
    else:
        for c in mesh["C"]:
            assert len(c) == 4
            for i in range(4):
                for j in range(i + 1, 4): E.add(key2(c[i], c[j]))
    return sorted(E)


def border_edges_of(mesh):
    """Independent: set of border edges (surface: side without opposite side; volume: edges of faces incident
    to exactly one cell; polyline: none)."""
    if mesh["kind"] == "surface":
        sides = set()
        for f in mesh["F"]:
            for i in range(len(f)): sides.add((f[i], f[(i + 1) % len(f)]))
        return {key2(a, b) for (a, b) in sides if (b, a) not in sides}
    if mesh["kind"] == "volume":
        cnt = {}
        for c in mesh["C"]:
            for i in range(4):
                f = tuple(sorted(c[:i] + c[i + 1:]))
                cnt[f] = cnt.get(f, 0) + 1
        out = set()
        for f, k in cnt.items():
            if k == 1:
                out |= {key2(f[0], f[1]), key2(f[1], f[2]), key2(f[0], f[2])}
        return out
    return set()


def face_adjacency(mesh):
    """surface: list of (f1, f2, (a,b)) for every interior edge (a<b) shared by faces f1,f2."""
    sides = {}
    for fi, f in enumerate(mesh["F"]):
        for i in range(len(f)): sides[(f[i], f[(i + 1) % len(f)])] = fi
    out = []
    for (a, b), f1 in sides.items():
        if a < b and (b, a) in sides:
            out.append((f1, sides[(b, a)], (a, b)))
    return out


def cell_adjacency(mesh):
    """volume: list of (c1, c2, sorted face triple) for every interior face."""
    inc = {}
    for ci, c in enumerate(mesh["C"]):
        for i in range(4):
            inc.setdefault(tuple(sorted(c[:i] + c[i + 1:])), []).append(ci)
    return [(v[0], v[1], f) for f, v in inc.items() if len(v) == 2]


def components(n, pairs):
    lab = list(range(n))

    def find(x):
        while lab[x] != x:
            lab[x] = lab[lab[x]]; x = lab[x]
        return x
    for a, b in pairs:
        ra, rb = find(a), find(b)
        if ra != rb: lab[max(ra, rb)] = min(ra, rb)
    return [find(x) for x in range(n)]


def bellman_ford(n, wedges, start):
    """Exact single-source distances over Fractions; wedges: list of (a,b,w) undirected. None = unreachable."""
    dist = [None] * n
    dist[start] = Fraction(0)
    for _ in range(n):
        ch = False
        for a, b, w in wedges:
            for x, y in ((a, b), (b, a)):
                if dist[x] is not None and (dist[y] is None or dist[x] + w < dist[y]):
                    dist[y] = dist[x] + w; ch = True
        if not ch: break
    return dist


def bfs_hops(n, pairs, root):
    adj = [[] for _ in range(n)]
    for a, b in pairs:
        adj[a].append(b); adj[b].append(a)
    d = [None] * n
    d[root] = 0
    cur = [root]
    while cur:
        nxt = []
        for u in cur:
            for x in adj[u]:
                if d[x] is None:
                    d[x] = d[u] + 1; nxt.append(x)
        cur = nxt
    return d


def sq_len(V, a, b):
    return sum((Fraction(V[a][k]) - Fraction(V[b][k])) ** 2 for k in range(3))


def hash_weight(a, b, seed, mod=6):
    a, b = key2(a, b)
    return ((a * 7919 + b * 104729 + seed * 31 + (a ^ b) * 17) % 1009) % mod


def exc_token(e):
    n = type(e).__name__
    return {"KeyError": "err:Key", "TypeError": "err:Type", "IndexError": "err:Index", "ValueError": "err:Value"}.get(n, f"err:Other({n})")


def frac_str(f):
    f = Fraction(f)
    return str(f.numerator) if f.denominator == 1 else f"{f.numerator}/{f.denominator}"
