"""C06 translated BODIES: Python `ast` -> Lean (lean/Mouette/Generated/C06Src.lean), re-extracted on every run from
$MOUETTE_REPO/mouette/geometry/transform.py (translate, rotate, scale, scale_xyz, flatten, normalize, fit_into_unit_cube,
translate_to_origin) and mouette/mesh/mesh.py (merge).  Vocabulary: lean/Mouette/Model/MeshSource.lean.

Every function is read IMPERATIVELY: parameter defaults (`if orig is None: orig = e`), the vertex loop as a fold over
`mesh.id_vertices` whose body is a list of local bindings followed by ONE store — a rebinding `mesh.vertices[i] = e` or an
in-place item assignment `mesh.vertices[i][c] = e` (they mean different things: Model/MeshSource.lean) —, local bindings,
compositions `return f(g(mesh, a), b)`, `return mesh`.  `merge`: the accumulators (`merged.<kind>`, `vertex_offset`), the loop
over the inputs, the guards `hasattr(m, kind)`, the order of the statements (the offset is advanced LAST).

Tolerated respellings: renamed locals / parameters (positional canonical names), `x is None` / `None is x`, `+=` vs `= .. + ..`
for the offset, docstrings, comments, annotations, `Vec(e)` around a vector expression; commuted `+` / `*` inside the vertex
expression are absorbed by the bridge proofs (`ring`).  Anything else raises TranslateError.
"""
import ast

from .. import translate as T
from ..translate import TranslateError

TRANSFORM_FILE = "mouette/geometry/transform.py"
MESH_FILE = "mouette/mesh/mesh.py"

# name -> (lean name, [(kind)] of the parameters after `mesh`)
FUNCS = [
    ("translate", "translate", ["V3"]),
    ("rotate", "rotate", ["M3", "OptV3"]),
    ("scale", "scale", ["Rat", "OptV3"]),
    ("scale_xyz", "scaleXyz", ["Rat", "Rat", "Rat", "OptV3"]),
    ("flatten", "flatten", ["Nat"]),
    ("normalize", "normalize", ["Bool"]),
    ("fit_into_unit_cube", "fitIntoUnitCube", []),
    ("translate_to_origin", "translateToOrigin", []),
]
LEAN_TY = {"V3": "V3", "M3": "M3", "OptV3": "Option V3", "Rat": "Rat", "Nat": "Nat", "Bool": "Bool"}
SIG = {q: (l, p) for q, l, p in FUNCS}


def _body(fn):
    return [s for s in fn.body if not (isinstance(s, ast.Expr) and isinstance(s.value, ast.Constant))]


def ind(txt, k=2):
    return "\n".join(" " * k + l for l in txt.split("\n"))


class Fn:
    def __init__(self, name, node):
        self.name, self.node = name, node
        self.lean, ptypes = SIG[name]
        args = [a.arg for a in node.args.args]
        if len(args) != len(ptypes) + 1: raise TranslateError(f"{name}: {len(args)} parameters, expected {len(ptypes) + 1}")
        self.mesh = args[0]
        self.env = {}
        self.params = []
        for i, (a, t) in enumerate(zip(args[1:], ptypes)):
            self.env[a] = (f"a{i + 1}", t)
            self.params.append((f"a{i + 1}", t))
        self.nloc = 0
        self.loopvar = None

    def err(self, msg, node=None):
        at = f" at `{ast.unparse(node)[:90]}`" if node is not None else ""
        raise TranslateError(f"{self.name}: {msg}{at}")

    def is_vertices(self, n):
        return isinstance(n, ast.Attribute) and n.attr == "vertices" and isinstance(n.value, ast.Name) and n.value.id == self.mesh

    def is_vertex(self, n):
        return isinstance(n, ast.Subscript) and self.is_vertices(n.value)

    def E(self, n, st="s"):
        """-> (lean, type); `st` is the name of the current state variable"""
        if isinstance(n, ast.Name):
            if n.id in self.env: return self.env[n.id]
            if n.id == self.loopvar: return "i", "Nat"
            self.err("unknown name", n)
        if isinstance(n, ast.Constant) and isinstance(n.value, (int, float)) and not isinstance(n.value, bool):
            from fractions import Fraction
            f = Fraction(n.value)
            return (f"({f.numerator} : Rat)" if f.denominator == 1 else f"(({f.numerator} : Rat) / {f.denominator})"), "Rat"
        if self.is_vertex(n):
            k = n.slice
            if isinstance(k, ast.Name) and k.id == self.loopvar: return f"(vertexAt {st} mi i)", "V3"
            if isinstance(k, ast.Constant) and isinstance(k.value, int) and k.value >= 0: return f"(vertexAt {st} mi {k.value})", "V3"
            self.err("vertex index", n)
        if isinstance(n, ast.UnaryOp) and isinstance(n.op, ast.USub):
            a, t = self.E(n.operand, st)
            if t == "V3": return f"({a}).neg", "V3"
            if t == "Rat": return f"(-{a})", "Rat"
            self.err("negation", n)
        if isinstance(n, ast.BinOp):
            a, ta = self.E(n.left, st); b, tb = self.E(n.right, st)
            op = type(n.op)
            if op in (ast.Add, ast.Sub) and ta == tb == "V3": return f"(({a}).{'add' if op is ast.Add else 'sub'} ({b}))", "V3"
            if op in (ast.Add, ast.Sub, ast.Mult, ast.Div) and ta == tb == "Rat":
                return f"({a} {{ast.Add: '+', ast.Sub: '-', ast.Mult: '*', ast.Div: '/'}}[op] {b})".replace("{ast.Add: '+', ast.Sub: '-', ast.Mult: '*', ast.Div: '/'}[op]", {ast.Add: '+', ast.Sub: '-', ast.Mult: '*', ast.Div: '/'}[op]), "Rat"
            if op is ast.Mult and ta == "Rat" and tb == "V3": return f"(V3.smul {a} ({b}))", "V3"
            if op is ast.Mult and ta == "V3" and tb == "Rat": return f"(V3.smul {b} ({a}))", "V3"
            if op is ast.Div and ta == "V3" and tb == "Rat": return f"(V3.smul (1 / {b}) ({a}))", "V3"
            self.err(f"operator between {ta} and {tb}", n)
        if isinstance(n, ast.Attribute) and n.attr in ("x", "y", "z"):
            a, t = self.E(n.value, st)
            if t != "V3": self.err("component of a non-vector", n)
            return f"{a}.{n.attr}", "Rat"
        if isinstance(n, ast.Attribute) and isinstance(n.value, ast.Name) and n.value.id in self.env and self.env[n.value.id][1] == "Box":
            b = self.env[n.value.id][0]
            if n.attr == "center": return f"(center {b})", "V3"
            if n.attr == "mini": return f"(bbMin {b})", "V3"
            if n.attr == "maxi": return f"(bbMax {b})", "V3"
            if n.attr == "span": return f"(span {b})", "Span"
            self.err("unknown box field", n)
        if isinstance(n, ast.Call):
            f = ast.unparse(n.func)
            A = n.args
            if f == "Vec" and len(A) == 1 and not n.keywords:
                a, t = self.E(A[0], st)
                if t != "V3": self.err("Vec() of a non-vector", n)
                return a, "V3"
            if f == "Vec" and len(A) == 3:
                cs = [self.E(x, st) for x in A]
                if any(t != "Rat" for _, t in cs): self.err("Vec(x,y,z) of non-scalars", n)
                return "(⟨" + ", ".join(c for c, _ in cs) + "⟩ : V3)", "V3"
            if f == "np.array" and len(A) == 1 and not n.keywords:      # a copy of a vector: same value, new object
                a, t = self.E(A[0], st)
                if t != "V3": self.err("np.array() of a non-vector", n)
                return a, "V3"
            if f == "Vec.zeros" and len(A) == 1 and isinstance(A[0], ast.Constant) and A[0].value == 3: return "V3.zero", "V3"
            if isinstance(n.func, ast.Attribute) and n.func.attr == "apply" and len(A) == 1:
                r, tr = self.E(n.func.value, st); a, t = self.E(A[0], st)
                if tr != "M3" or t != "V3": self.err("apply", n)
                return f"({r}.apply ({a}))", "V3"
            if f == "AABB.of_mesh" and len(A) == 1 and isinstance(A[0], ast.Name) and A[0].id == self.mesh: return f"(coordsOf {st} mi)", "Box"
            if f == "np.max" and len(A) == 1:
                a, t = self.E(A[0], st)
                if t != "Span" or not a.startswith("(span "): self.err("np.max of something else than the span of the box", n)
                return f"(maxSpan {a[6:-1]})", "Rat"
            if f == "sum" and len(A) == 1 and self.is_vertices(A[0]): return f"(sumV (coordsOf {st} mi))", "V3"
            if f == "len" and len(A) == 1 and self.is_vertices(A[0]): return f"((nVerts {st} mi : Nat) : Rat)", "Rat"
            if f in SIG:
                lean, ptypes = SIG[f]
                if not A: self.err("call without the mesh", n)
                inner = A[0]
                if isinstance(inner, ast.Name) and inner.id == self.mesh: s_in = st
                else:
                    s_in, t = self.E(inner, st)
                    if t != "State": self.err("first argument is not the mesh", n)
                pn = [a.arg for a in self.sigs[f].args.args][1:]
                vals = dict(zip(pn, A[1:]))
                for kw in n.keywords:
                    if kw.arg not in pn or kw.arg in vals: self.err("keyword", n)
                    vals[kw.arg] = kw.value
                args = []
                for p, w in zip(pn, ptypes):
                    if p not in vals:
                        if w == "OptV3": args.append("none"); continue
                        self.err(f"argument {p} not passed", n)
                    v = vals[p]
                    if w == "Bool" and isinstance(v, ast.Constant) and isinstance(v.value, bool): args.append("true" if v.value else "false"); continue
                    a, t = self.E(v, st)
                    if w == "OptV3" and t == "V3": a = f"(some {a})"
                    elif t != w: self.err(f"argument {p} is a {t}, expected {w}", n)
                    args.append(a)
                return f"({lean} mi {' '.join(args)} {s_in})".replace("  ", " "), "State"
        self.err("unsupported expression", n)

    def bind(self, name, a, t):
        self.nloc += 1
        v = f"v{self.nloc}"
        self.env[name] = (v, t)
        return v

    def S(self, stmts):
        if not stmts: self.err("falls off the end without returning the mesh")
        s, rest = stmts[0], stmts[1:]
        if isinstance(s, ast.Return):
            if isinstance(s.value, ast.Name) and s.value.id == self.mesh: return "s"
            a, t = self.E(s.value)
            if t != "State": self.err("does not return the mesh", s)
            return a
        if isinstance(s, ast.If):
            t = s.test
            # parameter default:  if <p> is None: <p> = e
            if isinstance(t, ast.Compare) and len(t.ops) == 1 and isinstance(t.ops[0], ast.Is):
                l, r = t.left, t.comparators[0]
                if isinstance(l, ast.Constant) and l.value is None: l, r = r, l
                if isinstance(l, ast.Name) and isinstance(r, ast.Constant) and r.value is None and l.id in self.env and not s.orelse:
                    p, pt = self.env[l.id]
                    if pt == "OptV3":
                        if not (len(s.body) == 1 and isinstance(s.body[0], ast.Assign) and isinstance(s.body[0].targets[0], ast.Name)
                                and s.body[0].targets[0].id == l.id):
                            self.err("default of the origin is not one assignment", s)
                        e, et = self.E(s.body[0].value)
                        if et != "V3": self.err("default origin is not a vector", s)
                        v = self.bind(l.id, None, "V3")
                        return f"let {v} : V3 := match {p} with\n  | some o => o\n  | none => {e}\n" + self.S(rest)
                    if pt == "Nat" and self.name == "flatten":
                        # `dim is None`: the dimension is chosen from the variances — outside the model (dim is always given);
                        # the block must not touch the mesh
                        for x in ast.walk(ast.Module(body=s.body, type_ignores=[])):
                            if isinstance(x, (ast.Assign, ast.AugAssign)):
                                for tg in (x.targets if isinstance(x, ast.Assign) else [x.target]):
                                    if not isinstance(tg, ast.Name): self.err("the `dim is None` block writes something else than locals", x)
                        return self.S(rest)
            if self.name == "rotate" and isinstance(t, ast.Call) and ast.unparse(t.func) == "isinstance":
                want = ("if isinstance(rot, np.ndarray):\n    assert rot.shape == (3, 3)\n    rot = Rotation.from_matrix(rot)\n"
                        "elif isinstance(rot, list) or isinstance(rot, tuple):\n    assert len(rot) == 3\n    rot = Rotation.from_euler('xyz', rot)\n"
                        "else:\n    assert isinstance(rot, Rotation)")
                pname = [k for k, v in self.env.items() if v[1] == "M3"][0]
                if ast.unparse(s).replace(pname, "rot") != want: self.err("coercion of the rotation argument not recognised", s)
                return self.S(rest)       # the model receives the rotation as its matrix
            if isinstance(t, ast.Name) and t.id in self.env and self.env[t.id][1] == "Bool":
                a = self.S(s.body + rest); b = self.S(s.orelse + rest)
                return f"if {self.env[t.id][0]} then\n{ind(a)}\nelse\n{ind(b)}"
            self.err("unsupported condition", s)
        if isinstance(s, ast.Assign) and len(s.targets) == 1 and isinstance(s.targets[0], ast.Name):
            a, t = self.E(s.value)
            if t not in ("V3", "Rat", "Box"): self.err(f"local bound to a {t}", s)
            v = self.bind(s.targets[0].id, a, t)
            return f"let {v} := {a}\n" + self.S(rest)
        if isinstance(s, ast.For):
            return self.loop(s) + "\n" + self.S(rest)
        self.err("unsupported statement", s)

    def loop(self, s):
        it = s.iter
        if not (isinstance(s.target, ast.Name) and isinstance(it, ast.Attribute) and it.attr == "id_vertices" and isinstance(it.value, ast.Name)
                and it.value.id == self.mesh and not s.orelse):
            self.err("loop is not `for i in mesh.id_vertices`", s)
        self.loopvar = s.target.id
        lines = []
        body = list(s.body)
        saved = dict(self.env)
        aliases = set()
        while len(body) > 1:
            b = body.pop(0)
            if isinstance(b, ast.Assign) and len(b.targets) == 1 and isinstance(b.targets[0], ast.Name):
                val = b.value
                if isinstance(val, ast.Call) and ast.unparse(val.func) == "Vec" and len(val.args) == 1: val = val.args[0]     # Vec(x) of an array is a view
                (aliases.add if self.is_vertex(val) else aliases.discard)(b.targets[0].id)
            if isinstance(b, ast.Assign) and len(b.targets) == 1 and isinstance(b.targets[0], ast.Subscript) \
                    and isinstance(b.targets[0].value, ast.Name) and b.targets[0].value.id in self.env \
                    and self.env[b.targets[0].value.id][1] == "V3" and self.env[b.targets[0].value.id][0].startswith("v"):
                # item assignment into a LOCAL copy (bound in this loop body by np.array(..)): a new value of the local
                if b.targets[0].value.id in aliases:
                    self.err("item assignment through a local that ALIASES the stored vector (in-place update: moves every mesh / array sharing it)", b)
                c, tc = self.E(b.targets[0].slice); a, t = self.E(b.value)
                if tc != "Nat" or t != "Rat": self.err("component assignment", b)
                old = self.env[b.targets[0].value.id][0]
                v = self.bind(b.targets[0].value.id, None, "V3")
                lines.append(f"let {v} := ({old}).set {c} {a}")
                continue
            if not (isinstance(b, ast.Assign) and len(b.targets) == 1 and isinstance(b.targets[0], ast.Name)): self.err("loop body: expected a local binding", b)
            a, t = self.E(b.value)
            if t not in ("V3", "Rat"): self.err(f"local bound to a {t}", b)
            v = self.bind(b.targets[0].id, a, t)
            lines.append(f"let {v} := {a}")
        st = body[0]
        if isinstance(st, ast.AugAssign): self.err("in-place update `mesh.vertices[i] op= e` (moves every mesh and array sharing the vector)", st)
        if not (isinstance(st, ast.Assign) and len(st.targets) == 1): self.err("loop body does not end with a store", st)
        tg = st.targets[0]
        if self.is_vertex(tg) and isinstance(tg.slice, ast.Name) and tg.slice.id == self.loopvar:
            a, t = self.E(st.value)
            if t != "V3": self.err("stores a non-vector", st)
            lines.append(f"setVertex s mi i {a}")
        elif isinstance(tg, ast.Subscript) and self.is_vertex(tg.value) and isinstance(tg.value.slice, ast.Name) and tg.value.slice.id == self.loopvar:
            c, tc = self.E(tg.slice)
            a, t = self.E(st.value)
            if tc != "Nat" or t != "Rat": self.err("component store", st)
            lines.append(f"editVertex s mi i {c} {a}")
        else:
            self.err("loop body does not store into mesh.vertices[i]", st)
        self.env = saved
        self.loopvar = None
        return "let s := (idVertices s mi).foldl (fun s i =>\n" + ind("\n".join(lines), 4) + ") s"

    def compile(self, sigs):
        self.sigs = sigs
        txt = self.S(_body(self.node))
        ps = "".join(f" ({a} : {LEAN_TY[t]})" for a, t in self.params)
        return f"/-- `{self.name}` -/\ndef {self.lean} (mi : Nat){ps} (s : State) : State :=\n{ind(txt)}\n"


def _merge(tree):
    """mesh.py::merge — accumulators and loop, statement by statement"""
    fn = T.find_def(tree, "merge")
    b = _body(fn)
    if len(b) != 5: raise TranslateError(f"merge: {len(b)} statements, expected 5")
    lst = fn.args.args[0].arg
    if ast.unparse(b[0]).replace(" ", "").replace("\n", "") not in (f"iflen({lst})==0:returnNone", f"ifnot{lst}:returnNone"):
        raise TranslateError("merge: empty-list guard not recognised")
    if not (isinstance(b[1], ast.Assign) and ast.unparse(b[1].value) == "RawMeshData()"): raise TranslateError("merge: accumulator mesh")
    acc = b[1].targets[0].id
    if not (isinstance(b[2], ast.Assign) and isinstance(b[2].value, ast.Constant) and b[2].value.value == 0): raise TranslateError("merge: offset initialisation")
    off = b[2].targets[0].id
    lp = b[3]
    if not (isinstance(lp, ast.For) and isinstance(lp.target, ast.Name) and isinstance(lp.iter, ast.Name) and lp.iter.id == lst and not lp.orelse):
        raise TranslateError("merge: loop over the inputs")
    m = lp.target.id
    if ast.unparse(b[4]).replace(" ", "") != f"return_instanciate_raw_mesh_data({acc})": raise TranslateError("merge: return")
    lines = []
    import re
    for st in lp.body:
        src = ast.unparse(st).replace(" ", "")
        if src == f"{acc}.vertices+=[np.array(v)forvin{m}.vertices]":
            lines.append("let acc := { acc with verts := acc.verts ++ payload m }")     # copies of the coordinates
            continue
        if isinstance(st, ast.If) and not st.orelse and len(st.body) == 1:
            t = ast.unparse(st.test).replace(" ", "").replace('"', "'")
            mm = re.fullmatch(rf"hasattr\({m},'(edges|faces|cells)'\)", t)
            if mm:
                kind = mm.group(1)
                got = ast.unparse(st.body[0]).replace(" ", "")
                g2 = re.fullmatch(rf"{acc}\.{kind}\+=\[tuple\(\((\w+)\+(\w+)for(\w+)in(\w+)\)\)for(\w+)in{m}\.{kind}\]", got)
                if g2:
                    x, y, u, e1, e2 = g2.groups()
                    if e1 == e2 and u in (x, y) and off in (x, y) and x != y:
                        lines.append(f"let acc := if hasKind m.{kind} then {{ acc with {kind} := acc.{kind} ++ shiftBy acc.offset m.{kind} }} else acc")
                        continue
            raise TranslateError(f"merge: element block not recognised: {ast.unparse(st)[:90]}")
        if src in (f"{off}+=len({m}.vertices)", f"{off}={off}+len({m}.vertices)", f"{off}=len({m}.vertices)+{off}"):
            lines.append("let acc := { acc with offset := acc.offset + m.verts.length }")
            continue
        raise TranslateError(f"merge: unexpected statement in the loop: {ast.unparse(st)[:90]}")
    return ("/-- `merge`: one iteration of `for to_merge in mesh_list` on the accumulators (`payload` = the copied coordinates) -/\n"
            "def mergeBody {α : Type} (payload : Mesh → List α) (acc : MergeAcc α) (m : Mesh) : MergeAcc α :=\n" + ind("\n".join(lines + ["acc"])) + "\n\n"
            "/-- `merge`: accumulators start empty, offset 0; the loop runs over the inputs in order -/\n"
            "def mergeRun {α : Type} (payload : Mesh → List α) (ms : List Mesh) : MergeAcc α :=\n"
            "  ms.foldl (mergeBody payload) { offset := 0, verts := [], edges := [], faces := [], cells := [] }\n")


def _copy(tree):
    """mesh.py::copy — `copy_mesh = type(mesh)()`, the two branches of `copy_attributes`, the connectivity statement, `return copy_mesh`:
    every assignment becomes one CopyField row (target path, source path, how, hasattr guard), in statement order"""
    fn = T.find_def(tree, "copy")
    b = [x for x in _body(fn) if not isinstance(x, (ast.Import, ast.ImportFrom))]
    args = [a.arg for a in fn.args.args]
    if len(args) != 3: raise TranslateError(f"copy: {len(args)} parameters, expected 3")
    src, p_attr, p_conn = args
    if len(b) != 4: raise TranslateError(f"copy: {len(b)} statements, expected 4")
    if not (isinstance(b[0], ast.Assign) and isinstance(b[0].targets[0], ast.Name) and ast.unparse(b[0].value) == f"type({src})()"):
        raise TranslateError("copy: the copy does not start as a new empty mesh of the same class (`type(mesh)()`)")
    dst = b[0].targets[0].id
    if not (isinstance(b[3], ast.Return) and ast.unparse(b[3].value) == dst): raise TranslateError("copy: does not return the new mesh")

    def how_of(val, path):
        u = ast.unparse(val).replace(" ", "")
        want = f"{src}.{path}"
        if u == f"deepcopy({want})": return path, "deep"
        if u == f"deepcopy({want},{{id({src}):{dst}}})": return path, "deepMemo"
        if u == want: return path, "ref"
        if isinstance(val, ast.Call) and len(val.args) >= 1 and ast.unparse(val.args[0]).replace(" ", "").startswith(src + "."):
            sp = ast.unparse(val.args[0]).replace(" ", "")[len(src) + 1:]
            f = ast.unparse(val.func)
            if f in ("list", "copy", "copy.copy", "tuple", "np.array") and len(val.args) == 1: return sp, "shallow"
            if f == "deepcopy" and len(val.args) == 1: return sp, "deep"
        if isinstance(val, ast.Subscript) and ast.unparse(val.value).replace(" ", "") == want: return path, "shallow"
        raise TranslateError(f"copy: right-hand side not understood: {ast.unparse(val)[:80]}")

    def rows(stmts, guard=""):
        out = []
        for st in stmts:
            if isinstance(st, ast.Assign) and len(st.targets) == 1 and ast.unparse(st.targets[0]).startswith(dst + "."):
                path = ast.unparse(st.targets[0])[len(dst) + 1:]
                sp, how = how_of(st.value, path)
                out.append((path, sp, how, guard))
            elif isinstance(st, ast.If) and not st.orelse and not guard:
                t = ast.unparse(st.test).replace(" ", "").replace('"', "'")
                pre, post = f"hasattr({src},'", "')"
                if not (t.startswith(pre) and t.endswith(post)): raise TranslateError(f"copy: guard not understood: {ast.unparse(st.test)[:60]}")
                out += rows(st.body, t[len(pre):-len(post)])
            else:
                raise TranslateError(f"copy: statement not understood: {ast.unparse(st)[:80]}")
        return out
    br = b[1]
    if not (isinstance(br, ast.If) and isinstance(br.test, ast.Name) and br.test.id == p_attr and br.orelse):
        raise TranslateError("copy: `if copy_attributes: … else: …` not found")
    attrB, dataB = rows(br.body), rows(br.orelse)
    cn = b[2]
    t = ast.unparse(cn.test).replace(" ", "").replace('"', "'") if isinstance(cn, ast.If) else ""
    if not (isinstance(cn, ast.If) and not cn.orelse and t in (f"{p_conn}andhasattr({src},'connectivity')", f"hasattr({src},'connectivity')and{p_conn}")):
        raise TranslateError("copy: `if copy_connectivity and hasattr(mesh, 'connectivity'):` not found")
    connB = rows(cn.body, "connectivity")

    def tbl(name, doc, rs):
        items = ", ".join(f'⟨"{a}", "{b_}", .{c}, "{d}"⟩' for a, b_, c, d in rs)
        return f"/-- {doc} -/\ndef {name} : List CopyField := [{items}]\n"
    return ("/-- `copy`: `copy_mesh = type(mesh)()` -/\ndef copyFresh : Bool := true\n"
            + tbl("copyAttrBranch", "`copy`, branch `copy_attributes` (whole containers)", attrB)
            + tbl("copyDataBranch", "`copy`, default branch (the data fields of the containers only)", dataB)
            + tbl("copyConnBranch", "`copy`, under `copy_connectivity and hasattr(mesh, 'connectivity')`", connB)
            + "/-- `copy` -/\ndef copy (i : Nat) (attrs conn : Bool) (s : StateX) : StateX :=\n"
              "  copyByTables copyFresh copyAttrBranch copyDataBranch copyConnBranch s i attrs\n")


def _from_arrays(tree):
    """mesh.py::from_arrays, statement by statement: accumulator `m = RawMeshData()`, the column guard / padding of V, the copying vertex
    extension, the guarded element blocks (index range check, shape check, extension), both returns.  `raise` = `none`."""
    fn = T.find_def(tree, "from_arrays")
    args = [a.arg for a in fn.args.args]
    if len(args) != 5: raise TranslateError(f"from_arrays: {len(args)} parameters, expected 5")
    pV, pE, pF, pC, pRaw = args
    env = {pV: "a0", pE: "a1", pF: "a2", pC: "a3"}
    kindvar = {pE: "edges", pF: "faces", pC: "cells"}
    b = _body(fn)
    if not (b and isinstance(b[0], ast.Assign) and isinstance(b[0].targets[0], ast.Name) and ast.unparse(b[0].value) == "RawMeshData()"):
        raise TranslateError("from_arrays: accumulator `m = RawMeshData()` not found")
    acc = b[0].targets[0].id
    state = {"V": "a0", "nloc": 0, "n": None}

    def u(x): return ast.unparse(x).replace(" ", "").replace('"', "'")

    def cond(t, arr_name):
        """comparisons on <arr>.shape[1] and np.any(np.asarray(<arr>) >= n)"""
        if isinstance(t, ast.Compare) and len(t.ops) == 1:
            l, r, op = t.left, t.comparators[0], t.ops[0]
            if isinstance(op, (ast.Gt, ast.GtE)):           # a > b  =  b < a
                l, r = r, l; op = ast.Lt() if isinstance(op, ast.Gt) else ast.LtE()

            def atom(x):
                if isinstance(x, ast.Constant) and isinstance(x.value, int): return str(x.value)
                if u(x).endswith(".shape[1]") and u(x)[:-9] in env:
                    nm = u(x)[:-9]
                    return (state["V"] if nm == pV else env[nm] + "v") + ".cols"
                raise TranslateError(f"from_arrays: operand not understood: {u(x)[:60]}")
            sym = {ast.Lt: "<", ast.LtE: "≤", ast.Eq: "=", ast.NotEq: "≠"}.get(type(op))
            if sym is None: raise TranslateError("from_arrays: comparison")
            return f"decide ({atom(l)} {sym} {atom(r)})"
        if isinstance(t, ast.Call) and u(t.func) == "np.any" and len(t.args) == 1:
            c = t.args[0]
            if isinstance(c, ast.Compare) and len(c.ops) == 1 and isinstance(c.ops[0], ast.GtE) and u(c.comparators[0]) == state["n"][0]:
                inner = u(c.left)
                for nm in kindvar:
                    if inner in (f"np.asarray({nm})", nm): return f"({env[nm]}v.anyGe {state['n'][1]})"
        raise TranslateError(f"from_arrays: condition not understood: {u(t)[:80]}")

    def S(stmts):
        if not stmts: raise TranslateError("from_arrays: falls off the end")
        st, rest = stmts[0], stmts[1:]
        if isinstance(st, ast.Return):
            if u(st.value) in (acc, f"_instanciate_raw_mesh_data({acc})"): return "some (instanciate s m)"
            raise TranslateError(f"from_arrays: return value not understood: {u(st.value)[:60]}")
        if isinstance(st, ast.Raise): return "none"
        if isinstance(st, ast.If):
            t = st.test
            # `if X is not None:` element block
            if isinstance(t, ast.Compare) and isinstance(t.ops[0], (ast.IsNot,)) and isinstance(t.left, ast.Name) and t.left.id in kindvar \
                    and isinstance(t.comparators[0], ast.Constant) and t.comparators[0].value is None and not st.orelse:
                v = env[t.left.id]
                inner = S(st.body + rest)
                return f"match {v} with\n| none =>\n{ind(S(rest))}\n| some {v}v =>\n{ind(inner)}"
            if isinstance(t, ast.Name) and t.id == pRaw:
                return f"if raw then\n{ind(S(st.body + rest))}\nelse\n{ind(S(st.orelse + rest))}"
            c = cond(t, None)
            return f"if {c} then\n{ind(S(st.body + rest))}\nelse\n{ind(S(st.orelse + rest))}"
        if isinstance(st, ast.Assign) and len(st.targets) == 1 and isinstance(st.targets[0], ast.Name):
            tg, val = st.targets[0].id, st.value
            if tg == pV and u(val) in (f"np.pad({pV},((0,0),(0,3-{pV}.shape[1])))",):
                state["nloc"] += 1
                old = state["V"]; state["V"] = f"v{state['nloc']}"
                out = f"let {state['V']} := {old}.padRight (3 - {old}.cols)\n" + S(rest)
                state["V"] = old
                return out
            if u(val) == f"{pV}.shape[0]":
                state["nloc"] += 1
                oldn = state["n"]; state["n"] = (tg, f"v{state['nloc']}")
                out = f"let v{state['nloc']} := {state['V']}.rows.length\n" + S(rest)
                state["n"] = oldn
                return out
        if isinstance(st, ast.AugAssign) and isinstance(st.op, ast.Add) and u(st.target).startswith(acc + "."):
            fld = u(st.target)[len(acc) + 1:]
            val = u(st.value)
            if fld == "vertices":
                if val not in (f"list(np.array({pV}))", f"list({pV}.copy())", f"list(np.copy({pV}))"):
                    raise TranslateError(f"from_arrays: the vertex rows are not stored through a COPY of the caller's array: {val[:60]}")
                return f"let m := {{ m with verts := m.verts ++ {state['V']}.toV3 }}\n" + S(rest)
            for nm, kind in kindvar.items():
                if fld == kind and val in (f"list({nm})", f"list(np.array({nm}))"):
                    return f"let m := {{ m with {kind} := m.{kind} ++ {env[nm]}v.rows }}\n" + S(rest)
            raise TranslateError(f"from_arrays: extension not understood: {u(st)[:80]}")
        raise TranslateError(f"from_arrays: statement not understood: {ast.unparse(st)[:80]}")
    txt = "let m : RawAcc := {}\n" + S(b[1:])
    return ("/-- `from_arrays` (`none` = an exception) -/\n"
            "def fromArrays (a0 : ArrV) (a1 a2 a3 : Option ArrI) (raw : Bool) (s : State) : Option State :=\n" + ind(txt) + "\n")


def _reorder(tree):
    """mesh.py::reorder_vertices: `ind = np.argsort(new_indices)`, the vertex loop APPENDS THE STORED VECTOR OBJECTS of the input mesh in
    the new order (no copy), the element loops relabel through `ind`."""
    fn = T.find_def(tree, "reorder_vertices")
    args = [a.arg for a in fn.args.args]
    if len(args) != 2: raise TranslateError("reorder_vertices: parameters")
    m, p = args
    b = _body(fn)

    def u(x): return ast.unparse(x).replace(" ", "")
    if len(b) != 8: raise TranslateError(f"reorder_vertices: {len(b)} statements, expected 8")
    if not (isinstance(b[0], ast.Assert) and u(b[0].test) in (f"len({p})==len({m}.vertices)", f"len({m}.vertices)==len({p})")):
        raise TranslateError("reorder_vertices: length assertion")
    if not (isinstance(b[1], ast.Assign) and u(b[1].value) == f"np.argsort({p})"): raise TranslateError("reorder_vertices: argsort")
    inv = b[1].targets[0].id
    if not (isinstance(b[2], ast.Assign) and u(b[2].value) == "RawMeshData()"): raise TranslateError("reorder_vertices: accumulator")
    acc = b[2].targets[0].id
    lp = b[3]
    if not (isinstance(lp, ast.For) and isinstance(lp.target, ast.Name) and u(lp.iter) == f"{m}.id_vertices" and len(lp.body) == 1):
        raise TranslateError("reorder_vertices: vertex loop")
    v = lp.target.id
    got = u(lp.body[0])
    if got == f"{acc}.vertices.append({m}.vertices[{p}[{v}]])": share = True
    elif got in (f"{acc}.vertices.append(np.array({m}.vertices[{p}[{v}]]))", f"{acc}.vertices.append(Vec(np.array({m}.vertices[{p}[{v}]])))"):
        share = False
    else: raise TranslateError(f"reorder_vertices: vertex statement not understood: {got[:80]}")
    import re
    kinds = []
    for st, kind in zip(b[4:7], ("edges", "faces", "cells")):
        if not (isinstance(st, ast.If) and u(st.test).replace('"', "'") == f"hasattr({m},'{kind}')" and len(st.body) == 1
                and isinstance(st.body[0], ast.For) and u(st.body[0].iter) == f"{m}.{kind}" and len(st.body[0].body) == 1):
            raise TranslateError(f"reorder_vertices: block for {kind}")
        f = st.body[0]
        got = u(f.body[0])
        if isinstance(f.target, ast.Tuple) and len(f.target.elts) == 2:
            x, y = (e.id for e in f.target.elts)
            ok = got == f"{acc}.{kind}.append(({inv}[{x}],{inv}[{y}]))"
        else:
            x = f.target.id
            ok = re.fullmatch(rf"{acc}\.{kind}\.append\(\[{inv}\[(\w+)\]for\1in{x}\]\)", got) is not None
        if not ok: raise TranslateError(f"reorder_vertices: element statement for {kind} not understood: {got[:80]}")
        kinds.append(kind)
    if u(b[7]) != f"return_instanciate_raw_mesh_data({acc})": raise TranslateError("reorder_vertices: return")
    vert = ("verts := (idVertices s mi).map (fun v => m.verts.getD (a1.getD v 0) 0)" if share else None)
    if share:
        body = ("  match s.meshes[mi]? with\n  | none => s\n  | some m =>\n"
                "    let ind := argsortPerm a1\n"
                "    -- `raw.vertices.append(mesh.vertices[new_indices[v]])`: the stored vector OBJECTS, in the new order (shared with the input)\n"
                "    let verts := (idVertices s mi).map (fun v => m.verts.getD (a1.getD v 0) 0)\n"
                "    let rel := fun (l : List (List Nat)) => l.map (fun e => e.map (fun u => ind.getD u 0))\n"
                "    { s with meshes := s.meshes ++ [{ verts := verts, edges := rel m.edges, faces := rel m.faces, cells := rel m.cells }] }\n")
    else:
        body = ("  match s.meshes[mi]? with\n  | none => s\n  | some m =>\n"
                "    let ind := argsortPerm a1\n"
                "    let rel := fun (l : List (List Nat)) => l.map (fun e => e.map (fun u => ind.getD u 0))\n"
                "    newMesh s ((idVertices s mi).map (fun v => deref s.heap (m.verts.getD (a1.getD v 0) 0))) (rel m.edges) (rel m.faces) (rel m.cells)\n")
    return ("/-- `reorder_vertices` (the length assertion is a precondition) -/\n"
            "def reorderVertices (mi : Nat) (a1 : List Nat) (s : State) : State :=\n" + body)


def _raw_and_instanciate(mtree, dtree, btree):
    """mesh_data.py::RawMeshData.__init__ (the four data containers), ::_compute_dimensionality, mesh.py::_instanciate_raw_mesh_data,
    datatypes/base.py::Mesh.__init__ (which containers of the raw data the typed mesh is built around), mesh.py::load"""
    def u(x): return ast.unparse(x).replace(" ", "").replace('"', "'")
    out = []
    # ---- RawMeshData.__init__
    fn = T.find_def(dtree, "RawMeshData.__init__")
    args = [a.arg for a in fn.args.args]
    if len(args) != 2: raise TranslateError("RawMeshData.__init__: parameters")
    m = args[1]
    got = {}
    for st in _body(fn):
        if isinstance(st, ast.AnnAssign): st = ast.Assign(targets=[st.target], value=st.value)
        if not (isinstance(st, ast.Assign) and isinstance(st.targets[0], ast.Attribute) and u(st.targets[0].value) == "self"):
            raise TranslateError(f"RawMeshData.__init__: statement not understood: {u(st)[:70]}")
        fld, val = st.targets[0].attr, st.value
        if fld in ("_dimensionality", "_prepared"): continue
        if not isinstance(val, ast.IfExp): raise TranslateError(f"RawMeshData.__init__: {fld} is not `<new container> if … else mesh.{fld}`")
        new_ok = u(val.body) in (f"DataContainer(id='{fld}')", f"CornerDataContainer(id='{fld}')")
        t = u(val.test)
        test_ok = t == f"{m}isNone" if fld == "vertices" else t in (f"({m}isNoneornothasattr({m},'{fld}'))", f"{m}isNoneornothasattr({m},'{fld}')")
        if not new_ok or not test_ok: raise TranslateError(f"RawMeshData.__init__: {fld}: {u(val)[:90]}")
        e = u(val.orelse)
        if e == f"{m}.{fld}": got[fld] = "ref"
        elif e in (f"deepcopy({m}.{fld})", f"copy.deepcopy({m}.{fld})"): got[fld] = "deep"
        else: raise TranslateError(f"RawMeshData.__init__: {fld} taken from {e[:60]}")
    want = ["vertices", "edges", "faces", "face_corners", "cells", "cell_corners", "cell_faces"]
    if sorted(got) != sorted(want): raise TranslateError(f"RawMeshData.__init__: containers {sorted(got)}")
    if any(v != "ref" for v in got.values()):
        raise TranslateError(f"RawMeshData.__init__: some containers are copied, others shared: {got}")       # (the vocabulary has one `Raw` record of references)
    out.append("/-- `RawMeshData.__init__(mesh)`: new empty containers, or — re-wrapping a mesh — THE CONTAINER OBJECTS OF THAT MESH (shared, not\n"
               "copied); a container the mesh does not have is a new empty one (= the empty list of the model) -/\n"
               "def rawInit (a0 : Option Mesh) : Raw :=\n  match a0 with\n  | none => Raw.empty\n"
               "  | some m => { verts := m.verts, edges := m.edges, faces := m.faces, cells := m.cells }\n")
    # ---- _compute_dimensionality
    fn = T.find_def(dtree, "RawMeshData._compute_dimensionality")
    b = _body(fn)
    chain, node = [], b[0] if len(b) == 1 else None
    while isinstance(node, ast.If):
        t = u(node.test)
        mm = [k for k in ("cells", "faces", "edges") if t == f"notself.{k}.empty()"]
        if not mm or len(node.body) != 1 or not u(node.body[0]).startswith("self._dimensionality="): raise TranslateError("_compute_dimensionality: branch")
        chain.append((mm[0], int(u(node.body[0]).split("=")[1])))
        if len(node.orelse) == 1 and isinstance(node.orelse[0], ast.If): node = node.orelse[0]
        else:
            if len(node.orelse) != 1 or not u(node.orelse[0]).startswith("self._dimensionality="): raise TranslateError("_compute_dimensionality: else")
            chain.append((None, int(u(node.orelse[0]).split("=")[1]))); node = None
    if not chain or chain[-1][0] is not None: raise TranslateError("_compute_dimensionality: shape")
    txt = "  " + " else ".join((f"if hasKind raw.{k} then {v}" if k else str(v)) for k, v in chain)
    out.append("/-- `RawMeshData._compute_dimensionality` (cached by the `dimensionality` property) -/\ndef rawDim (raw : Raw) : Int :=\n" + txt + "\n")
    # ---- Mesh.__init__(dim, data): which containers the typed mesh is built around
    fn = T.find_def(btree, "Mesh.__init__")
    uses = {}
    def walk(stmts, guard):
        for st in stmts:
            if isinstance(st, ast.If) and u(st.test) == "dataisNone": walk(st.body, guard); walk(st.orelse, guard); continue
            if isinstance(st, ast.If) and u(st.test).startswith("dim>") and not st.orelse: walk(st.body, int(u(st.test)[4:])); continue
            if isinstance(st, ast.Assign) and u(st.targets[0]).startswith("self.") and u(st.value).startswith("data."):
                fld = u(st.targets[0])[5:]
                if u(st.value) != f"data.{fld}": raise TranslateError(f"Mesh.__init__: self.{fld} = {u(st.value)}")
                uses[fld] = guard; continue
            if u(st) in ("data=RawMeshData()", "data.prepare()"): continue
            if isinstance(st, ast.Assign) and not u(st.value).startswith(("data.", "deepcopy(data", "copy(")): continue      # other fields of the mesh object
            raise TranslateError(f"Mesh.__init__: statement not understood: {u(st)[:70]}")
    walk(_body(fn), -1)
    if {k: uses.get(k) for k in ("vertices", "edges", "faces", "cells")} != {"vertices": -1, "edges": 0, "faces": 1, "cells": 2}:
        raise TranslateError(f"Mesh.__init__: containers / dimension guards {uses}")
    out.append("/-- `Mesh.__init__(dim, data)`: the typed mesh is built AROUND the containers of `data` (references, no copy): `vertices` always,\n"
               "`edges` if dim > 0, `faces` if dim > 1, `cells` if dim > 2 -/\n"
               "def typedMesh (dim : Int) (raw : Raw) : Mesh :=\n"
               "  { verts := raw.verts, edges := if dim > 0 then raw.edges else [], faces := if dim > 1 then raw.faces else [],\n"
               "    cells := if dim > 2 then raw.cells else [] }\n")
    # ---- _instanciate_raw_mesh_data
    fn = T.find_def(mtree, "_instanciate_raw_mesh_data")
    a = [x.arg for x in fn.args.args]
    if len(a) != 2: raise TranslateError("_instanciate_raw_mesh_data: parameters")
    d, dm = a
    b = _body(fn)
    ok = (len(b) == 7 and u(b[0]) == f"{d}.prepare()" and u(b[1]).replace("\n", "") in (f"if{dm}isNone:{dm}=-1",)
          and u(b[2]) in (f"{dm}=max({dm},{d}.dimensionality)", f"{dm}=max({d}.dimensionality,{dm})"))
    cls = []
    for st, (k, c) in zip(b[3:], enumerate(["PointCloud", "PolyLine", "SurfaceMesh", "VolumeMesh"])):
        if u(st).replace("\n", "") not in (f"if{dm}=={k}:return{c}({d})", f"if{k}=={dm}:return{c}({d})"): ok = False
    if not ok: raise TranslateError("_instanciate_raw_mesh_data: body not recognised: " + " ; ".join(u(x)[:40] for x in b))
    out.append("/-- `_instanciate_raw_mesh_data(mesh_data, dim)`: `prepare()` (C02; the coordinates keep their cells), the class is\n"
               "`max(dim or -1, dimensionality)`; a dimension above 3 falls off the end (returns None) -/\n"
               "def instanciateRaw (raw : Raw) (a1 : Option Int) : Option (Int × Mesh) :=\n"
               "  let v1 : Int := match a1 with\n    | none => -1\n    | some d => d\n"
               "  let v2 := max v1 (rawDim raw)\n"
               "  if v2 = 0 then some (0, typedMesh 0 raw) else if v2 = 1 then some (1, typedMesh 1 raw)\n"
               "  else if v2 = 2 then some (2, typedMesh 2 raw) else if v2 = 3 then some (3, typedMesh 3 raw) else none\n")
    # ---- load
    fn = T.find_def(mtree, "load")
    a = [x.arg for x in fn.args.args]
    b = _body(fn)
    if not (len(a) == 3 and len(b) == 3 and u(b[0]).endswith(f"=read_by_extension({a[0]})") and isinstance(b[0], ast.Assign)):
        raise TranslateError("load: `data = read_by_extension(filename)` not found")
    dv = b[0].targets[0].id
    if u(b[1]).replace("\n", "") != f"if{a[2]}:return{dv}" or u(b[2]) != f"return_instanciate_raw_mesh_data({dv},{a[1]})":
        raise TranslateError("load: returns not recognised")
    out.append("/-- `load(filename, dim, raw)`: the raw data read from the file (`readFile`: new vector objects), returned as it is or typed by\n"
               "`_instanciate_raw_mesh_data`; the typed mesh is built around the SAME containers, so either way the state gains one mesh -/\n"
               "def load (vs : List V3) (e f c : List (List Nat)) (a1 : Option Int) (a2 : Bool) (s : State) : State :=\n"
               "  let v1 := readFile s vs e f c\n  if a2 then v1 else v1\n")
    return "\n".join(out)


def _prepare_vertices(dtree):
    """mesh_data.py::RawMeshData._prepare_vertices: per vertex, a VIEW of the stored object, replaced by a NEW array when the vertex is
    planar (padding) or of integer / boolean kind (conversion), then stored back"""
    fn = T.find_def(dtree, "RawMeshData._prepare_vertices")
    b = _body(fn)

    def u(x): return ast.unparse(x).replace(" ", "").replace('"', "'")
    if not (len(b) == 1 and isinstance(b[0], ast.For) and isinstance(b[0].target, ast.Name) and u(b[0].iter) == "self.id_vertices"):
        raise TranslateError("_prepare_vertices: loop over self.id_vertices not found")
    iv = b[0].target.id
    body = _body(b[0])
    if len(body) < 2 or not (isinstance(body[0], ast.Assign) and isinstance(body[0].targets[0], ast.Name)):
        raise TranslateError("_prepare_vertices: first statement")
    v = body[0].targets[0].id
    first = u(body[0].value)
    if first == f"Vec(self.vertices[{iv}])" or first == f"self.vertices[{iv}]": lines = ["let v := VRef.view"]
    elif first in (f"Vec(np.array(self.vertices[{iv}]))", f"np.array(self.vertices[{iv}])", f"Vec(self.vertices[{iv}].copy())"): lines = ["let v := VRef.new"]
    else: raise TranslateError(f"_prepare_vertices: first binding not understood: {first[:70]}")
    for st in body[1:-1]:
        if not (isinstance(st, ast.If) and not st.orelse and len(st.body) == 1 and isinstance(st.body[0], ast.Assign) and u(st.body[0].targets[0]) == v):
            raise TranslateError(f"_prepare_vertices: statement not understood: {u(st)[:70]}")
        t, val = u(st.test), u(st.body[0].value)
        if t in (f"{v}.ndim==1and{v}.size<3", f"{v}.size<3and{v}.ndim==1") and val in (f"Vec(np.pad({v},(0,3-{v}.size)))", f"np.pad({v},(0,3-{v}.size))"):
            lines.append("let v := if planar i then VRef.new else v")
        elif t == f"{v}.dtype.kindin'iub'" and val in (f"Vec({v}.astype(np.float64))", f"{v}.astype(np.float64)", f"Vec({v}.astype(float))"):
            lines.append("let v := if intKind i then VRef.new else v")
        else: raise TranslateError(f"_prepare_vertices: branch not understood: if {t[:50]}: {val[:50]}")
    if u(body[-1]) != f"self.vertices[{iv}]={v}": raise TranslateError("_prepare_vertices: the vertex is not stored back")
    lines.append("storeVRef s mi i v")
    return ("/-- `RawMeshData._prepare_vertices` (`planar i` / `intKind i`: vertex `i` has fewer than 3 components / an integer or boolean dtype) -/\n"
            "def prepareVertices (planar intKind : Nat → Bool) (mi : Nat) (s : State) : State :=\n"
            "  (idVertices s mi).foldl (fun s i =>\n" + ind("\n".join(lines), 6) + ") s\n")


def _producer_sites(tree, name):
    """procedural producers: every statement that stores a vertex (`<acc>.vertices.append(e)` / `<acc>.vertices[k] = e`), in source order,
    with the provenance of the stored object; a plain name must have been (re)bound to a new object since it was last stored"""
    fn = T.find_def(tree, name)
    b = _body(fn)
    if not (b and isinstance(b[0], ast.Assign) and ast.unparse(b[0].value) == "RawMeshData()"): raise TranslateError(f"{name}: accumulator")
    acc = b[0].targets[0].id
    sites = []
    state = {}       # local name -> "fresh" | "copy" | "alias" | "stored"

    def u(x): return ast.unparse(x).replace(" ", "")

    def prov(e):
        if isinstance(e, ast.Call) and u(e.func) == "Vec":
            if len(e.args) >= 2: return "fresh"
            if len(e.args) == 1:
                a = e.args[0]
                if isinstance(a, ast.Call) and isinstance(a.func, ast.Attribute) and a.func.attr == "copy" and not a.args: return "copy"
                if isinstance(a, ast.Call) and u(a.func) in ("np.array", "np.copy"): return "copy"
                if isinstance(a, (ast.BinOp, ast.List, ast.Tuple)): return "fresh"
                return "alias"                                   # Vec(x) of an existing array is a VIEW
        if isinstance(e, ast.BinOp): return "fresh"              # numpy arithmetic returns a new array
        if isinstance(e, ast.Call) and u(e.func) in ("rotate_2d", "np.array", "np.zeros", "Vec.zeros", "Vec.normalized"): return "fresh"
        if isinstance(e, ast.Name): return state.get(e.id, "alias")
        return "alias"

    def walk(stmts, in_loop):
        for st in stmts:
            if isinstance(st, ast.Assign) and len(st.targets) == 1 and isinstance(st.targets[0], ast.Name):
                state[st.targets[0].id] = prov(st.value)
            elif isinstance(st, ast.Expr) and isinstance(st.value, ast.Call) and u(st.value.func) == f"{acc}.vertices.append" and len(st.value.args) == 1:
                e = st.value.args[0]
                p = prov(e)
                sites.append((u(st)[:60], p))
                if isinstance(e, ast.Name): state[e.id] = "alias"        # the object is now stored: storing the same name again would alias
            elif isinstance(st, ast.Assign) and isinstance(st.targets[0], ast.Subscript) and u(st.targets[0].value) == f"{acc}.vertices":
                sites.append((u(st)[:60], prov(st.value)))
            elif isinstance(st, (ast.For, ast.While)):
                walk(st.body, True)
                walk(st.body, True)          # a second pass: a name stored in one iteration must be rebound before the next store
                sites[:] = list(dict.fromkeys(sites)) if False else sites
            elif isinstance(st, ast.If):
                walk(st.body, in_loop); walk(st.orelse, in_loop)
    walk(b[1:], False)
    # the loop bodies were walked twice: keep the WORST provenance seen per site text
    worst = {}
    order = []
    for t, p in sites:
        if t not in worst: order.append(t)
        rank = {"fresh": 0, "copy": 1, "alias": 2}
        if t not in worst or rank[p] > rank[worst[t]]: worst[t] = p
    if not order: raise TranslateError(f"{name}: no vertex store found")
    last = b[-1]
    if not (isinstance(last, ast.Return) and u(last.value).startswith(f"_instanciate_raw_mesh_data({acc}")):
        raise TranslateError(f"{name}: does not return the instanciated accumulator")
    lean = name.replace("_r", "R") if name == "flat_ring" else name
    items = ", ".join('("' + t.replace('"', "'") + '", .' + worst[t] + ')' for t in order)
    return (f"/-- `{name}`: the statements that store a vertex, with the provenance of the stored object -/\n"
            f"def {lean}VertexSites : List (String × Prov) := [{items}]\n"
            f"/-- `{name}` over an abstract point list (the trigonometry is not modelled): the mesh it returns -/\n"
            f"def {lean} (pts : List V3) (e f : List (List Nat)) (s : State) : State := producerByTable {lean}VertexSites pts e f [] s\n")


def translate_sites():
    sites, chunks, status = [], [], {}
    try:
        ttree, _ = T.load(TRANSFORM_FILE)
        mtree, _ = T.load(MESH_FILE)
    except Exception as e:  # noqa
        return [{"site": "C06Src: load", "ok": False, "detail": repr(e)}], None, {}
    sigs = {}
    for name, _, _ in FUNCS:
        try: sigs[name] = T.find_def(ttree, name)
        except TranslateError: pass

    # order: callees first
    for name in ["translate", "scale", "rotate", "scale_xyz", "flatten", "normalize", "fit_into_unit_cube", "translate_to_origin"]:
        def run(name=name):
            txt = Fn(name, T.find_def(ttree, name)).compile(sigs)
            chunks.append(txt)
            return f"{len(txt.splitlines()) - 2} lines"
        rec = T.site(f"transform.py:{name} (body)", run)
        sites.append(rec); status[name] = rec["ok"]

    def mg():
        chunks.append(_merge(mtree)); return "accumulators, guards, offset advanced last"
    rec = T.site("mesh.py:merge (body)", mg)
    sites.append(rec); status["merge"] = rec["ok"]

    def cp():
        chunks.append(_copy(mtree)); return "fresh mesh; attribute / data branches; connectivity through deepcopy with memo"
    rec = T.site("mesh.py:copy (body)", cp)
    sites.append(rec); status["copy"] = rec["ok"]

    def fa():
        chunks.append(_from_arrays(mtree)); return "accumulator, column guard / padding, copying vertex extension, guarded element blocks"
    rec = T.site("mesh.py:from_arrays (body)", fa)
    sites.append(rec); status["from_arrays"] = rec["ok"]

    def ro():
        chunks.append(_reorder(mtree)); return "argsort, vertex loop (stored objects appended), relabelled elements"
    rec = T.site("mesh.py:reorder_vertices (body)", ro)
    sites.append(rec); status["reorder_vertices"] = rec["ok"]

    def ri():
        dtree, _ = T.load("mouette/mesh/mesh_data.py")
        btree, _ = T.load("mouette/mesh/datatypes/base.py")
        chunks.append(_raw_and_instanciate(mtree, dtree, btree)); chunks.append(_prepare_vertices(dtree)); return "re-wrap shares the containers; class = max(dim, dimensionality); load"
    rec = T.site("mesh_data.py:RawMeshData.__init__ / _compute_dimensionality, base.py:Mesh.__init__, mesh.py:_instanciate_raw_mesh_data / load (bodies)", ri)
    sites.append(rec); status["instanciate"] = rec["ok"]

    def rg():
        rtree, _ = T.load("mouette/procedural/rings.py")
        chunks.append(_producer_sites(rtree, "ring") + "\n" + _producer_sites(rtree, "flat_ring")); return "vertex store sites with provenance"
    rec = T.site("rings.py:ring / flat_ring (vertex store sites)", rg)
    sites.append(rec); status["rings"] = rec["ok"]
    if all(r["ok"] for r in sites):
        body = ("import Mouette.Model.MeshSource\nnamespace Mouette.Generated.C06Src\nopen Mouette.MeshHeap Mouette.MeshSrc\n"
                "set_option linter.unusedVariables false\n\n" + "\n".join(chunks) + "\nend Mouette.Generated.C06Src\n")
        return sites, body, status
    return sites, None, status
