"""C18, round 2: translated fragments of the VERTEX-based frame field and of the connection / operator formulas.

Every site is re-read from $MOUETTE_REPO with Python `ast`; float expressions become Lean terms over `Rat` in which every
angle is measured in TURNS: the atom `pi` (np.pi, math.pi, pi) is emitted as `(1/2 : Rat)`, so `2*pi` is one turn.
Output: lean/Mouette/Generated/C18Vertex.lean (core Lean only). A site whose shape is not recognised -> ok: False."""
import ast
from fractions import Fraction

from .. import translate as T

VERTS = "mouette/processing/framefield/vertex2d.py"
CONN = "mouette/processing/connection.py"
LAP = "mouette/operators/laplacian_op.py"
MATHS = "mouette/utils/maths.py"
ATTRF = "mouette/attributes/attr_faces.py"

HALF = "((1 : Rat) / 2)"


def dotted(node):
    if isinstance(node, ast.Name): return node.id
    if isinstance(node, ast.Attribute):
        b = dotted(node.value)
        return None if b is None else b + "." + node.attr
    return None


def expr(node, atoms):
    """float arithmetic expression -> Lean Rat term. `atoms(node)` returns a Lean name for a leaf sub-expression or None."""
    a = atoms(node)
    if a is not None:
        return a
    d = dotted(node)
    if d in ("pi", "np.pi", "math.pi", "numpy.pi"):
        return HALF
    if isinstance(node, ast.Constant) and isinstance(node.value, (int, float)) and not isinstance(node.value, bool):
        fr = Fraction(repr(node.value))
        return f"(({fr.numerator} : Rat) / {fr.denominator})" if fr.denominator != 1 else f"({fr.numerator} : Rat)"
    if isinstance(node, ast.BinOp):
        ops = {ast.Add: "+", ast.Sub: "-", ast.Mult: "*", ast.Div: "/"}
        if type(node.op) in ops:
            return f"({expr(node.left, atoms)} {ops[type(node.op)]} {expr(node.right, atoms)})"
        if isinstance(node.op, ast.Mod):
            return f"(fmod {expr(node.left, atoms)} {expr(node.right, atoms)})"
    if isinstance(node, ast.UnaryOp) and isinstance(node.op, ast.USub):
        return f"(-{expr(node.operand, atoms)})"
    raise T.TranslateError(f"unsupported expression: {ast.dump(node)[:120]}")


def names(mapping):
    def f(node):
        d = dotted(node)
        return mapping.get(d) if d is not None else None
    return f


def call_atom(func_suffix, argmap):
    """atoms for calls `...<func_suffix>(x, y)` keyed by the argument names: {('b','a'): 'tba'}"""
    def f(node):
        if isinstance(node, ast.Call):
            d = dotted(node.func)
            if d is not None and d.endswith(func_suffix):
                key = tuple(dotted(a) for a in node.args)
                if key in argmap: return argmap[key]
                raise T.TranslateError(f"call {d}{key} not expected here")
        return None
    return f


def both(*fs):
    def f(node):
        for g in fs:
            r = g(node)
            if r is not None: return r
        return None
    return f


def _one(lst, what):
    if len(lst) != 1:
        raise T.TranslateError(f"expected exactly one {what}, found {len(lst)}")
    return lst[0]


def _pairs_literal(node, target_names):
    """[(A,B),(B,C),(C,A)] -> index pairs w.r.t. the tuple of names `target_names`"""
    if not isinstance(node, ast.List):
        raise T.TranslateError("half-edge list is not a list literal")
    out = []
    for el in node.elts:
        if not (isinstance(el, ast.Tuple) and len(el.elts) == 2 and all(isinstance(x, ast.Name) for x in el.elts)):
            raise T.TranslateError("half-edge list element is not a pair of names")
        out.append(tuple(target_names.index(x.id) for x in el.elts))
    return out


def _ratlit(node):
    if isinstance(node, ast.Constant) and isinstance(node.value, (int, float)) and not isinstance(node.value, bool):
        return Fraction(repr(node.value))
    raise T.TranslateError(f"not a numeric literal: {ast.dump(node)[:80]}")


def _lr(fr):
    return f"(({fr.numerator} : Rat) / {fr.denominator})"


# ------------------------------------------------------------------------------------------------
def site_maths():
    tree, _ = T.load(MATHS)
    fn = T.find_def(tree, "angle_diff")
    ret = _one([s for s in ast.walk(fn) if isinstance(s, ast.Return)], "return in angle_diff")
    ad = expr(ret.value, names({"a": "a", "b": "b"}))
    fn = T.find_def(tree, "roots")
    ret = _one([s for s in ast.walk(fn) if isinstance(s, ast.Return)], "return in roots")
    lc = ret.value
    if not (isinstance(lc, ast.ListComp) and len(lc.generators) == 1 and isinstance(lc.elt, ast.Call) and dotted(lc.elt.func) == "cmath.rect"):
        raise T.TranslateError("roots does not return [cmath.rect(r, phase) for k in range(pow)]")
    g = lc.generators[0]
    if not (isinstance(g.iter, ast.Call) and dotted(g.iter.func) == "range" and len(g.iter.args) == 1 and dotted(g.iter.args[0]) == "pow"
            and isinstance(g.target, ast.Name) and g.target.id == "k" and not g.ifs):
        raise T.TranslateError("roots does not range over range(pow)")
    ph = expr(lc.elt.args[1], names({"t": "t", "k": "(k : Rat)", "pow": "(pow : Rat)"}))
    return {"angleDiff": ad, "rootPhase": ph}


def site_vertex_init():
    from .c18stranslate import load_fn          # normalised tree (`a > b` -> `b < a`, `x = x + e` -> `x += e`, `not a == b` -> `a != b`)
    fn = load_fn(VERTS, "_BaseFrameField2DVertices._initialize_variables")
    top = [s for s in fn.body if isinstance(s, ast.If)]
    branch = _one(top, "top-level if in _initialize_variables")
    t = branch.test
    # self.smooth_normals and self.order%2 != 1
    ok = (isinstance(t, ast.BoolOp) and isinstance(t.op, ast.And) and len(t.values) == 2 and dotted(t.values[0]) == "self.smooth_normals"
          and isinstance(t.values[1], ast.Compare) and len(t.values[1].ops) == 1)
    if not ok:
        raise T.TranslateError(f"branch condition not recognised: {ast.dump(t)[:160]}")
    cmp_ = t.values[1]
    l = cmp_.left
    if not (isinstance(l, ast.BinOp) and isinstance(l.op, ast.Mod) and dotted(l.left) == "self.order" and isinstance(l.right, ast.Constant)
            and isinstance(cmp_.comparators[0], ast.Constant)):
        raise T.TranslateError("parity test not recognised")
    m, c = int(l.right.value), int(cmp_.comparators[0].value)
    op = {ast.NotEq: "!=", ast.Eq: "=="}.get(type(cmp_.ops[0]))
    if op is None: raise T.TranslateError("parity comparison operator not recognised")
    guarded = f"smoothNormals && (order % {m} {op} {c})"
    # else branch: self.var[X] += cmath.rect(1, self.conn.transport(X,Y)) ** self.order
    augs = [s for s in ast.walk(ast.Module(body=branch.orelse, type_ignores=[])) if isinstance(s, ast.AugAssign)]
    if len(augs) != 2:
        raise T.TranslateError("else branch does not consist of two accumulations")
    seen = []
    for s in augs:
        v = s.value
        if not (isinstance(s.op, ast.Add) and isinstance(v, ast.BinOp) and isinstance(v.op, ast.Pow) and dotted(v.right) == "self.order"
                and isinstance(v.left, ast.Call) and dotted(v.left.func) == "cmath.rect"
                and isinstance(v.left.args[0], ast.Constant) and v.left.args[0].value == 1
                and isinstance(v.left.args[1], ast.Call) and dotted(v.left.args[1].func) == "self.conn.transport"):
            raise T.TranslateError(f"else-branch accumulation not recognised: {ast.dump(v)[:160]}")
        tgt = dotted(s.target.slice) if isinstance(s.target, ast.Subscript) else None
        args = tuple(dotted(a) for a in v.left.args[1].args)
        if tgt != args[0]:
            raise T.TranslateError("accumulation target is not the first argument of transport")
        seen.append(args)
    if sorted(seen) != [("A", "B"), ("B", "A")]:
        raise T.TranslateError("else branch does not accumulate transport(A,B) at A and transport(B,A) at B")
    # normalisation of feature vertices
    loops = [s for s in fn.body if isinstance(s, ast.For) and dotted(s.iter) == "self.feat.feature_vertices"]
    lp = _one(loops, "loop over feature vertices")
    iff = _one([s for s in lp.body if isinstance(s, ast.If)], "if in normalisation loop")
    tt = iff.test
    if not (isinstance(tt, ast.Compare) and isinstance(tt.ops[0], ast.Lt) and isinstance(tt.comparators[0], ast.Call) and dotted(tt.comparators[0].func) == "abs"
            and len(iff.body) == 1 and isinstance(iff.body[0], ast.AugAssign) and isinstance(iff.body[0].op, ast.Div)):
        raise T.TranslateError("feature normalisation not recognised")
    return {"guarded": guarded, "featThr": _ratlit(tt.left)}


def site_vertex_flag():
    from .c18stranslate import load_fn          # normalised tree: `a > b` -> `b < a`, `x = x + e` -> `x += e`, annotations dropped
    fn = load_fn(VERTS, "_BaseFrameField2DVertices.flag_singularities")
    zt = _one([s for s in ast.walk(fn) if isinstance(s, ast.Assign) and isinstance(s.targets[0], ast.Name) and s.targets[0].id == "ZERO_THRESHOLD"], "ZERO_THRESHOLD")
    thr = _ratlit(zt.value)
    tr = _one([s for s in ast.walk(fn) if isinstance(s, ast.Assign) and isinstance(s.targets[0], ast.Tuple)
               and [dotted(x) for x in s.targets[0].elts] == ["aA", "aB"]], "aA,aB assignment")
    calls = tr.value.elts
    if [tuple(dotted(a) for a in c.args) for c in calls] != [("A", "B"), ("B", "A")] or any(dotted(c.func) != "self.conn.transport" for c in calls):
        raise T.TranslateError("aA,aB are not transport(A,B), transport(B,A)")
    ub = _one([s for s in ast.walk(fn) if isinstance(s, ast.Assign) and dotted(s.targets[0]) == "uB"], "uB assignment")
    if not (isinstance(ub.value, ast.Subscript) and isinstance(ub.value.slice, ast.Constant) and ub.value.slice.value == 0
            and isinstance(ub.value.value, ast.Call) and dotted(ub.value.value.func) == "maths.roots"
            and [dotted(a) for a in ub.value.value.args] == ["fB", "self.order"]):
        raise T.TranslateError("uB is not maths.roots(fB, self.order)[0]")
    an = _one([s for s in ast.walk(fn) if isinstance(s, ast.Assign) and dotted(s.targets[0]) == "angles"], "angles assignment")
    lc = an.value
    if not (isinstance(lc, ast.ListComp) and isinstance(lc.elt, ast.Call) and dotted(lc.elt.func) == "maths.angle_diff" and len(lc.elt.args) == 2
            and isinstance(lc.generators[0].iter, ast.Call) and dotted(lc.generators[0].iter.func) == "maths.roots"
            and [dotted(a) for a in lc.generators[0].iter.args] == ["fA", "self.order"] and dotted(lc.generators[0].target) == "uA"):
        raise T.TranslateError("angles is not [angle_diff(..., ...) for uA in roots(fA, order)]")
    at = both(call_atom("cmath.phase", {("uB",): "pB", ("uA",): "pA"}), names({"aA": "aA", "aB": "aB"}))
    fst, snd = expr(lc.elt.args[0], at), expr(lc.elt.args[1], at)
    am = _one([s for s in ast.walk(fn) if isinstance(s, ast.Assign) and dotted(s.targets[0]) == "i_angle"], "i_angle assignment")
    if not (isinstance(am.value, ast.Call) and dotted(am.value.func) == "np.argmin" and dotted(am.value.args[0]) == "abs_angles"):
        raise T.TranslateError("i_angle is not np.argmin(abs_angles)")
    # signs of the three stores
    signs = {}
    for s in ast.walk(fn):
        if isinstance(s, ast.Assign) and isinstance(s.targets[0], ast.Subscript) and dotted(s.targets[0].value) in ("edge_rot", "edge_rot_attr"):
            v = s.value
            neg = isinstance(v, ast.UnaryOp) and isinstance(v.op, ast.USub)
            core = v.operand if neg else v
            if not (isinstance(core, ast.Subscript) and dotted(core.value) == "angles" and dotted(core.slice) == "i_angle"):
                raise T.TranslateError("stored rotation is not ±angles[i_angle]")
            sl = s.targets[0].slice
            key = tuple(dotted(x) for x in sl.elts) if isinstance(sl, ast.Tuple) else dotted(sl)
            signs[(dotted(s.targets[0].value), key)] = -1 if neg else 1
    want = {("edge_rot", ("A", "B")), ("edge_rot", ("B", "A")), ("edge_rot_attr", "ie")}
    if set(signs) != want:
        raise T.TranslateError(f"stores of the rotation not recognised: {sorted(map(str, signs))}")
    # face loop
    floop = _one([s for s in ast.walk(fn) if isinstance(s, ast.For) and isinstance(s.iter, ast.Call) and dotted(s.iter.func) == "enumerate"
                  and dotted(s.iter.args[0]) == "self.mesh.faces"], "loop over faces")
    tnames = [x.id for x in floop.target.elts[1].elts]
    inner = _one([s for s in floop.body if isinstance(s, ast.For)], "inner half-edge loop")
    pairs = _pairs_literal(inner.iter, tnames)
    acc = _one([s for s in inner.body if isinstance(s, ast.AugAssign)], "accumulation in half-edge loop")
    if not (isinstance(acc.op, ast.Add) and isinstance(acc.value, ast.Subscript) and dotted(acc.value.value) == "edge_rot"
            and [dotted(x) for x in acc.value.slice.elts] == [dotted(x) for x in inner.target.elts]):
        raise T.TranslateError("half-edge accumulation is not angle += edge_rot[(u,v)]")
    cur = [s for s in floop.body if isinstance(s, ast.AugAssign) and dotted(s.target) == "angle"]
    c = _one(cur, "curvature accumulation")
    if not (isinstance(c.value, ast.Subscript) and dotted(c.value.value) == "curvature" and isinstance(c.op, (ast.Add, ast.Sub))):
        raise T.TranslateError("curvature accumulation not recognised")
    csign = 1 if isinstance(c.op, ast.Add) else -1
    init = [s for s in floop.body if isinstance(s, ast.Assign) and dotted(s.targets[0]) == "angle"]
    if not (len(init) == 1 and isinstance(init[0].value, ast.Constant) and init[0].value.value == 0):
        raise T.TranslateError("angle is not initialised to 0 per face")
    sel = _one([s for s in floop.body if isinstance(s, ast.If)], "sign selection")
    def cmp_shape(t, opcls, negthr):
        # on the normalised tree `angle > ZERO_THRESHOLD` reads `ZERO_THRESHOLD < angle`; `angle < -ZERO_THRESHOLD` is unchanged
        if not (isinstance(t, ast.Compare) and len(t.ops) == 1 and isinstance(t.ops[0], ast.Lt)): return False
        if opcls is ast.Gt:
            return dotted(t.left) == "ZERO_THRESHOLD" and dotted(t.comparators[0]) == "angle"
        r = t.comparators[0]
        return dotted(t.left) == "angle" and isinstance(r, ast.UnaryOp) and isinstance(r.op, ast.USub) and dotted(r.operand) == "ZERO_THRESHOLD"
    def assigned(body):
        s = body[0]
        v = s.value
        if isinstance(v, ast.UnaryOp) and isinstance(v.op, ast.USub): return -int(v.operand.value)
        return int(v.value)
    if not (cmp_shape(sel.test, ast.Gt, False) and assigned(sel.body) == 1 and len(sel.orelse) == 1 and isinstance(sel.orelse[0], ast.If)
            and cmp_shape(sel.orelse[0].test, ast.Lt, True) and assigned(sel.orelse[0].body) == -1):
        raise T.TranslateError("singuls = +1 / -1 selection not recognised")
    return {"thr": thr, "fst": fst, "snd": snd, "sAB": signs[("edge_rot", ("A", "B"))], "sBA": signs[("edge_rot", ("B", "A"))],
            "sAttr": signs[("edge_rot_attr", "ie")], "pairs": pairs, "csign": csign}


def site_connection():
    from .c18htranslate import _norm_tree
    tree = _norm_tree(CONN)          # normalised tree (see c18stranslate.Norm)
    fn = T.find_def(tree, "SurfaceConnectionVertices._initialize")
    df = _one([s for s in ast.walk(fn) if isinstance(s, ast.Assign) and dotted(s.targets[0]) == "dfct"], "dfct assignment")
    def sub_atom(node):
        if isinstance(node, ast.Subscript):
            d = dotted(node.value)
            return {"self.feat.corners": "corners", "self.total_angle": "total"}.get(d)
        return None
    dfct = expr(df.value, both(sub_atom, names({"self.feat.corner_order": "cornerOrder"})))
    stores = [s for s in ast.walk(fn) if isinstance(s, ast.Assign) and isinstance(s.targets[0], ast.Subscript) and dotted(s.targets[0].value) == "self._transport"]
    if len(stores) != 2:
        raise T.TranslateError(f"expected two stores into self._transport, found {len(stores)}")
    forms = []
    for s in stores:
        key = [dotted(x) for x in s.targets[0].slice.elts]
        if key != ["u", "v"]: raise T.TranslateError("transport key is not (u,v)")
        forms.append(expr(s.value, both(sub_atom, names({"ang": "ang", "dfct": "dfct"}))))
    feat = [f for f in forms if "dfct" in f]
    inte = [f for f in forms if "dfct" not in f]
    if len(feat) != 1 or len(inte) != 1:
        raise T.TranslateError("could not tell the feature-vertex and interior-vertex rescalings apart")
    accs = [s for s in ast.walk(fn) if isinstance(s, ast.AugAssign) and dotted(s.target) == "ang"]
    if len(accs) != 2 or any(not (isinstance(s.op, ast.Add) and isinstance(s.value, ast.Subscript) and dotted(s.value.value) == "self.angles") for s in accs):
        raise T.TranslateError("ang += self.angles[c] not found twice")
    # faces
    fn2 = T.find_def(tree, "SurfaceConnectionFaces._initialize")
    st = [s for s in ast.walk(fn2) if isinstance(s, ast.Assign) and isinstance(s.targets[0], ast.Subscript) and dotted(s.targets[0].value) == "self._transport"]
    got = {}
    for s in st:
        key = tuple(dotted(x) for x in s.targets[0].slice.elts)
        got[key] = expr(s.value, names({"angle1": "angle1", "angle2": "angle2"}))
    if set(got) != {("T1", "T2"), ("T2", "T1")}:
        raise T.TranslateError("face transports are not stored at (T1,T2) and (T2,T1)")
    for nm, xs in (("angle1", ("Y1", "X1")), ("angle2", ("Y2", "X2"))):
        a = _one([s for s in ast.walk(fn2) if isinstance(s, ast.Assign) and dotted(s.targets[0]) == nm], nm)
        v = a.value
        if not (isinstance(v, ast.Call) and dotted(v.func) == "math.atan2" and len(v.args) == 2
                and all(isinstance(x, ast.Call) and dotted(x.func) == "geom.dot" for x in v.args)
                and [dotted(v.args[0].args[1]), dotted(v.args[1].args[1])] == list(xs)
                and [dotted(v.args[0].args[0]), dotted(v.args[1].args[0])] == ["E", "E"]):
            raise T.TranslateError(f"{nm} is not atan2(dot(E,{xs[0]}), dot(E,{xs[1]}))")
    return {"dfct": dfct, "feat": feat[0], "inte": inte[0], "f12": got[("T1", "T2")], "f21": got[("T2", "T1")]}


def site_operators():
    from .c18htranslate import _norm_tree
    tree = _norm_tree(LAP)          # normalised tree (see c18stranslate.Norm)
    fn = T.find_def(tree, "laplacian")
    tr = _one([s for s in ast.walk(fn) if isinstance(s, ast.Assign) and isinstance(s.targets[0], ast.Tuple)
               and [dotted(x) for x in s.targets[0].elts] == ["ai", "aj"]], "ai,aj assignment")
    if [tuple(dotted(a) for a in c.args) for c in tr.value.elts] != [("i", "j"), ("j", "i")]:
        raise T.TranslateError("ai,aj are not transport(i,j), transport(j,i)")
    rects = {}
    for s in ast.walk(fn):
        if isinstance(s, ast.Assign) and isinstance(s.targets[0], ast.Tuple) and isinstance(s.value, ast.Tuple) and len(s.value.elts) == 4:
            r, c, v = s.value.elts[0], s.value.elts[1], s.value.elts[2]
            for n in ast.walk(v):
                if isinstance(n, ast.Call) and dotted(n.func) == "cmath.rect":
                    # v must be  - v * cmath.rect(1., phase)
                    if not (isinstance(v, ast.BinOp) and isinstance(v.op, ast.Mult) and isinstance(v.left, ast.UnaryOp)
                            and isinstance(v.left.op, ast.USub) and dotted(v.left.operand) == "v" and v.right is n):
                        raise T.TranslateError("off-diagonal coefficient is not -v*cmath.rect(1, phase)")
                    rects[(dotted(r), dotted(c))] = expr(n.args[1], names({"order": "order", "ai": "ai", "aj": "aj"}))
    if set(rects) != {("i", "j"), ("j", "i")}:
        raise T.TranslateError(f"connection coefficients of laplacian not found at (i,j),(j,i): {sorted(rects)}")
    fn2 = T.find_def(tree, "laplacian_triangles")
    nab = {}
    first_if = _one([s for s in fn2.body if isinstance(s, ast.If) and isinstance(s.test, ast.Compare) and dotted(s.test.left) == "connection"], "if connection is not None")
    for s in ast.walk(ast.Module(body=first_if.body, type_ignores=[])):
        if isinstance(s, ast.Assign) and isinstance(s.targets[0], ast.Subscript) and dotted(s.targets[0].value) == "Nabla":
            key = dotted(s.targets[0].slice.elts[1])
            nab[key] = s.value
    if set(nab) != {"T1", "T2"}:
        raise T.TranslateError("Nabla rows of the connection branch not recognised")
    v1 = nab["T1"]
    if not (isinstance(v1, ast.UnaryOp) and isinstance(v1.op, ast.USub) and isinstance(v1.operand, ast.Constant) and v1.operand.value == 1):
        raise T.TranslateError("Nabla[ie,T1] is not -1")
    v2 = nab["T2"]
    if not (isinstance(v2, ast.Call) and dotted(v2.func) == "cmath.rect" and isinstance(v2.args[0], ast.Constant) and v2.args[0].value == 1):
        raise T.TranslateError("Nabla[ie,T2] is not cmath.rect(1, phase)")
    nph = expr(v2.args[1], both(call_atom("connection.transport", {("T1", "T2"): "t12", ("T2", "T1"): "t21"}), names({"order": "order"})))
    rets = [s for s in ast.walk(fn2) if isinstance(s, ast.Return)]
    star = _one([s for s in ast.walk(fn2) if isinstance(s, ast.Assign) and dotted(s.targets[0]) == "Nabla_star"], "Nabla_star")
    if ast.unparse(star.value).replace(" ", "") != "Nabla.conj().transpose()":
        raise T.TranslateError("Nabla_star is not Nabla.conj().transpose()")
    if sorted(ast.unparse(r.value).replace(" ", "") for r in rets) != ["Nabla_star@D@Nabla", "Nabla_star@Nabla"]:
        raise T.TranslateError("laplacian_triangles does not return Nabla_star @ D @ Nabla / Nabla_star @ Nabla")
    # curvature of the vertex connection
    tree3, _ = T.load(ATTRF)
    fn3 = T.find_def(tree3, "parallel_transport_curvature")
    floop = _one([s for s in fn3.body if isinstance(s, ast.For)], "face loop")
    tnames = [x.id for x in floop.target.elts[1].elts]
    inner = _one([s for s in floop.body if isinstance(s, ast.For)], "half-edge loop")
    pairs = _pairs_literal(inner.iter, tnames)
    mul = _one([s for s in inner.body if isinstance(s, ast.AugAssign)], "v *= ...")
    if not (isinstance(mul.op, ast.Mult) and isinstance(mul.value, ast.Call) and dotted(mul.value.func) == "cmath.rect"
            and [dotted(x) for x in inner.target.elts] == ["a", "b"]):
        raise T.TranslateError("curvature product not recognised")
    cterm = expr(mul.value.args[1], call_atom("PT.transport", {("b", "a"): "tba", ("a", "b"): "tab"}))
    fin = _one([s for s in floop.body if isinstance(s, ast.Assign) and isinstance(s.targets[0], ast.Subscript) and dotted(s.targets[0].value) == "curv"], "curv[iF] = ...")
    if not (isinstance(fin.value, ast.Call) and dotted(fin.value.func) == "cmath.phase" and dotted(fin.value.args[0]) == "v"):
        raise T.TranslateError("curv[iF] is not cmath.phase(v)")
    return {"pij": rects[("i", "j")], "pji": rects[("j", "i")], "nph": nph, "cterm": cterm, "cpairs": pairs}


def _lean_pairs(ps):
    return "[" + ", ".join(f"({a}, {b})" for a, b in ps) + "]"


def run():
    out = {}
    recs = []

    def wrap(name, fn):
        def g():
            out[name] = fn()
            return {k: str(v) for k, v in out[name].items()}
        recs.append(T.site(name, g))
    wrap("maths.py: angle_diff, roots", site_maths)
    wrap("vertex2d._initialize_variables: branch condition, else-branch accumulation, feature normalisation", site_vertex_init)
    wrap("vertex2d.flag_singularities: matching arguments, stores, face loop, curvature term, thresholds", site_vertex_flag)
    wrap("connection.py: vertex rescaling (dfct, feature / interior transport), face transports", site_connection)
    wrap("laplacian_op.py + attr_faces.py: transport phases of laplacian / laplacian_triangles, parallel_transport_curvature", site_operators)
    if all(r["ok"] for r in recs):
        m, vi, vf, cn, op = (out[r["site"]] for r in recs)
        body = f"""set_option linter.unusedVariables false
namespace Mouette.Generated.C18V
/- every angle in TURNS: the atom `pi` of the source is `1/2`. -/

/-- python float `%` -/
def fmod (x m : Rat) : Rat := x - m * (((x / m).floor : Int) : Rat)

/-- utils/maths.py `angle_diff(a, b)` -/
def angleDiff (a b : Rat) : Rat := {m['angleDiff']}

/-- utils/maths.py `roots(c, pow)`: phase of the k-th root, `t` the phase of `c`; `k` ranges over `range(pow)` -/
def rootPhase (t : Rat) (pow k : Nat) : Rat := {m['rootPhase']}

/-- vertex2d.py `_initialize_variables`: condition of the guarded (projection) branch -/
def guardedBranch (smoothNormals : Bool) (order : Nat) : Bool := {vi['guarded']}

/-- vertex2d.py `_initialize_variables`: `if abs(self.var[A]) > <this>: self.var[A] /= abs(self.var[A])` -/
def featureNormThreshold : Rat := {_lr(vi['featThr'])}

/-- vertex2d.py `flag_singularities`: the two arguments of `angle_diff` (pB, pA the phases of the roots uB, uA) -/
def matchFst (pB aB pA aA : Rat) : Rat := {vf['fst']}
def matchSnd (pB aB pA aA : Rat) : Rat := {vf['snd']}

/-- vertex2d.py `flag_singularities`: signs with which `angles[i_angle]` is stored at `(A,B)`, `(B,A)` and in the edge attribute -/
def rotSignAB : Int := {vf['sAB']}
def rotSignBA : Int := {vf['sBA']}
def rotSignAttr : Int := {vf['sAttr']}

/-- vertex2d.py `flag_singularities`: half-edges of a face `(A,B,C)` summed (positions in the face) and sign of the curvature term -/
def faceHalfEdges : List (Nat × Nat) := {_lean_pairs(vf['pairs'])}
def curvatureSign : Int := {vf['csign']}

/-- vertex2d.py `flag_singularities`: `ZERO_THRESHOLD` (radians) -/
def zeroThresholdV : Rat := {_lr(vf['thr'])}

/-- connection.py `SurfaceConnectionVertices._initialize` -/
def dfct (corners cornerOrder : Rat) : Rat := {cn['dfct']}
def transportFeature (ang dfct total : Rat) : Rat := {cn['feat']}
def transportInterior (ang total : Rat) : Rat := {cn['inte']}

/-- connection.py `SurfaceConnectionFaces._initialize`: `_transport[(T1,T2)]`, `_transport[(T2,T1)]` -/
def transportFaces12 (angle1 angle2 : Rat) : Rat := {cn['f12']}
def transportFaces21 (angle1 angle2 : Rat) : Rat := {cn['f21']}

/-- laplacian_op.py `laplacian`: phases of the coefficients `(i,j)` and `(j,i)` (`-v * rect(1, phase)`) -/
def lapPhaseIJ (order ai aj : Rat) : Rat := {op['pij']}
def lapPhaseJI (order ai aj : Rat) : Rat := {op['pji']}

/-- laplacian_op.py `laplacian_triangles`: `Nabla[ie,T1] = -1`, `Nabla[ie,T2] = rect(1, <this>)` -/
def nablaPhaseT2 (order t12 t21 : Rat) : Rat := {op['nph']}

/-- attr_faces.py `parallel_transport_curvature`: one factor `rect(1, <this>)` per half-edge `(a,b)` of the face -/
def curvTerm (tba tab : Rat) : Rat := {op['cterm']}
def curvHalfEdges : List (Nat × Nat) := {_lean_pairs(op['cpairs'])}

end Mouette.Generated.C18V
"""
        _, sha = T.write_generated("C18Vertex", body)
        for r in recs: r["detail"] = f"{r['detail']} [file sha {sha}]"
    if not all(r["ok"] for r in recs):
        from .c18stranslate import write_stub
        write_stub("C18Vertex", recs)          # never leave the file of an earlier tree on disk
    return recs
