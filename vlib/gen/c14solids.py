"""C14, round 4 — whole-BODY translation of the generators that are not loop nests.

Round 3 translated the face/vertex LOOPS of the parametric families; of the other generators only a face table or a keyword
binding was read.  This module reads the rest of their bodies from the working tree (Python `ast`):

  tetrahedron / hexahedron      every statement in order: which parameter is stored at which vertex, the `cells` container
                                (the `volume` switch), the complete `if volume / if triangulate` dispatch of the face container
                                (translated with vlib/pyloops.py as ONE term of the three switches), the colour writes
                                `col[k] = RED` of the `colored` switch as (index, r, g, b) emissions under their guards;
  triangle / quad               the corner expressions stored in `vertices` (quad: the derived fourth corner), in storage order;
  axis_aligned_cube             the eight literal corners, the positional order in which they reach hexahedron(), the keyword
                                forwarding of both switches;
  hexahedron_4pts               the eight corner expressions handed to hexahedron();
  icosahedron                   the twelve vertex expressions `radius*a+center` over an abstract golden ratio `phi`
                                (its definition `(1+sqrt(5))/2` is checked syntactically);
  icosphere                     the loop skeleton: `range(n_refine)` rounds of `loop_subdivision(k)` each followed by the projection;
  spherify_vertices / cylindrify_edges   which parameter of icosphere() / cylinder() every argument reaches, the loop heads;
  dual_mesh                     the mode dispatch (string -> attribute function), the face source `vertex_to_faces`, the
                                vertex source `dual_pts[F]`;
  sphere_fibonacci              the orientation branch `if dot(pcenter, normal) < 0: (A,C,B) else (A,B,C)`.

Two generated files: Generated/C14Solids.lean (core Lean: tables, switch terms, bindings — linked into the driver) and
Generated/C14SolidsGeom.lean (position expressions over a field, printed by vlib/pyverts.py).  The same expression trees are
evaluated with floats by `corner_values` and compared with the vertices the implementation returns (translation validation).
Harmless respellings are normalised away: the RawMeshData local may have any name, keyword / positional passing is resolved
against the callee's signature, docstrings and comments do not matter, `Vec(v)` copies are transparent.
Anything else raises TranslateError (a broken obligation)."""
import ast, copy
from fractions import Fraction

from .. import translate as T
from .. import pyloops as PL
from .. import pyverts as PV

SHAPES = "mouette/procedural/shapes.py"
FLAT = "mouette/procedural/flat.py"
DUAL = "mouette/procedural/dual.py"
TRANSF = "mouette/procedural/transformations.py"

TREES = {}       # name -> (param names, [vector trees])  filled by translate(); evaluated by corner_values


def container_of(fn):
    """name of the local bound to `RawMeshData()` (the generators use different names; a renamed local is harmless)"""
    names = [s.targets[0].id for s in ast.walk(fn) if isinstance(s, ast.Assign) and len(s.targets) == 1
             and isinstance(s.targets[0], ast.Name) and isinstance(s.value, ast.Call)
             and getattr(s.value.func, "id", getattr(s.value.func, "attr", None)) == "RawMeshData" and not s.value.args]
    if len(names) != 1: raise T.TranslateError(f"{fn.name}: expected exactly one `x = RawMeshData()`, found {names}")
    return names[0]


def _params(fn):
    return [a.arg for a in fn.args.args]


def _bool_params(fn):
    """parameters whose default is a bool literal"""
    ps, ds = fn.args.args, fn.args.defaults
    out = []
    for a, d in zip(ps[len(ps) - len(ds):], ds):
        if isinstance(d, ast.Constant) and isinstance(d.value, bool): out.append(a.arg)
    return out


def _body(fn):
    b = list(fn.body)
    if b and isinstance(b[0], ast.Expr) and isinstance(b[0].value, ast.Constant) and isinstance(b[0].value.value, str): b = b[1:]
    return b


def _bsig(bools):
    return (" (" + " ".join(bools) + " : Bool)") if bools else ""


# ---------------------------------------------------------------------------------------------------------------------
# containers of tetrahedron / hexahedron as terms of the switches
# ---------------------------------------------------------------------------------------------------------------------
def _container_term(fn, var, attr, bools):
    return PL.emits(_body(fn), PL.Ctx(var, attr, [], bools, elem="face"))


def _color_writes(fn, var, bools):
    """`col = <var>.faces.create_attribute("color", …)`, `RED, GREEN, BLUE = Vec(..), …`, `col[k] = RED` -> the list of
    [k, r, g, b] in execution order, under the guards the writes sit in (a term of the switches)"""
    cols = [s.targets[0].id for s in ast.walk(fn) if isinstance(s, ast.Assign) and isinstance(s.targets[0], ast.Name)
            and isinstance(s.value, ast.Call) and getattr(s.value.func, "attr", None) == "create_attribute"
            and ast.unparse(s.value.func.value) == f"{var}.faces" and s.value.args
            and isinstance(s.value.args[0], ast.Constant) and s.value.args[0].value == "color"]
    if len(cols) != 1: raise T.TranslateError(f"{fn.name}: `x = {var}.faces.create_attribute('color', …)` not found once")
    col = cols[0]
    consts = {}

    def const_vec(node):
        if not (isinstance(node, ast.Call) and getattr(node.func, "id", None) == "Vec" and len(node.args) == 3): return None
        out = []
        for a in node.args:
            if not (isinstance(a, ast.Constant) and isinstance(a.value, (int, float)) and float(a.value) == int(a.value) and a.value >= 0):
                return None
            out.append(int(a.value))
        return out
    for s in ast.walk(fn):
        if isinstance(s, ast.Assign) and len(s.targets) == 1:
            t, v = s.targets[0], s.value
            pairs = []
            if isinstance(t, ast.Name): pairs = [(t, v)]
            elif isinstance(t, ast.Tuple) and isinstance(v, ast.Tuple) and len(t.elts) == len(v.elts): pairs = list(zip(t.elts, v.elts))
            for a, b in pairs:
                if isinstance(a, ast.Name) and const_vec(b) is not None: consts[a.id] = const_vec(b)

    class R(ast.NodeTransformer):
        def visit_Assign(self, node):
            t = node.targets[0]
            if len(node.targets) == 1 and isinstance(t, ast.Subscript) and isinstance(t.value, ast.Name) and t.value.id == col:
                rgb = consts.get(node.value.id) if isinstance(node.value, ast.Name) else const_vec(node.value)
                if rgb is None: raise T.TranslateError(f"{fn.name}: colour written at {ast.unparse(t)} is not a constant Vec")
                elt = ast.Tuple(elts=[t.slice] + [ast.Constant(value=c) for c in rgb], ctx=ast.Load())
                call = ast.Call(func=ast.Attribute(value=ast.Attribute(value=ast.Name(id=var, ctx=ast.Load()), attr="colors", ctx=ast.Load()),
                                                   attr="append", ctx=ast.Load()), args=[elt], keywords=[])
                return ast.copy_location(ast.Expr(value=call), node)
            return node
    body = [R().visit(s) for s in copy.deepcopy(_body(fn))]
    for s in body: ast.fix_missing_locations(s)
    # any other use of the attribute handle (a loop writing it, `col[...] += …`) is outside the subset
    for s in body:
        for n in ast.walk(s):
            if isinstance(n, ast.Subscript) and isinstance(n.value, ast.Name) and n.value.id == col:
                raise T.TranslateError(f"{fn.name}: unsupported use of the colour attribute: {ast.unparse(n)}")
    return PL.emits(body, PL.Ctx(var, "colors", [], bools, elem="face"))


# ---------------------------------------------------------------------------------------------------------------------
# corner expressions
# ---------------------------------------------------------------------------------------------------------------------
class _Ex(PV.Exec):
    """PV.Exec with plain inlining of local assignments (no lets: the expressions are tiny)"""
    def exec_assigns(self, stmts, stop):
        for s in stmts:
            if stop(s): return s
            if isinstance(s, ast.Assign) and len(s.targets) == 1:
                t, v = s.targets[0], s.value
                if isinstance(t, ast.Name): pairs = [(t, v)]
                elif isinstance(t, ast.Tuple) and isinstance(v, ast.Tuple) and len(t.elts) == len(v.elts): pairs = list(zip(t.elts, v.elts))
                else: continue
                vals = []
                for a, b in pairs:
                    try: vals.append(self.val(b))
                    except T.TranslateError: vals.append(None)
                for (a, _), x in zip(pairs, vals):
                    if isinstance(a, ast.Name):
                        if x is None: self.env.pop(a.id, None)
                        else: self.env[a.id] = x
        return None


def _vertices_literal(fn, var):
    sites = [s for s in _body(fn) if isinstance(s, ast.AugAssign) and ast.unparse(s.target) == f"{var}.vertices"]
    if len(sites) != 1 or any(isinstance(n, ast.Call) and ast.unparse(n.func) == f"{var}.vertices.append" for n in ast.walk(fn)):
        raise T.TranslateError(f"{fn.name}: vertices are not filled by a single `{var}.vertices += […]`")
    return sites[0]


def _corner_trees(fn, scalars=(), abstract=None):
    """-> (vector parameter names, scalar parameter names, trees of the vertices stored, in storage order)"""
    var = container_of(fn)
    site = _vertices_literal(fn, var)
    bools = _bool_params(fn)
    vecs = [p for p in _params(fn) if p not in bools and p not in scalars]
    ex = _Ex(None, [], bools, list(scalars) + list(abstract or []), vecs, {}, owner=fn.name)
    ex.exec_assigns(_body(fn), lambda s: s is site)
    v = site.value
    elts = None
    if isinstance(v, ast.List): elts = [(None, e) for e in v.elts]
    elif isinstance(v, ast.ListComp) and len(v.generators) == 1 and not v.generators[0].ifs and isinstance(v.generators[0].target, ast.Name) \
            and isinstance(v.generators[0].iter, (ast.List, ast.Tuple)):
        elts = [(v.generators[0].target.id, e) for e in v.generators[0].iter.elts]
    if elts is None: raise T.TranslateError(f"{fn.name}: vertex list is neither a literal list nor a comprehension over one")
    trees = []
    for name, e in elts:
        if name is None: k, t = ex.val(e)
        else:
            ex.env[name] = ex.val(e)
            k, t = ex.val(v.elt)
        if k != "vc": raise T.TranslateError(f"{fn.name}: stored vertex is not a vector: {ast.unparse(e)}")
        trees.append(t)
    return vecs, list(scalars) + list(abstract or []), trees


def _lean_corners(name, doc, vecs, scs, trees):
    sig = ""
    if scs: sig += " (" + " ".join(scs) + " : K)"
    if vecs: sig += " (" + " ".join(vecs) + " : K × K × K)"
    TREES[name] = (scs, vecs, trees)
    return f"/-- {doc} -/\ndef {name}{sig} : List (K × K × K) :=\n  [" + ",\n   ".join(PV.L_vec(t) for t in trees) + "]\n\n"


def corner_values(name, values):
    """float evaluation of the translated corner expressions (values: parameter name -> float / 3-tuple)"""
    scs, vecs, trees = TREES[name]
    return [PV.E_vec(t, values, {}) for t in trees]


# ---------------------------------------------------------------------------------------------------------------------
# calls: which parameter of the callee every argument reaches
# ---------------------------------------------------------------------------------------------------------------------
def call_binding(caller, callee_name, callee):
    calls = [n for n in ast.walk(caller) if isinstance(n, ast.Call) and getattr(n.func, "id", getattr(n.func, "attr", None)) == callee_name]
    if len(calls) != 1: raise T.TranslateError(f"{caller.name}: expected one call of {callee_name}, found {len(calls)}")
    c = calls[0]
    ps = _params(callee)
    if len(c.args) > len(ps) or any(isinstance(a, ast.Starred) for a in c.args) or any(k.arg is None for k in c.keywords):
        raise T.TranslateError(f"{caller.name}: call of {callee_name} uses * / ** or too many arguments")
    bind = {ps[i]: a for i, a in enumerate(c.args)}
    for k in c.keywords:
        if k.arg not in ps or k.arg in bind: raise T.TranslateError(f"{caller.name}: bad keyword {k.arg} in call of {callee_name}")
        bind[k.arg] = k.value
    return c, bind


def _lean_str_table(rows):
    return "[" + ", ".join(f'("{a}", "{b}")' for a, b in rows) + "]"


def _norm(node):
    """source text of an argument, commutative products / sums of two names in a fixed order"""
    if isinstance(node, ast.BinOp) and isinstance(node.op, (ast.Mult, ast.Add)) and isinstance(node.left, ast.Name) and isinstance(node.right, ast.Name):
        a, b = sorted([node.left.id, node.right.id])
        return f"{a} {'*' if isinstance(node.op, ast.Mult) else '+'} {b}"
    return ast.unparse(node)


# ---------------------------------------------------------------------------------------------------------------------
# the sites
# ---------------------------------------------------------------------------------------------------------------------
def sites():
    """-> [(site name, function returning (core text, geom text))]"""
    out = []

    def tetra():
        tree, _ = T.load(SHAPES)
        fn = T.find_def(tree, "tetrahedron")
        var, bools = container_of(fn), _bool_params(fn)
        if bools != ["volume"]: raise T.TranslateError(f"tetrahedron: switches {bools}")
        core = (f"/-- `tetrahedron`: everything appended to `faces` / `cells`, as terms of the switch -/\n"
                f"def tetrahedronFacesAll{_bsig(bools)} : List (List Nat) :=\n  {_container_term(fn, var, 'faces', bools)}\n"
                f"def tetrahedronCells{_bsig(bools)} : List (List Nat) :=\n  {_container_term(fn, var, 'cells', bools)}\n\n")
        vecs, scs, trees = _corner_trees(fn)
        return core, _lean_corners("tetrahedronCorners", "vertices stored by `tetrahedron`, in storage order", vecs, scs, trees)
    out.append((f"{SHAPES}:tetrahedron (whole body: faces and cells as terms of `volume`, stored corners)", tetra))

    def hexa():
        tree, _ = T.load(SHAPES)
        fn = T.find_def(tree, "hexahedron")
        var, bools = container_of(fn), _bool_params(fn)
        if bools != ["colored", "triangulate", "volume"]: raise T.TranslateError(f"hexahedron: switches {bools}")
        core = (f"/-- `hexahedron`: everything appended to `faces` / `cells`, and the colour writes `col[k] = <rgb>` as [k, r, g, b],\n"
                f"as terms of the three switches (the complete `if volume / if triangulate / if colored` structure) -/\n"
                f"def hexahedronFacesAll{_bsig(bools)} : List (List Nat) :=\n  {_container_term(fn, var, 'faces', bools)}\n"
                f"def hexahedronCells{_bsig(bools)} : List (List Nat) :=\n  {_container_term(fn, var, 'cells', bools)}\n"
                f"def hexahedronColorWrites{_bsig(bools)} : List (List Nat) :=\n  {_color_writes(fn, var, bools)}\n\n")
        vecs, scs, trees = _corner_trees(fn)
        return core, _lean_corners("hexahedronCorners", "vertices stored by `hexahedron`, in storage order", vecs, scs, trees)
    out.append((f"{SHAPES}:hexahedron (whole body: faces, cells and colour writes as terms of the three switches, stored corners)", hexa))

    def flat():
        tree, _ = T.load(FLAT)
        geom = ""
        for g in ("triangle", "quad"):
            fn = T.find_def(tree, g)
            vecs, scs, trees = _corner_trees(fn)
            geom += _lean_corners(g + "Corners", f"vertices stored by `{g}`, in storage order", vecs, scs, trees)
        return "", geom
    out.append((f"{FLAT}:triangle, quad (stored corner expressions)", flat))

    def cube():
        tree, _ = T.load(SHAPES)
        fn, callee = T.find_def(tree, "axis_aligned_cube"), T.find_def(tree, "hexahedron")
        c, bind = call_binding(fn, "hexahedron", callee)
        rets = [s for s in _body(fn) if isinstance(s, ast.Return)]
        if len(rets) != 1 or rets[0].value is not c: raise T.TranslateError("axis_aligned_cube: does not return the hexahedron() call")
        ex = _Ex(None, [], _bool_params(fn), [], [], {}, owner="axis_aligned_cube")
        ex.exec_assigns(_body(fn), lambda s: isinstance(s, ast.Return))
        vecs = [p for p in _params(callee) if p not in _bool_params(callee)]
        coords = []
        for p in vecs:
            if p not in bind: raise T.TranslateError(f"axis_aligned_cube: corner {p} of hexahedron() not given")
            k, t = ex.val(bind[p])
            if k != "vc": raise T.TranslateError("axis_aligned_cube: corner is not a vector")
            xyz = [PV.E_sc(PV.comp(t, i), {}, {}) for i in range(3)]
            tw = [Fraction(x).limit_denominator(1 << 20) * 2 for x in xyz]
            if any(x.denominator != 1 for x in tw): raise T.TranslateError("axis_aligned_cube: a corner coordinate is not a half-integer")
            coords.append(tuple(int(x) for x in tw))
        rows = sorted((p, _norm(v)) for p, v in bind.items() if p in _bool_params(callee))
        core = ("/-- `axis_aligned_cube`: TWICE the coordinates of the corners handed to hexahedron() as P1 … P8 (literal `Vec`s), and\n"
                "the switch parameters of hexahedron() that are given, with the expression they receive -/\n"
                f"def axisCubeCoords2 : List (Int × Int × Int) := [{', '.join(f'({a}, {b}, {c_})' for a, b, c_ in coords)}]\n"
                f"def axisCubeBinding : List (String × String) := {_lean_str_table(rows)}\n\n")
        TREES["axisCube"] = ([], [], [("vec",) + tuple(("num", Fraction(x, 2)) for x in c3) for c3 in coords])
        return core, ""
    out.append((f"{SHAPES}:axis_aligned_cube (literal corners in the order they reach hexahedron(), forwarded switches)", cube))

    def hexa4():
        tree, _ = T.load(SHAPES)
        fn, callee = T.find_def(tree, "hexahedron_4pts"), T.find_def(tree, "hexahedron")
        c, bind = call_binding(fn, "hexahedron", callee)
        bools = _bool_params(fn)
        vparams = [p for p in _params(fn) if p not in bools]
        ex = _Ex(None, [], bools, [], vparams, {}, owner="hexahedron_4pts")
        ex.exec_assigns(_body(fn), lambda s: isinstance(s, ast.Return))
        trees = []
        for p in [p for p in _params(callee) if p not in _bool_params(callee)]:
            if p not in bind: raise T.TranslateError(f"hexahedron_4pts: corner {p} of hexahedron() not given")
            k, t = ex.val(bind[p])
            if k != "vc": raise T.TranslateError("hexahedron_4pts: corner is not a vector")
            trees.append(t)
        return "", _lean_corners("hexa4ptsCorners", "the eight corners `hexahedron_4pts` hands to hexahedron() as P1 … P8", vparams, [], trees)
    out.append((f"{SHAPES}:hexahedron_4pts (corner expressions handed to hexahedron())", hexa4))

    def icosa():
        tree, _ = T.load(SHAPES)
        fn = T.find_def(tree, "icosahedron")
        phis = [s for s in _body(fn) if isinstance(s, ast.Assign) and ast.unparse(s.targets[0]) == "phi"]
        ok = {"(1 + sqrt(5)) / 2", "(sqrt(5) + 1) / 2", "0.5 * (1 + sqrt(5))", "(1 + sqrt(5)) * 0.5", "(1.0 + sqrt(5.0)) / 2.0", "(1 + np.sqrt(5)) / 2",
              "0.5 * (1.0 + np.sqrt(5.0))", "(1 + 5 ** 0.5) / 2"}
        if len(phis) != 1 or ast.unparse(phis[0].value) not in ok:
            raise T.TranslateError("icosahedron: `phi` is not defined as the golden ratio (1 + sqrt(5)) / 2")

        class Drop(ast.NodeTransformer):          # the definition of phi is checked above; phi itself stays abstract
            pass
        fn2 = copy.deepcopy(fn)
        fn2.body = [s for s in fn2.body if not (isinstance(s, ast.Assign) and ast.unparse(s.targets[0]) == "phi")]
        vecs, scs, trees = _corner_trees(fn2, scalars=["radius"], abstract=["phi"])
        vecs = [v for v in vecs if v != "uv"]
        return "", _lean_corners("icosahedronCorners", "vertices stored by `icosahedron` (phi: the golden ratio, abstract)", vecs, ["phi", "radius"], trees)
    out.append((f"{SHAPES}:icosahedron (the twelve vertex expressions over an abstract golden ratio)", icosa))

    def icosph():
        tree, _ = T.load(SHAPES)
        fn = T.find_def(tree, "icosphere")
        loops = [s for s in ast.walk(fn) if isinstance(s, ast.For) and isinstance(s.iter, ast.Call) and getattr(s.iter.func, "id", None) == "range"]
        if len(loops) != 1 or len(loops[0].iter.args) != 1 or ast.unparse(loops[0].iter.args[0]) != "n_refine":
            raise T.TranslateError("icosphere: `for _ in range(n_refine)` not found")
        body = loops[0].body
        if not (len(body) == 2 and isinstance(body[0], ast.Expr) and isinstance(body[0].value, ast.Call)
                and getattr(body[0].value.func, "attr", None) == "loop_subdivision" and isinstance(body[1], ast.For)):
            raise T.TranslateError("icosphere: a round is not `loop_subdivision(k)` followed by the projection loop")
        call = body[0].value
        arg = call.args[0] if call.args else (call.keywords[0].value if call.keywords else ast.Constant(value=1))
        if not (isinstance(arg, ast.Constant) and isinstance(arg.value, int)): raise T.TranslateError("icosphere: loop_subdivision argument is not a literal")
        base = [s for s in _body(fn) if isinstance(s, ast.Assign) and isinstance(s.value, ast.Call) and getattr(s.value.func, "id", None) == "icosahedron"]
        if len(base) != 1: raise T.TranslateError("icosphere: does not start from icosahedron()")
        _, bind = call_binding(fn, "icosahedron", T.find_def(tree, "icosahedron"))
        rows = sorted((p, _norm(v)) for p, v in bind.items())
        core = ("/-- `icosphere`: number of 1-to-4 subdivision steps = `range(n_refine)` rounds × the literal argument of\n"
                "`loop_subdivision`; every round ends with the projection loop; the base mesh is icosahedron(<binding>) -/\n"
                f"def icosphereSteps (n_refine : Nat) : Nat :=\n  (((List.range n_refine).flatMap (fun _r => List.replicate {arg.value} ())) : List Unit).length\n"
                f"def icosphereBaseBinding : List (String × String) := {_lean_str_table(rows)}\n\n")
        return core, ""
    out.append((f"{SHAPES}:icosphere (loop skeleton: rounds of loop_subdivision + projection, base mesh binding)", icosph))

    def transf():
        tree, _ = T.load(TRANSF)
        stree, _ = T.load(SHAPES)
        sp, cy = T.find_def(tree, "spherify_vertices"), T.find_def(tree, "cylindrify_edges")
        _, b1 = call_binding(sp, "icosphere", T.find_def(stree, "icosphere"))
        _, b2 = call_binding(cy, "cylinder", T.find_def(stree, "cylinder"))
        for fn, lst in ((sp, "spheres"), (cy, "cylinders")):
            rets = [s for s in ast.walk(fn) if isinstance(s, ast.Return)]
            loops = [s for s in _body(fn) if isinstance(s, ast.For)]
            if len(loops) != 1 or not any(ast.unparse(r.value).startswith("merge(") for r in rets):
                raise T.TranslateError(f"{fn.name}: not one loop followed by merge(…)")
            apps = [n for n in ast.walk(loops[0]) if isinstance(n, ast.Call) and getattr(n.func, "attr", None) == "append"]
            if len(apps) != 1: raise T.TranslateError(f"{fn.name}: the loop does not append exactly one mesh per element")
        loop = [s for s in _body(cy) if isinstance(s, ast.For)][0]
        if ast.unparse(loop.iter) != "mesh.edges": raise T.TranslateError("cylindrify_edges: loop is not over mesh.edges")
        # end points: `pA, pB = mesh.vertices[A], mesh.vertices[B]` with (A, B) the loop target
        tgt = [e.id for e in loop.target.elts] if isinstance(loop.target, ast.Tuple) else []
        ends = {}
        for s in loop.body:
            if isinstance(s, ast.Assign) and isinstance(s.targets[0], ast.Tuple) and isinstance(s.value, ast.Tuple):
                for a, b in zip(s.targets[0].elts, s.value.elts): ends[a.id] = ast.unparse(b)
            elif isinstance(s, ast.Assign) and isinstance(s.targets[0], ast.Name): ends[s.targets[0].id] = ast.unparse(s.value)
        def endpoint(node):
            txt = ends.get(node.id, ast.unparse(node)) if isinstance(node, ast.Name) else ast.unparse(node)
            for k, nm in enumerate(tgt):
                if txt == f"mesh.vertices[{nm}]": return f"end{k}"
            return txt
        rows2 = []
        for p, v in sorted(b2.items()):
            rows2.append((p, endpoint(v) if p in ("P1", "P2") else _norm(v)))
        fc = b2.get("fill_caps")
        if not (isinstance(fc, ast.Constant) and isinstance(fc.value, bool)): raise T.TranslateError("cylindrify_edges: fill_caps is not a literal")
        lsrc = [s for s in _body(cy) if isinstance(s, ast.Assign) and ast.unparse(s.targets[0]) == "L"]
        if len(lsrc) != 1: raise T.TranslateError("cylindrify_edges: `L = …` not found")
        rows1 = sorted((p, _norm(v)) for p, v in b1.items())
        lp = [s for s in _body(sp) if isinstance(s, ast.For)][0]
        if not isinstance(lp.target, ast.Name): raise T.TranslateError("spherify_vertices: loop target")
        rows1 = [(p, "point" if v == lp.target.id else v) for p, v in rows1]
        core = ("/-- `spherify_vertices` / `cylindrify_edges`: the parameter of icosphere() / cylinder() every argument reaches\n"
                "(`point`: the loop element; `end0`, `end1`: the positions of the two ends of the loop's edge; `L`: see cylindrifyL) -/\n"
                f"def spherifyBinding : List (String × String) := {_lean_str_table(rows1)}\n"
                f"def cylindrifyBinding : List (String × String) := {_lean_str_table(rows2)}\n"
                f"def cylindrifyL : String := \"{ast.unparse(lsrc[0].value)}\"\n"
                f"def cylindrifyFillCaps : Bool := {'true' if fc.value else 'false'}\n"
                "/-- one cylinder per edge, merged: vertices / faces appended in total -/\n"
                "def cylindrifyNVerts (nE N : Nat) : Nat :=\n  (((List.range nE).flatMap (fun _e => List.replicate (Mouette.Generated.C14.cylinderNVerts N cylindrifyFillCaps) ())) : List Unit).length\n"
                "def cylindrifyNFaces (nE N : Nat) : Nat :=\n  (((List.range nE).flatMap (fun _e => (Mouette.Generated.C14.cylinderFaces N cylindrifyFillCaps).map (fun _ => ()))) : List Unit).length\n\n")
        return core, ""
    out.append((f"{TRANSF}:spherify_vertices, cylindrify_edges (argument bindings of icosphere() / cylinder(), loop heads, merge)", transf))

    def dual():
        tree, _ = T.load(DUAL)
        fn = T.find_def(tree, "dual_mesh")
        rows = []
        for s in _body(fn):
            node = s
            while isinstance(node, ast.If):
                t = node.test
                if not (isinstance(t, ast.Compare) and len(t.ops) == 1 and isinstance(t.ops[0], ast.Eq)): raise T.TranslateError("dual_mesh: mode test")
                sides_ = [t.left, t.comparators[0]]
                lit = [x for x in sides_ if isinstance(x, ast.Constant) and isinstance(x.value, str)]
                oth = [x for x in sides_ if x not in lit]
                if len(lit) != 1 or ast.unparse(oth[0]) != "mode.lower()": raise T.TranslateError("dual_mesh: mode is not compared as `mode.lower() == <literal>`")
                if len(node.body) != 1 or not (isinstance(node.body[0], ast.Assign) and ast.unparse(node.body[0].targets[0]) == "dual_pts"
                                               and isinstance(node.body[0].value, ast.Call)):
                    raise T.TranslateError("dual_mesh: branch is not `dual_pts = <attribute>(mesh, …)`")
                call = node.body[0].value
                if not call.args or ast.unparse(call.args[0]) != "mesh": raise T.TranslateError("dual_mesh: attribute not computed on `mesh`")
                rows.append((lit[0].value, getattr(call.func, "id", getattr(call.func, "attr", "?"))))
                node = node.orelse[0] if len(node.orelse) == 1 else None
        var = container_of(fn)
        loops = [s for s in _body(fn) if isinstance(s, ast.For)]
        src = {}
        for l in loops:
            if len(l.body) == 1 and isinstance(l.body[0], ast.Expr) and isinstance(l.body[0].value, ast.Call):
                c = l.body[0].value
                f = ast.unparse(c.func)
                if f in (f"{var}.vertices.append", f"{var}.faces.append") and isinstance(l.target, ast.Name):
                    class R(ast.NodeTransformer):
                        def visit_Name(self, node): return ast.Name(id="i", ctx=node.ctx) if node.id == l.target.id else node
                    src[f.split(".")[1]] = (ast.unparse(l.iter), ast.unparse(R().visit(copy.deepcopy(c.args[0]))))
        if set(src) != {"vertices", "faces"}: raise T.TranslateError("dual_mesh: the two filling loops were not found")
        core = ("/-- `dual_mesh`: (mode literal, attribute function giving `dual_pts`) in test order; per loop: (iteration domain, element\n"
                "appended for loop variable i) -/\n"
                f"def dualModes : List (String × String) := {_lean_str_table(rows)}\n"
                f"def dualVertexLoop : String × String := (\"{src['vertices'][0]}\", \"{src['vertices'][1]}\")\n"
                f"def dualFaceLoop : String × String := (\"{src['faces'][0]}\", \"{src['faces'][1]}\")\n\n")
        # the two loops as functional terms: `mesh.id_faces` / `mesh.id_vertices` are range(nF) / range(nV); the element appended is
        # `dual_pts[<loop variable>]` resp. `mesh.connectivity.vertex_to_faces(<loop variable>)` — anything else is outside the subset
        if src["vertices"] != ("mesh.id_faces", "dual_pts[i]") and not (src["vertices"][0] == "mesh.id_faces" and src["vertices"][1] == "dual_pts[i]"):
            raise T.TranslateError(f"dual_mesh: vertex loop is not `for F in mesh.id_faces: append(dual_pts[F])` but {src['vertices']}")
        if src["faces"] != ("mesh.id_vertices", "mesh.connectivity.vertex_to_faces(i)"):
            raise T.TranslateError(f"dual_mesh: face loop is not `for V in mesh.id_vertices: append(vertex_to_faces(V))` but {src['faces']}")
        order = [f for l in loops for f in (["vertices"] if ".vertices.append" in ast.unparse(l.body[0]) else ["faces"])]
        core += ("/-- the two filling loops of `dual_mesh` as functional terms (`dual_pts`: the position table chosen by `mode`;\n"
                 "`vertex_to_faces`: the connectivity query, specified by C01) -/\n"
                 "def dualVerts {α : Type} (nF : Nat) (dual_pts : Nat → α) : List α :=\n  ((List.range nF).flatMap (fun i => [dual_pts i]))\n"
                 "def dualFaces (nV : Nat) (vertex_to_faces : Nat → List Nat) : List (List Nat) :=\n  ((List.range nV).flatMap (fun i => [vertex_to_faces i]))\n\n")
        return core, ""
    out.append((f"{DUAL}:dual_mesh (mode dispatch, what each loop appends)", dual))

    def fib():
        tree, _ = T.load(SHAPES)
        fn = T.find_def(tree, "sphere_fibonacci")
        ifs = [s for s in ast.walk(fn) if isinstance(s, ast.If) and "dot" in ast.unparse(s.test)]
        if len(ifs) != 1: raise T.TranslateError("sphere_fibonacci: orientation test not found")
        s = ifs[0]
        t = s.test
        if not (isinstance(t, ast.Compare) and len(t.ops) == 1 and isinstance(t.comparators[0], ast.Constant) and t.comparators[0].value == 0
                and isinstance(t.left, ast.Call) and getattr(t.left.func, "attr", getattr(t.left.func, "id", None)) == "dot"):
            raise T.TranslateError("sphere_fibonacci: orientation test is not `dot(…) <op> 0`")
        args = sorted(ast.unparse(a) for a in t.left.args)
        if args != ["normal", "pcenter"]: raise T.TranslateError("sphere_fibonacci: orientation test is not on (pcenter, normal)")
        op = type(t.ops[0])
        var = container_of(fn)

        def face(stmts):
            if len(stmts) != 1 or not (isinstance(stmts[0], ast.Expr) and ast.unparse(stmts[0].value.func) == f"{var}.faces.append"): raise T.TranslateError("sphere_fibonacci: branch")
            tup = stmts[0].value.args[0]
            return [e.id for e in tup.elts]
        a, b = face(s.body), face(s.orelse)
        if op in (ast.Lt, ast.LtE): neg, pos = a, b
        elif op in (ast.Gt, ast.GtE): neg, pos = b, a
        else: raise T.TranslateError("sphere_fibonacci: comparison operator")
        # the loop unpacks (A, B, C) from ch.simplices ; normal = cross(pB - pA, pC - pA) ; pcenter = (pA + pB + pC) / 3
        src = {ast.unparse(x.targets[0]): ast.unparse(x.value) for x in ast.walk(fn) if isinstance(x, ast.Assign) and len(x.targets) == 1}
        if src.get("normal", "").replace("geom.", "") != "cross(pB - pA, pC - pA)" or src.get("pcenter") not in ("(pA + pB + pC) / 3", "(pA + pB + pC) / 3.0"):
            raise T.TranslateError("sphere_fibonacci: normal / pcenter are not cross(pB-pA, pC-pA) and (pA+pB+pC)/3")
        idx = {"A": 0, "B": 1, "C": 2}
        core = ("/-- `sphere_fibonacci`: the face stored for a hull simplex (A, B, C) (positions 0, 1, 2) when dot(pcenter, normal) is\n"
                "negative / non-negative, with normal = cross(pB − pA, pC − pA) and pcenter = (pA + pB + pC)/3 (checked syntactically) -/\n"
                f"def fibonacciFaceNeg : List Nat := {[idx[x] for x in neg]}\n"
                f"def fibonacciFacePos : List Nat := {[idx[x] for x in pos]}\n\n")
        return core, _fib_point(fn)
    out.append((f"{SHAPES}:sphere_fibonacci (point formula of the sampling loop, orientation branch of the hull triangles)", fib))

    def vfield():
        tree, _ = T.load("mouette/procedural/polylines.py")
        fn = T.find_def(tree, "vector_field")
        loops = [s for s in _body(fn) if isinstance(s, ast.For)]
        if len(loops) != 1 or not isinstance(loops[0].target, ast.Name): raise T.TranslateError("vector_field: one loop over the origins expected")
        iv = loops[0].target.id

        class R(ast.NodeTransformer):          # origins[i] -> origin ; vectors[i] -> vector   (row i of the two arrays)
            def visit_Subscript(self, node):
                if isinstance(node.value, ast.Name) and node.value.id in ("origins", "vectors") and isinstance(node.slice, ast.Name) and node.slice.id == iv:
                    return ast.Name(id=node.value.id[:-1], ctx=ast.Load())
                return self.generic_visit(node)
        body = [R().visit(copy.deepcopy(st)) for st in loops[0].body]
        var = container_of(fn)
        ex = _Ex(None, [], [], ["length_mult"], ["origin", "vector"], {}, owner="vector_field")
        site = [st for st in body if isinstance(st, ast.AugAssign) and ast.unparse(st.target) == f"{var}.vertices"]
        if len(site) != 1 or not isinstance(site[0].value, ast.List): raise T.TranslateError("vector_field: `vertices += [a, b]` not found")
        ex.exec_assigns(body, lambda st: st is site[0])
        trees = []
        for e in site[0].value.elts:
            k, t = ex.val(e)
            if k != "vc": raise T.TranslateError("vector_field: stored vertex is not a vector")
            trees.append(t)
        return "", _lean_corners("vectorFieldPts", "the vertices `vector_field` stores for one (origin, vector) row", ["origin", "vector"], ["length_mult"], trees)
    out.append(("mouette/procedural/polylines.py:vector_field (the two vertices stored per origin)", vfield))
    return out


def _fib_point(fn):
    """the sampling loop of sphere_fibonacci: `for i in range(n_pts): j = …; theta = …; …; points.append(radius*Vec(x,y,z))` as an
    expression of (i, n_pts, phi, radius) over a field (i and n_pts as field elements: j = 2i − (n_pts − 1) is negative for half of
    the points), with uninterpreted cos / sin / sqrt"""
    loops = [s for s in _body(fn) if isinstance(s, ast.For) and isinstance(s.iter, ast.Call) and getattr(s.iter.func, "id", None) == "range"
             and len(s.iter.args) == 1 and ast.unparse(s.iter.args[0]) == "n_pts"]
    if len(loops) != 1 or not isinstance(loops[0].target, ast.Name): raise T.TranslateError("sphere_fibonacci: `for i in range(n_pts)` not found")
    phis = [s for s in _body(fn) if isinstance(s, ast.Assign) and ast.unparse(s.targets[0]) == "phi"]
    ok = {"0.5 * (1.0 + np.sqrt(5.0))", "(1 + np.sqrt(5)) / 2", "(1.0 + np.sqrt(5.0)) / 2.0", "(1 + sqrt(5)) / 2", "0.5 * (1 + np.sqrt(5))"}
    if len(phis) != 1 or ast.unparse(phis[0].value) not in ok: raise T.TranslateError("sphere_fibonacci: `phi` is not the golden ratio")
    iv = loops[0].target.id
    ex = _Ex(None, [], [], ["phi", "radius", "n_pts", iv], [], {}, owner="sphere_fibonacci")
    ex.opaque_scalar_fns = {"sqrt": 1}
    apps = [s for s in loops[0].body if isinstance(s, ast.Expr) and isinstance(s.value, ast.Call) and getattr(s.value.func, "attr", None) == "append"]
    if len(apps) != 1 or loops[0].body[-1] is not apps[0]: raise T.TranslateError("sphere_fibonacci: the loop does not end with one `points.append(…)`")
    lst = ast.unparse(apps[0].value.func.value)
    ex.exec_assigns(loops[0].body, lambda s: s is apps[0])
    k, t = ex.val(apps[0].value.args[0])
    if k != "vc": raise T.TranslateError("sphere_fibonacci: appended point is not a vector")
    # the points appended are the vertices: `data.vertices += points`
    var = container_of(fn)
    if not any(isinstance(s, ast.AugAssign) and ast.unparse(s.target) == f"{var}.vertices" and ast.unparse(s.value) == lst for s in _body(fn)):
        raise T.TranslateError("sphere_fibonacci: the sampled points are not stored as the vertices")
    TREES["fibonacciPoint"] = (["phi", "radius", "n_pts", iv], [], [t])
    if iv != "i": raise T.TranslateError("sphere_fibonacci: loop variable renamed (the generated signature uses `i`)")
    return ("/-- point number `i` of `sphere_fibonacci(n_pts, radius)` (i, n_pts as field elements; phi: the golden ratio, abstract) -/\n"
            "def fibonacciPoint (cos sin sqrt : K → K) (pi : K) (phi radius n_pts i : K) : K × K × K :=\n  " + PV.L_vec(t) + "\n\n")


def translate(site_fn):
    """runs every site; writes the two generated files; returns the evidence records"""
    recs, core, geom = [], "", ""
    TREES.clear()
    for name, fn in sites():
        def run(fn=fn):
            nonlocal core, geom
            c, g = fn()
            core += c; geom += g
            return f"{len(c) + len(g)} chars"
        recs.append(site_fn(name, run))
    T.write_generated("C14Solids", core + "end Mouette.Generated.C14Solids\n",
                      header="import Mouette.Generated.C14\nset_option linter.unusedVariables false\nnamespace Mouette.Generated.C14Solids\n\n")
    T.write_generated("C14SolidsGeom", geom + "end Mouette.Generated.C14SolidsGeom\n",
                      header="import Mathlib.Algebra.Field.Basic\nset_option linter.unusedVariables false\n"
                             "namespace Mouette.Generated.C14SolidsGeom\nvariable {K : Type} [Field K]\n\n")
    return recs
