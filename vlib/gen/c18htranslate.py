"""C18, round 3: translated fragments for histories on one object (run() guards, initialised/smoothed flags, re-use of the
singularity / rotation attributes with or without clear()), for the FACE-based flag_singularities (matching arguments, border
skip, accumulation start, write guard), for `_compute_attach_weight` (filter threshold, fail value, abs(min(.))) and for the loop
of `normalize`. Output: lean/Mouette/Generated/C18Hist.lean (core Lean only; angles in turns, pi = 1/2)."""
import ast
from fractions import Fraction

from .. import translate as T
from .c18vtranslate import dotted, expr, names, call_atom, both, _one, _ratlit, _lr

BASE = "mouette/processing/framefield/base.py"
FACES = "mouette/processing/framefield/faces2d.py"
VERTS = "mouette/processing/framefield/vertex2d.py"


def _guard_block(st, flag, call):
    """`if not self.<flag>: [self.log(..)]; self.<call>(); self.<flag> = True`"""
    if not (isinstance(st, ast.If) and isinstance(st.test, ast.UnaryOp) and isinstance(st.test.op, ast.Not)
            and dotted(st.test.operand) == f"self.{flag}" and not st.orelse):
        raise T.TranslateError(f"run(): guard `if not self.{flag}` not recognised")
    body = [b for b in st.body if not (isinstance(b, ast.Expr) and isinstance(b.value, ast.Call) and dotted(b.value.func) == "self.log")]
    ok = (len(body) == 2 and isinstance(body[0], ast.Expr) and isinstance(body[0].value, ast.Call) and dotted(body[0].value.func) == f"self.{call}"
          and not body[0].value.args and isinstance(body[1], ast.Assign) and dotted(body[1].targets[0]) == f"self.{flag}"
          and isinstance(body[1].value, ast.Constant) and body[1].value.value is True)
    if not ok:
        raise T.TranslateError(f"run(): body of the `{flag}` guard is not `self.{call}(); self.{flag} = True`")


def _norm_tree(rel):
    import copy
    from .c18stranslate import Norm
    tree, _ = T.load(rel)
    tree = Norm().visit(copy.deepcopy(tree)); ast.fix_missing_locations(tree)
    return tree


def site_run():
    tree = _norm_tree(BASE)
    fn = T.find_def(tree, "FrameField.run")
    sts = [b for b in fn.body if not (isinstance(b, ast.Expr) and isinstance(b.value, ast.Call) and dotted(b.value.func) == "self.log")
           and not (isinstance(b, ast.Expr) and isinstance(b.value, ast.Constant))]
    if len(sts) != 2:
        raise T.TranslateError(f"run() does not consist of two guarded steps (found {len(sts)} statements)")
    _guard_block(sts[0], "initialized", "initialize")
    _guard_block(sts[1], "smoothed", "optimize")
    init = T.find_def(tree, "FrameField.__init__")
    flags = {}
    for s in ast.walk(init):
        if isinstance(s, (ast.Assign, ast.AnnAssign)):
            tgt = s.targets[0] if isinstance(s, ast.Assign) else s.target
            if dotted(tgt) in ("self.initialized", "self.smoothed") and isinstance(s.value, ast.Constant):
                flags[dotted(tgt)] = s.value.value
    if flags != {"self.initialized": False, "self.smoothed": False}:
        raise T.TranslateError("FrameField.__init__ does not start with initialized = smoothed = False")
    # the concrete initialize() methods set the flag themselves (so that run() after initialize() skips the first step)
    sets = {}
    for rel, cls in ((FACES, "FrameField2DFaces"), (VERTS, "FrameField2DVertices")):
        t2 = _norm_tree(rel)
        f2 = T.find_def(t2, f"{cls}.initialize")
        last = f2.body[-1]
        sets[cls] = (isinstance(last, ast.Assign) and dotted(last.targets[0]) == "self.initialized" and isinstance(last.value, ast.Constant) and last.value.value is True)
        calls = [dotted(b.value.func) for b in f2.body if isinstance(b, ast.Expr) and isinstance(b.value, ast.Call) and dotted(b.value.func) != "self.log"]
        if calls[:2] != ["self._initialize_attributes", "self._initialize_variables"]:
            raise T.TranslateError(f"{cls}.initialize does not call _initialize_attributes(); _initialize_variables()")
    return {"initSetsFlagFaces": sets["FrameField2DFaces"], "initSetsFlagVertices": sets["FrameField2DVertices"]}


def _reuse_shape(fn, var_name, container):
    """`if <container>.has_attribute(name): x = <container>.get_attribute(name); [x.clear()]  else: x = <container>.create_attribute(...)`
    -> True when the re-used attribute is cleared, False when it is not"""
    for st in ast.walk(fn):
        if isinstance(st, ast.If) and isinstance(st.test, ast.Call) and dotted(st.test.func) == f"{container}.has_attribute":
            asg = [b for b in st.body if isinstance(b, ast.Assign) and dotted(b.targets[0]) == var_name]
            if not asg: continue
            if not (isinstance(asg[0].value, ast.Call) and dotted(asg[0].value.func) == f"{container}.get_attribute"):
                raise T.TranslateError(f"{var_name}: re-use branch is not get_attribute")
            cre = [b for b in st.orelse if isinstance(b, ast.Assign) and dotted(b.targets[0]) == var_name
                   and isinstance(b.value, ast.Call) and dotted(b.value.func) == f"{container}.create_attribute"]
            if len(cre) != 1:
                raise T.TranslateError(f"{var_name}: else branch is not create_attribute")
            rest = [b for b in st.body if b is not asg[0]]
            if not rest: return False
            if (len(rest) == 1 and isinstance(rest[0], ast.Expr) and isinstance(rest[0].value, ast.Call)
                    and dotted(rest[0].value.func) == f"{var_name}.clear" and not rest[0].value.args):
                return True
            raise T.TranslateError(f"{var_name}: unexpected statements in the re-use branch")
    raise T.TranslateError(f"re-use of attribute variable {var_name} on {container} not found")


def site_reuse():
    tf, _ = T.load(FACES)
    ff = T.find_def(tf, "_BaseFrameField2DFaces.flag_singularities")
    tv, _ = T.load(VERTS)
    fv = T.find_def(tv, "_BaseFrameField2DVertices.flag_singularities")
    # FrameField2DFaces.optimize: the `fixed` face flags are either created afresh (create_attribute overrides) or re-used (then they
    # must be cleared)
    fo = T.find_def(tf, "FrameField2DFaces.optimize")
    direct = [s for s in ast.walk(fo) if isinstance(s, ast.Assign) and dotted(s.targets[0]) == "fixed"
              and isinstance(s.value, ast.Call) and dotted(s.value.func) == "self.mesh.faces.create_attribute"]
    in_if = any(isinstance(st, ast.If) and isinstance(st.test, ast.Call) and dotted(st.test.func) == "self.mesh.faces.has_attribute"
                and any(isinstance(b, ast.Assign) and dotted(b.targets[0]) == "fixed" for b in st.body) for st in ast.walk(fo))
    if in_if:
        fixed_fresh = _reuse_shape(fo, "fixed", "self.mesh.faces")
    elif len(direct) == 1 and isinstance(direct[0].value.args[0], ast.Constant) and direct[0].value.args[0].value == "fixed":
        fixed_fresh = True
    else:
        raise T.TranslateError("FrameField2DFaces.optimize: creation of the `fixed` face attribute not recognised")
    return {"facesRot": _reuse_shape(ff, "edge_rot", "self.mesh.edges"), "facesSing": _reuse_shape(ff, "singuls", "self.mesh.vertices"),
            "vertsRot": _reuse_shape(fv, "edge_rot_attr", "self.mesh.edges"), "vertsSing": _reuse_shape(fv, "singuls", "self.mesh.faces"),
            "facesFixed": fixed_fresh}


def site_faces_flag():
    from .c18stranslate import load_fn          # normalised tree (see c18stranslate.Norm)
    fn = load_fn(FACES, "_BaseFrameField2DFaces.flag_singularities")
    eloop = _one([s for s in fn.body if isinstance(s, ast.For) and isinstance(s.iter, ast.Call) and dotted(s.iter.func) == "enumerate"
                  and dotted(s.iter.args[0]) == "self.mesh.edges"], "loop over edges")
    skip = [s for s in eloop.body if isinstance(s, ast.If) and len(s.body) == 1 and isinstance(s.body[0], ast.Continue)]
    sk = _one(skip, "border skip")
    t = sk.test
    if not (isinstance(t, ast.BoolOp) and isinstance(t.op, ast.Or) and sorted(ast.unparse(v) for v in t.values) == ["T1 is None", "T2 is None"]):
        raise T.TranslateError("border skip is not `T1 is None or T2 is None`")
    for nm, (y, x) in (("a1", ("Y1", "X1")), ("a2", ("Y2", "X2"))):
        a = _one([s for s in eloop.body if isinstance(s, ast.Assign) and dotted(s.targets[0]) == nm], nm)
        if ast.unparse(a.value).replace(" ", "") != f"atan2({y}.dot(E),{x}.dot(E))":
            raise T.TranslateError(f"{nm} is not atan2({y}.dot(E), {x}.dot(E))")
    u2 = _one([s for s in eloop.body if isinstance(s, ast.Assign) and dotted(s.targets[0]) == "u2"], "u2")
    if ast.unparse(u2.value).replace(" ", "") != "utils.maths.roots(f2,self.order)[0]":
        raise T.TranslateError("u2 is not roots(f2, order)[0]")
    an = _one([s for s in eloop.body if isinstance(s, ast.Assign) and dotted(s.targets[0]) == "angles"], "angles")
    lc = an.value
    if not (isinstance(lc, ast.ListComp) and isinstance(lc.elt, ast.Call) and dotted(lc.elt.func) == "utils.maths.angle_diff"
            and ast.unparse(lc.generators[0].iter).replace(" ", "") == "utils.maths.roots(f1,self.order)" and dotted(lc.generators[0].target) == "u1"):
        raise T.TranslateError("angles is not [angle_diff(.., ..) for u1 in roots(f1, order)]")
    at = both(call_atom("cmath.phase", {("u2",): "p2", ("u1",): "p1"}), names({"a1": "a1", "a2": "a2"}))
    fst, snd = expr(lc.elt.args[0], at), expr(lc.elt.args[1], at)
    am = _one([s for s in eloop.body if isinstance(s, ast.Assign) and dotted(s.targets[0]) == "i_angle"], "i_angle")
    if ast.unparse(am.value).replace(" ", "") != "np.argmin(abs_angles)":
        raise T.TranslateError("i_angle is not np.argmin(abs_angles)")
    st = _one([s for s in eloop.body if isinstance(s, ast.Assign) and isinstance(s.targets[0], ast.Subscript) and dotted(s.targets[0].value) == "edge_rot"], "edge_rot store")
    if ast.unparse(st.value).replace(" ", "") != "angles[i_angle]" or dotted(st.targets[0].slice) != "ie":
        raise T.TranslateError("edge_rot[ie] is not angles[i_angle]")
    vloop = _one([s for s in fn.body if isinstance(s, ast.For) and dotted(s.iter) == "self.mesh.id_vertices"], "loop over vertices")
    start = _one([s for s in vloop.body if isinstance(s, ast.Assign) and dotted(s.targets[0]) == "angle"], "angle = ...")
    if ast.unparse(start.value).replace(" ", "") != "self.defect[v]":
        raise T.TranslateError("the holonomy sum does not start from self.defect[v]")
    wr = _one([s for s in vloop.body if isinstance(s, ast.If)], "write guard")
    if ast.unparse(wr.test).replace(" ", "") not in ("abs(angle)>ZERO_THRESHOLD", "ZERO_THRESHOLD<abs(angle)"):
        raise T.TranslateError("write guard is not abs(angle) > ZERO_THRESHOLD")
    return {"fst": fst, "snd": snd}


def site_attach_weight():
    out = {}
    for rel, cls in ((FACES, "_BaseFrameField2DFaces"), (VERTS, "_BaseFrameField2DVertices")):
        tree, _ = T.load(rel)
        fn = T.find_def(tree, f"{cls}._compute_attach_weight")
        d = fn.args.defaults
        if not (len(d) == 1 and fn.args.args[-1].arg == "fail_value"):
            raise T.TranslateError("fail_value default not found")
        fail = _ratlit(d[0])
        nz = _one([s for s in fn.body if isinstance(s, ast.Assign) and dotted(s.targets[0]) == "eigs_non_zero"], "eigs_non_zero")
        lc = nz.value
        if not (isinstance(lc, ast.ListComp) and dotted(lc.elt) == "e" and dotted(lc.generators[0].iter) == "eigs" and len(lc.generators[0].ifs) == 1):
            raise T.TranslateError("eigs_non_zero is not a filter of eigs")
        c = lc.generators[0].ifs[0]
        if not (isinstance(c, ast.Compare) and isinstance(c.ops[0], ast.Gt) and ast.unparse(c.left).replace(" ", "") == "abs(e)"):
            raise T.TranslateError("filter is not abs(e) > THR")
        thr = _ratlit(c.comparators[0])
        tail = fn.body[-2:]
        if not (isinstance(tail[0], ast.If) and ast.unparse(tail[0].test).replace(" ", "") == "len(eigs_non_zero)==0"
                and isinstance(tail[0].body[0], ast.Return) and dotted(tail[0].body[0].value) == "fail_value"
                and isinstance(tail[1], ast.Return) and ast.unparse(tail[1].value).replace(" ", "") == "abs(min(eigs_non_zero))"):
            raise T.TranslateError("tail is not `if len(eigs_non_zero)==0: return fail_value; return abs(min(eigs_non_zero))`")
        out[cls] = (fail, thr)
    if out["_BaseFrameField2DFaces"] != out["_BaseFrameField2DVertices"]:
        raise T.TranslateError("face- and vertex-based attach weights use different constants")
    fail, thr = out["_BaseFrameField2DFaces"]
    # use site: alpha = self.smooth_attach_weight or self._compute_attach_weight(A)
    for rel, cls in ((FACES, "FrameField2DFaces"), (VERTS, "FrameField2DVertices")):
        tree, _ = T.load(rel)
        fn = T.find_def(tree, f"{cls}.optimize")
        uses = [s for s in ast.walk(fn) if isinstance(s, ast.Assign) and dotted(s.targets[0]) == "alpha"]
        if not uses or any(ast.unparse(u.value).replace(" ", "") != "self.smooth_attach_weightorself._compute_attach_weight(A)" for u in uses):
            raise T.TranslateError(f"{cls}.optimize: alpha is not `self.smooth_attach_weight or self._compute_attach_weight(A)`")
    return {"fail": fail, "thr": thr}


def site_normalize_loop():
    tree, _ = T.load(BASE)
    fn = T.find_def(tree, "FrameField.normalize")
    loop = _one([s for s in fn.body if isinstance(s, ast.For)], "loop of normalize")
    if ast.unparse(loop.iter).replace(" ", "") not in ("range(self.var.size)", "range(len(self.var))") or not isinstance(loop.target, ast.Name):
        raise T.TranslateError("normalize does not loop over range(self.var.size)")
    iff = _one([s for s in loop.body if isinstance(s, ast.If)], "guard of normalize")
    from .c18translate import is_self_division
    b = iff.body[0]
    tgt = b.target if isinstance(b, ast.AugAssign) else (b.targets[0] if isinstance(b, ast.Assign) else None)
    if not (len(iff.body) == 1 and not iff.orelse and is_self_division(b) and tgt is not None
            and ast.unparse(tgt).replace(" ", "") == f"self.var[{loop.target.id}]"
            and f"abs(self.var[{loop.target.id}])" in (ast.unparse(iff.test.left).replace(" ", ""), ast.unparse(iff.test.comparators[0]).replace(" ", ""))):
        raise T.TranslateError("normalize body is not `if abs(var[i]) > T: var[i] /= abs(var[i])`")
    return {"everyIndex": True}


def _b(x):
    return "true" if x else "false"


def run():
    out, recs = {}, []

    def wrap(name, fn):
        def g():
            out[name] = fn()
            return {k: str(v) for k, v in out[name].items()}
        recs.append(T.site(name, g))
    wrap("base.FrameField.run / __init__ / initialize: guard structure and flags", site_run)
    wrap("faces2d / vertex2d flag_singularities: re-use of the 'angles' and 'singuls' attributes (clear or not)", site_reuse)
    wrap("faces2d.flag_singularities: border skip, edge angles, matching arguments, argmin, start of the sum, write guard", site_faces_flag)
    wrap("faces2d / vertex2d _compute_attach_weight: filter threshold, fail value, abs(min(.)); use site in optimize", site_attach_weight)
    wrap("base.FrameField.normalize: loop over every index, guarded in-place division", site_normalize_loop)
    if all(r["ok"] for r in recs):
        ru, re_, ffl, aw, _nl = (out[r["site"]] for r in recs)
        body = f"""set_option linter.unusedVariables false
namespace Mouette.Generated.C18H

/-- base.py `FrameField.run`: `if not initialized: initialize(); initialized = True` then `if not smoothed: optimize(); smoothed = True`
(shape checked by the translator); the concrete `initialize()` methods set `self.initialized = True` themselves: -/
def initializeSetsFlagFaces : Bool := {_b(ru['initSetsFlagFaces'])}
def initializeSetsFlagVertices : Bool := {_b(ru['initSetsFlagVertices'])}

/-- `flag_singularities`: is an attribute that already exists on the mesh cleared before it is filled again? -/
def facesRotCleared : Bool := {_b(re_['facesRot'])}
def facesSingulsCleared : Bool := {_b(re_['facesSing'])}
def vertsRotCleared : Bool := {_b(re_['vertsRot'])}
def vertsSingulsCleared : Bool := {_b(re_['vertsSing'])}

/-- faces2d.py `FrameField2DFaces.optimize`: the `fixed` face flags start from all-False at every call (created afresh, or cleared) -/
def facesFixedFresh : Bool := {_b(re_['facesFixed'])}

/-- faces2d.py `flag_singularities`: the two arguments of `angle_diff` (p2, p1 the phases of the roots u2, u1; turns) -/
def faceMatchFst (p2 a2 p1 a1 : Rat) : Rat := {ffl['fst']}
def faceMatchSnd (p2 a2 p1 a1 : Rat) : Rat := {ffl['snd']}

/-- `_compute_attach_weight`: `[e for e in eigs if abs(e) > <thr>]`, `fail_value` -/
def attachFilterThreshold : Rat := {_lr(aw['thr'])}
def attachFailValue : Rat := {_lr(aw['fail'])}

end Mouette.Generated.C18H
"""
        _, sha = T.write_generated("C18Hist", body)
        for r in recs: r["detail"] = f"{r['detail']} [file sha {sha}]"
    if not all(r["ok"] for r in recs):
        from .c18stranslate import write_stub
        write_stub("C18Hist", recs)          # never leave the file of an earlier tree on disk
    return recs
