"""C19 translated fragments: Python `ast` -> Lean (lean/Mouette/Generated/C19*.lean), re-extracted on every run.

Sites
  bezier.py: BezierPatch.as_surface   vertex loop bounds, face loop bounds, the 4 index expressions of a quad
  bezier.py: BezierCurve.as_polyline  edge loop bound (in terms of n_pts and len(points)), the edge pair
  sampling.py: sample_ball            the straight-line numpy statements as one scalar expression per coordinate
                                      (order of cbrt / scaling / uniform bounds)
  sampling.py: sample_AABB            the `points` expression of the two modes (affine map present or not)
  aabb.py: AABB.span                  `maxi - mini`
A site whose AST shape is not recognised comes back ok=False (broken obligation).
"""
import ast
from fractions import Fraction

from .. import translate as T
from ..translate import TranslateError

NS = "namespace Mouette.Generated.C19\n\n"
END = "\nend Mouette.Generated.C19\n"


# ------------------------------------------------------------------------------------------------
# integer expressions (indices, range bounds)
# ------------------------------------------------------------------------------------------------
def int_expr(node, names):
    """integer expression over the allowed names; `len(points)` is the symbol len_points"""
    if isinstance(node, ast.Constant) and isinstance(node.value, int) and not isinstance(node.value, bool):
        if node.value < 0: raise TranslateError("negative literal in a Nat expression")
        return str(node.value)
    if isinstance(node, ast.Name):
        if node.id not in names: raise TranslateError(f"unexpected name {node.id} in index expression")
        return names[node.id]
    if isinstance(node, ast.Call) and isinstance(node.func, ast.Name) and node.func.id == "len" and len(node.args) == 1 \
            and isinstance(node.args[0], ast.Name) and ("len_" + node.args[0].id) in names:
        return names["len_" + node.args[0].id]
    if isinstance(node, ast.BinOp) and type(node.op) in (ast.Add, ast.Sub, ast.Mult):
        op = {ast.Add: "+", ast.Sub: "-", ast.Mult: "*"}[type(node.op)]
        return f"({int_expr(node.left, names)} {op} {int_expr(node.right, names)})"
    raise TranslateError(f"unsupported index expression: {ast.dump(node)[:120]}")


def _range_arg(node):
    if isinstance(node, ast.Call) and isinstance(node.func, ast.Name) and node.func.id == "range" and len(node.args) == 1:
        return node.args[0]
    raise TranslateError(f"loop is not `for .. in range(<one arg>)`: {ast.dump(node)[:100]}")


def _append_call(stmt, container):
    """`out.<container>.append(X)` -> X"""
    if isinstance(stmt, ast.Expr) and isinstance(stmt.value, ast.Call):
        f = stmt.value.func
        if isinstance(f, ast.Attribute) and f.attr == "append" and isinstance(f.value, ast.Attribute) and f.value.attr == container \
                and len(stmt.value.args) == 1:
            return stmt.value.args[0]
    return None


def _contains_append(body, container):
    for s in body:
        for n in ast.walk(s):
            if isinstance(n, ast.Expr) and _append_call(n, container) is not None:
                return True
    return False


def site_as_surface():
    tree, _ = T.load("mouette/splines/bezier.py")
    fn = T.find_def(tree, "BezierPatch.as_surface")
    args = [a.arg for a in fn.args.args]
    if args[:3] != ["self", "n1", "n2"]:
        raise TranslateError(f"as_surface signature changed: {args}")
    loops = [s for s in fn.body if isinstance(s, ast.For)]
    vloops = [l for l in loops if _contains_append(l.body, "vertices")]
    floops = [l for l in loops if _contains_append(l.body, "faces")]
    if len(vloops) != 1 or len(floops) != 1:
        raise TranslateError("expected exactly one vertex loop nest and one face loop nest")

    def nest(loop, container):
        if not (isinstance(loop.target, ast.Name)): raise TranslateError("outer loop target")
        inner = [s for s in loop.body if isinstance(s, ast.For)]
        if len(inner) != 1 or not isinstance(inner[0].target, ast.Name): raise TranslateError("inner loop")
        if _contains_append([s for s in loop.body if s is not inner[0]], container):
            raise TranslateError("append outside the inner loop")
        apps = [_append_call(s, container) for s in inner[0].body if _append_call(s, container) is not None]
        if len(apps) != 1: raise TranslateError(f"expected one {container}.append per inner iteration")
        return loop.target.id, inner[0].target.id, _range_arg(loop.iter), _range_arg(inner[0].iter), apps[0]

    vi, vj, vI, vJ, _ = nest(vloops[0], "vertices")
    fi, fj, fI, fJ, tup = nest(floops[0], "faces")
    if not isinstance(tup, ast.Tuple) or len(tup.elts) != 4:
        raise TranslateError("faces.append argument is not a 4-tuple")
    names = {"n1": "n1", "n2": "n2"}
    if len({fi, fj, "n1", "n2"}) != 4: raise TranslateError("loop variables shadow parameters")
    quad = [int_expr(e, dict(names, **{fi: "i", fj: "j"})) for e in tup.elts]
    body = NS
    body += f"/-- vertex loops of `as_surface`: `for i in range(·): for j in range(·): vertices.append` -/\n"
    body += f"def surfVertRangeI (n1 n2 : Nat) : Nat := {int_expr(vI, names)}\n"
    body += f"def surfVertRangeJ (n1 n2 : Nat) : Nat := {int_expr(vJ, names)}\n"
    body += f"/-- face loops of `as_surface` -/\n"
    body += f"def surfFaceRangeI (n1 n2 : Nat) : Nat := {int_expr(fI, names)}\n"
    body += f"def surfFaceRangeJ (n1 n2 : Nat) : Nat := {int_expr(fJ, names)}\n"
    body += f"/-- the tuple appended to `out.faces` for cell `(i,j)`, verbatim -/\n"
    body += f"def surfQuad (n1 n2 i j : Nat) : List Nat := [{', '.join(quad)}]\n" + END
    _, sha = T.write_generated("C19Surf", body)
    return {"sha": sha, "quad": quad, "ranges": [int_expr(x, names) for x in (vI, vJ, fI, fJ)]}


def site_as_polyline():
    tree, _ = T.load("mouette/splines/bezier.py")
    fn = T.find_def(tree, "BezierCurve.as_polyline")
    # the vertex loop must be `for it,t in enumerate(points)`; `points` is linspace(0,1,n_pts) or custom_pos
    vloops = [s for s in fn.body if isinstance(s, ast.For) and _contains_append(s.body, "vertices")]
    eloops = [s for s in fn.body if isinstance(s, ast.For) and _contains_append(s.body, "edges")]
    if len(vloops) != 1 or len(eloops) != 1: raise TranslateError("expected one vertex loop and one edge loop")
    it = vloops[0].iter
    if not (isinstance(it, ast.Call) and isinstance(it.func, ast.Name) and it.func.id == "enumerate" and isinstance(it.args[0], ast.Name)):
        raise TranslateError("vertex loop is not `for it,t in enumerate(<name>)`")
    pts_name = it.args[0].id
    # linspace branch: <pts_name> = np.linspace(0,1,n_pts)
    ok_lin = False
    for n in ast.walk(fn):
        if isinstance(n, ast.Assign) and isinstance(n.targets[0], ast.Name) and n.targets[0].id == pts_name and isinstance(n.value, ast.Call) \
                and isinstance(n.value.func, ast.Attribute) and n.value.func.attr == "linspace":
            a = n.value.args
            if len(a) == 3 and isinstance(a[2], ast.Name) and a[2].id == "n_pts" and [getattr(x, "value", None) for x in a[:2]] == [0, 1]:
                ok_lin = True
    if not ok_lin: raise TranslateError("default positions are not np.linspace(0,1,n_pts)")
    el = eloops[0]
    if not isinstance(el.target, ast.Name): raise TranslateError("edge loop target")
    iv = el.target.id
    tup = [_append_call(s, "edges") for s in el.body if _append_call(s, "edges") is not None]
    if len(tup) != 1 or not isinstance(tup[0], ast.Tuple) or len(tup[0].elts) != 2: raise TranslateError("edges.append argument is not a pair")
    names = {"n_pts": "n_pts", "len_" + pts_name: "len_points"}
    bound = int_expr(_range_arg(el.iter), names)
    pair = [int_expr(e, {iv: "i"}) for e in tup[0].elts]
    body = NS
    body += "/-- `as_polyline`: bound of the edge loop; `len_points` = number of sampled positions (= `n_pts` when no custom positions) -/\n"
    body += f"def polyEdgeRange (n_pts len_points : Nat) : Nat := {bound}\n"
    body += f"def polyEdge (i : Nat) : List Nat := [{', '.join(pair)}]\n" + END
    _, sha = T.write_generated("C19Poly", body)
    return {"sha": sha, "bound": bound, "pair": pair}


# ------------------------------------------------------------------------------------------------
# rational straight-line expressions (sample_ball, sample_AABB)
# ------------------------------------------------------------------------------------------------
def _num(node):
    if isinstance(node, ast.Constant) and isinstance(node.value, (int, float)) and not isinstance(node.value, bool):
        f = Fraction(node.value)
        return f"({f.numerator} : Rat)" if f.denominator == 1 else f"(({f.numerator} : Rat) / {f.denominator})"
    return None


def _is_attr_chain(node, chain):
    """np.random.normal -> ['np','random','normal']"""
    parts = []
    while isinstance(node, ast.Attribute):
        parts.append(node.attr); node = node.value
    if isinstance(node, ast.Name): parts.append(node.id)
    return parts[::-1] == chain


class Sym:
    def __init__(self, params, atoms):
        self.params, self.atoms, self.env = params, atoms, {}

    def ev(self, node):
        n = _num(node)
        if n is not None: return n
        if isinstance(node, ast.Name):
            if node.id in self.env: return self.env[node.id]
            if node.id in self.params: return self.params[node.id]
            raise TranslateError(f"unbound name {node.id}")
        if isinstance(node, ast.BinOp) and type(node.op) in (ast.Add, ast.Sub, ast.Mult, ast.Div):
            op = {ast.Add: "+", ast.Sub: "-", ast.Mult: "*", ast.Div: "/"}[type(node.op)]
            return f"({self.ev(node.left)} {op} {self.ev(node.right)})"
        if isinstance(node, ast.UnaryOp) and isinstance(node.op, ast.USub):
            return f"(-{self.ev(node.operand)})"
        for rec in self.atoms:
            r = rec(self, node)
            if r is not None: return r
        raise TranslateError(f"unsupported expression: {ast.dump(node)[:140]}")

    def run(self, stmts, tracked):
        for s in stmts:
            if isinstance(s, ast.Expr) and isinstance(s.value, ast.Constant): continue          # docstring
            if isinstance(s, ast.Assign) and len(s.targets) == 1 and isinstance(s.targets[0], ast.Name):
                self.env[s.targets[0].id] = self.ev(s.value); continue
            if isinstance(s, ast.AugAssign) and isinstance(s.target, ast.Name) and type(s.op) in (ast.Add, ast.Sub, ast.Mult, ast.Div):
                op = {ast.Add: "+", ast.Sub: "-", ast.Mult: "*", ast.Div: "/"}[type(s.op)]
                self.env[s.target.id] = f"({self.ev(ast.Name(id=s.target.id))} {op} {self.ev(s.value)})"; continue
            touched = {n.id for n in ast.walk(s) if isinstance(n, ast.Name) and isinstance(n.ctx, ast.Store)}
            if touched & tracked:
                raise TranslateError(f"unrecognised statement writes {touched & tracked}: {ast.dump(s)[:100]}")
            raise TranslateError(f"unrecognised statement: {ast.dump(s)[:100]}")


def _atom_normal_dir(sym, node):
    # np.vstack([np.random.normal(0.,1.,size=n_pts)] x3).T
    if isinstance(node, ast.Attribute) and node.attr == "T" and isinstance(node.value, ast.Call) and _is_attr_chain(node.value.func, ["np", "vstack"]):
        lst = node.value.args[0]
        if isinstance(lst, ast.List) and len(lst.elts) == 3 and all(
                isinstance(c, ast.Call) and _is_attr_chain(c.func, ["np", "random", "normal"]) and len(c.args) == 2
                and Fraction(getattr(c.args[0], "value", 1)) == 0 and Fraction(getattr(c.args[1], "value", 0)) == 1 for c in lst.elts):
            return "g"
    return None


def _atom_norm(sym, node):
    if isinstance(node, ast.Call) and _is_attr_chain(node.func, ["np", "linalg", "norm"]) and len(node.args) == 1:
        kws = {k.arg: getattr(k.value, "value", None) for k in node.keywords}
        if kws == {"axis": 1, "keepdims": True} and sym.ev(node.args[0]) == "g":
            return "nrm"
        raise TranslateError("np.linalg.norm is not applied to the raw normal draws with axis=1, keepdims=True")
    return None


def _atom_uniform(sym, node):
    if isinstance(node, ast.Call) and _is_attr_chain(node.func, ["np", "random", "uniform"]) and len(node.args) == 3:
        lo, hi = sym.ev(node.args[0]), sym.ev(node.args[1])
        return f"({lo} + (({hi} - {lo}) * u))"
    return None


def _atom_reshape(sym, node):
    if isinstance(node, ast.Call) and isinstance(node.func, ast.Attribute) and node.func.attr == "reshape":
        return sym.ev(node.func.value)
    return None


def _atom_cbrt(sym, node):
    if isinstance(node, ast.Call) and _is_attr_chain(node.func, ["np", "cbrt"]) and len(node.args) == 1:
        return f"(cbrt {sym.ev(node.args[0])})"
    return None


def _final_value(fn, sym, var):
    """statements up to the trailing `if return_point_cloud: ... else: return <var>`"""
    body = list(fn.body)
    last = body[-1]
    if isinstance(last, ast.If) and isinstance(last.test, ast.Name) and last.test.id == "return_point_cloud" \
            and last.orelse and isinstance(last.orelse[-1], ast.Return) and isinstance(last.orelse[-1].value, ast.Name):
        ret = last.orelse[-1].value.id
        body = body[:-1]
    else:
        raise TranslateError("function does not end with `if return_point_cloud: .. else: return <name>`")
    return body, ret


def site_sample_ball():
    tree, _ = T.load("mouette/sampling.py")
    fn = T.find_def(tree, "sample_ball")
    sym = Sym({"center": "center", "radius": "radius"}, [_atom_normal_dir, _atom_norm, _atom_uniform, _atom_reshape, _atom_cbrt])
    body, ret = _final_value(fn, sym, "pts")
    sym.run(body, {"pts", "R"})
    if ret not in sym.env: raise TranslateError(f"returned name {ret} never assigned")
    expr = sym.env[ret]
    for need in ("g", "nrm", "u", "cbrt", "radius", "center"):
        if need not in expr: raise TranslateError(f"returned expression does not use `{need}`: {expr}")
    out = NS
    out += "/-- one coordinate of the array returned by `sample_ball`, as the straight-line numpy statements compute it:\n"
    out += "`g` a standard normal draw of that coordinate, `nrm` the norm of the draw, `u` the uniform[0,1) draw behind\n"
    out += "`np.random.uniform(lo,hi)` (= lo + (hi-lo)*u), `cbrt` numpy's cube root. -/\n"
    out += f"def ballCoord (cbrt : Rat → Rat) (center radius g nrm u : Rat) : Rat :=\n  {expr}\n" + END
    _, sha = T.write_generated("C19Ball", out)
    return {"sha": sha, "expr": expr}


def _atom_box(sym, node):
    if isinstance(node, ast.Attribute) and isinstance(node.value, ast.Name) and node.value.id == "box" and node.attr in ("mini", "maxi", "span"):
        return {"mini": "mini", "maxi": "maxi", "span": "(span mini maxi)"}[node.attr]
    return None


def _atom_random(sym, node):
    # random((n_pts, box.dim))
    if isinstance(node, ast.Call) and isinstance(node.func, ast.Name) and node.func.id == "random" and len(node.args) == 1 \
            and isinstance(node.args[0], ast.Tuple) and len(node.args[0].elts) == 2:
        return "x"
    return None


def _atom_res(sym, node):
    if isinstance(node, ast.Call) and isinstance(node.func, ast.Name) and node.func.id == "round" and len(node.args) == 1:
        a = node.args[0]
        if isinstance(a, ast.Call) and _is_attr_chain(a.func, ["np", "power"]) and len(a.args) == 2 and isinstance(a.args[0], ast.Name) \
                and a.args[0].id == "n_pts" and isinstance(a.args[1], ast.BinOp) and isinstance(a.args[1].op, ast.Div) \
                and getattr(a.args[1].left, "value", None) == 1 and ast.unparse(a.args[1].right) == "box.dim":
            return "RES"
        raise TranslateError("grid resolution is not round(np.power(n_pts, 1/box.dim))")
    return None


def _atom_axes(sym, node):
    if isinstance(node, ast.GeneratorExp) and len(node.generators) == 1:
        e, g = node.elt, node.generators[0]
        if isinstance(e, ast.Call) and _is_attr_chain(e.func, ["np", "linspace"]) and len(e.args) == 3 \
                and [getattr(x, "value", None) for x in e.args[:2]] == [0, 1] and sym.ev(e.args[2]) == "RES" \
                and ast.unparse(g.iter) == "range(box.dim)":
            return "AXES"
        raise TranslateError("grid axes are not (np.linspace(0,1,res) for _ in range(box.dim))")
    return None


def _atom_meshgrid(sym, node):
    if isinstance(node, ast.Attribute) and node.attr == "T" and isinstance(node.value, ast.Call) and _is_attr_chain(node.value.func, ["np", "vstack"]):
        import copy
        arg = copy.deepcopy(node.value.args[0])
        for n in ast.walk(arg):      # the ordering convention of meshgrid does not matter for the set of grid points
            if isinstance(n, ast.Call) and _is_attr_chain(n.func, ["np", "meshgrid"]):
                n.keywords = [k for k in n.keywords if k.arg != "indexing"]
        src = ast.unparse(arg)
        if src == "list(map(np.ravel, np.meshgrid(*Xdims)))" and sym.env.get("Xdims") == "AXES":
            return "x"
        raise TranslateError(f"unit grid is not np.vstack(list(map(np.ravel, np.meshgrid(*Xdims)))).T: {src}")
    return None


def site_sample_aabb():
    tree, _ = T.load("mouette/sampling.py")
    fn = T.find_def(tree, "sample_AABB")
    chain = [s for s in fn.body if isinstance(s, ast.If) and isinstance(s.test, ast.Compare) and ast.unparse(s.test).startswith("mode ==")]
    if len(chain) != 1: raise TranslateError("mode dispatch `if mode==...` not found")
    top = chain[0]
    branches = {}
    node = top
    while True:
        key = ast.unparse(node.test)
        if not (isinstance(node.test.comparators[0], ast.Constant)): raise TranslateError("mode compared with a non literal")
        branches[node.test.comparators[0].value] = node.body
        if len(node.orelse) == 1 and isinstance(node.orelse[0], ast.If) and ast.unparse(node.orelse[0].test).startswith("mode =="):
            node = node.orelse[0]
        elif not node.orelse: break
        else: raise TranslateError(f"unexpected else branch after {key}")
    if set(branches) != {"uniform", "grid"}: raise TranslateError(f"modes are {sorted(branches)}")
    # statements after the dispatch must not rewrite `points` (other than returning it)
    after = fn.body[fn.body.index(top) + 1:]
    for s in after:
        for n in ast.walk(s):
            if isinstance(n, ast.Name) and n.id == "points" and isinstance(n.ctx, ast.Store):
                raise TranslateError("`points` is rewritten after the mode dispatch")
    exprs = {}
    for mode, stmts in branches.items():
        sym = Sym({}, [_atom_box, _atom_random, _atom_res, _atom_axes, _atom_meshgrid])
        sym.run(stmts, {"points"})
        if "points" not in sym.env: raise TranslateError(f"mode {mode}: `points` not assigned")
        exprs[mode] = sym.env["points"]
    # aabb.py: span / mini / maxi
    atree, _ = T.load("mouette/geometry/aabb.py")

    def prop_ret(name):
        f = T.find_def(atree, "AABB." + name)
        rets = [s for s in f.body if isinstance(s, ast.Return)]
        if len(rets) != 1: raise TranslateError(f"AABB.{name}: expected a single return")
        return rets[0].value
    m, M_ = ast.unparse(prop_ret("mini")), ast.unparse(prop_ret("maxi"))
    sp = prop_ret("span")
    if not (isinstance(sp, ast.BinOp) and isinstance(sp.op, ast.Sub) and {ast.unparse(sp.left), ast.unparse(sp.right)} <= {m, M_}):
        raise TranslateError(f"AABB.span is not a difference of the corner attributes: {ast.unparse(sp)}")
    nm = {m: "mini", M_: "maxi"}
    span = f"({nm[ast.unparse(sp.left)]} - {nm[ast.unparse(sp.right)]})"
    out = NS
    out += "/-- `AABB.span` (aabb.py) -/\n"
    out += f"def span (mini maxi : Rat) : Rat := {span}\n"
    out += "/-- one coordinate of `points` in `sample_AABB(mode=\"uniform\")`; `x` = the uniform[0,1) draw -/\n"
    out += f"def aabbUniformCoord (mini maxi x : Rat) : Rat := {exprs['uniform']}\n"
    out += "/-- one coordinate of `points` in `sample_AABB(mode=\"grid\")`; `x` = the unit-grid coordinate (`linspace(0,1,res)[k]`) -/\n"
    out += f"def aabbGridCoord (mini maxi x : Rat) : Rat := {exprs['grid']}\n" + END
    _, sha = T.write_generated("C19Box", out)
    return {"sha": sha, "uniform": exprs["uniform"], "grid": exprs["grid"], "span": span}


def translate():
    return [
        T.site("bezier.py: BezierPatch.as_surface (loop bounds, quad index expressions)", site_as_surface),
        T.site("bezier.py: BezierCurve.as_polyline (edge loop bound, edge pair)", site_as_polyline),
        T.site("sampling.py: sample_ball (operation order as an expression tree)", site_sample_ball),
        T.site("sampling.py: sample_AABB + aabb.py: span (points expression of both modes)", site_sample_aabb),
    ]
