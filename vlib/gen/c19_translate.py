"""C19 translated fragments: Python `ast` -> Lean (lean/Mouette/Generated/C19*.lean), re-extracted on every run.

Sites
  bezier.py: BezierPatch.as_surface   vertex loop bounds, face loop bounds, the 4 index expressions of a quad
  bezier.py: BezierCurve.as_polyline  edge loop bound (in terms of n_pts and len(points)), the edge pair
  sampling.py: sample_ball            the straight-line numpy statements as one scalar expression per coordinate
                                      (order of cbrt / scaling / uniform bounds)
  sampling.py: sample_AABB            the `points` expression of the two modes (affine map present or not)
  aabb.py: AABB.span                  `maxi - mini`
A site whose AST shape is not recognised comes back ok=False (broken obligation).
"""
import ast
from fractions import Fraction

from .. import translate as T
from ..translate import TranslateError

NS = "namespace Mouette.Generated.C19\n\n"
END = "\nend Mouette.Generated.C19\n"


# ------------------------------------------------------------------------------------------------
# integer expressions (indices, range bounds)
# ------------------------------------------------------------------------------------------------
def int_expr(node, names):
    """integer expression over the allowed names; `len(points)` is the symbol len_points"""
    if isinstance(node, ast.Constant) and isinstance(node.value, int) and not isinstance(node.value, bool):
        if node.value < 0: raise TranslateError("negative literal in a Nat expression")
        return str(node.value)
    if isinstance(node, ast.Name):
        if node.id not in names: raise TranslateError(f"unexpected name {node.id} in index expression")
        return names[node.id]
    if isinstance(node, ast.Call) and isinstance(node.func, ast.Name) and node.func.id == "len" and len(node.args) == 1 \
            and isinstance(node.args[0], ast.Name) and ("len_" + node.args[0].id) in names:
        return names["len_" + node.args[0].id]
    if isinstance(node, ast.BinOp) and type(node.op) in (ast.Add, ast.Sub, ast.Mult):
        op = {ast.Add: "+", ast.Sub: "-", ast.Mult: "*"}[type(node.op)]
        return f"({int_expr(node.left, names)} {op} {int_expr(node.right, names)})"
    raise TranslateError(f"unsupported index expression: {ast.dump(node)[:120]}")


def _range_arg(node):
    if isinstance(node, ast.Call) and isinstance(node.func, ast.Name) and node.func.id == "range" and len(node.args) == 1:
        return node.args[0]
    raise TranslateError(f"loop is not `for .. in range(<one arg>)`: {ast.dump(node)[:100]}")


def _append_call(stmt, container):
    """`out.<container>.append(X)` -> X"""
    if isinstance(stmt, ast.Expr) and isinstance(stmt.value, ast.Call):
        f = stmt.value.func
        if isinstance(f, ast.Attribute) and f.attr == "append" and isinstance(f.value, ast.Attribute) and f.value.attr == container \
                and len(stmt.value.args) == 1:
            return stmt.value.args[0]
    return None


def _contains_append(body, container):
    for s in body:
        for n in ast.walk(s):
            if isinstance(n, ast.Expr) and _append_call(n, container) is not None:
                return True
    return False


def site_as_surface():
    tree, _ = T.load("mouette/splines/bezier.py")
    fn = T.find_def(tree, "BezierPatch.as_surface")
    args = [a.arg for a in fn.args.args]
    if args[:3] != ["self", "n1", "n2"]:
        raise TranslateError(f"as_surface signature changed: {args}")
    loops = [s for s in fn.body if isinstance(s, ast.For)]
    vloops = [l for l in loops if _contains_append(l.body, "vertices")]
    floops = [l for l in loops if _contains_append(l.body, "faces")]
    if len(vloops) != 1 or len(floops) != 1:
        raise TranslateError("expected exactly one vertex loop nest and one face loop nest")

    def nest(loop, container):
        if not (isinstance(loop.target, ast.Name)): raise TranslateError("outer loop target")
        inner = [s for s in loop.body if isinstance(s, ast.For)]
        if len(inner) != 1 or not isinstance(inner[0].target, ast.Name): raise TranslateError("inner loop")
        if _contains_append([s for s in loop.body if s is not inner[0]], container):
            raise TranslateError("append outside the inner loop")
        apps = [_append_call(s, container) for s in inner[0].body if _append_call(s, container) is not None]
        if len(apps) != 1: raise TranslateError(f"expected one {container}.append per inner iteration")
        return loop.target.id, inner[0].target.id, _range_arg(loop.iter), _range_arg(inner[0].iter), apps[0]

    vi, vj, vI, vJ, _ = nest(vloops[0], "vertices")
    fi, fj, fI, fJ, tup = nest(floops[0], "faces")
    if not isinstance(tup, ast.Tuple) or len(tup.elts) != 4:
        raise TranslateError("faces.append argument is not a 4-tuple")
    names = {"n1": "n1", "n2": "n2"}
    if len({fi, fj, "n1", "n2"}) != 4: raise TranslateError("loop variables shadow parameters")
    quad = [int_expr(e, dict(names, **{fi: "i", fj: "j"})) for e in tup.elts]
    body = NS
    body += f"/-- vertex loops of `as_surface`: `for i in range(·): for j in range(·): vertices.append` -/\n"
    body += f"def surfVertRangeI (n1 n2 : Nat) : Nat := {int_expr(vI, names)}\n"
    body += f"def surfVertRangeJ (n1 n2 : Nat) : Nat := {int_expr(vJ, names)}\n"
    body += f"/-- face loops of `as_surface` -/\n"
    body += f"def surfFaceRangeI (n1 n2 : Nat) : Nat := {int_expr(fI, names)}\n"
    body += f"def surfFaceRangeJ (n1 n2 : Nat) : Nat := {int_expr(fJ, names)}\n"
    body += f"/-- the tuple appended to `out.faces` for cell `(i,j)`, verbatim -/\n"
    body += f"def surfQuad (n1 n2 i j : Nat) : List Nat := [{', '.join(quad)}]\n" + END
    _, sha = T.write_generated("C19Surf", body)
    return {"sha": sha, "quad": quad, "ranges": [int_expr(x, names) for x in (vI, vJ, fI, fJ)]}


def site_as_polyline():
    tree, _ = T.load("mouette/splines/bezier.py")
    fn = T.find_def(tree, "BezierCurve.as_polyline")
    # the vertex loop must be `for it,t in enumerate(points)`; `points` is linspace(0,1,n_pts) or custom_pos
    vloops = [s for s in fn.body if isinstance(s, ast.For) and _contains_append(s.body, "vertices")]
    eloops = [s for s in fn.body if isinstance(s, ast.For) and _contains_append(s.body, "edges")]
    if len(vloops) != 1 or len(eloops) != 1: raise TranslateError("expected one vertex loop and one edge loop")
    it = vloops[0].iter
    if not (isinstance(it, ast.Call) and isinstance(it.func, ast.Name) and it.func.id == "enumerate" and isinstance(it.args[0], ast.Name)):
        raise TranslateError("vertex loop is not `for it,t in enumerate(<name>)`")
    pts_name = it.args[0].id
    # linspace branch: <pts_name> = np.linspace(0,1,n_pts)
    ok_lin = False
    for n in ast.walk(fn):
        if isinstance(n, ast.Assign) and isinstance(n.targets[0], ast.Name) and n.targets[0].id == pts_name and isinstance(n.value, ast.Call) \
                and isinstance(n.value.func, ast.Attribute) and n.value.func.attr == "linspace":
            a = n.value.args
            if len(a) == 3 and isinstance(a[2], ast.Name) and a[2].id == "n_pts" and [getattr(x, "value", None) for x in a[:2]] == [0, 1] \
                    and not n.value.keywords:       # round 4: no `endpoint=False` / `dtype=int` / `retstep`
                ok_lin = True
    if not ok_lin: raise TranslateError("default positions are not np.linspace(0,1,n_pts)")
    el = eloops[0]
    if not isinstance(el.target, ast.Name): raise TranslateError("edge loop target")
    iv = el.target.id
    tup = [_append_call(s, "edges") for s in el.body if _append_call(s, "edges") is not None]
    if len(tup) != 1 or not isinstance(tup[0], ast.Tuple) or len(tup[0].elts) != 2: raise TranslateError("edges.append argument is not a pair")
    names = {"n_pts": "n_pts", "len_" + pts_name: "len_points"}
    bound = int_expr(_range_arg(el.iter), names)
    pair = [int_expr(e, {iv: "i"}) for e in tup[0].elts]
    body = NS
    body += "/-- `as_polyline`: bound of the edge loop; `len_points` = number of sampled positions (= `n_pts` when no custom positions) -/\n"
    body += f"def polyEdgeRange (n_pts len_points : Nat) : Nat := {bound}\n"
    body += f"def polyEdge (i : Nat) : List Nat := [{', '.join(pair)}]\n" + END
    _, sha = T.write_generated("C19Poly", body)
    return {"sha": sha, "bound": bound, "pair": pair}


# ------------------------------------------------------------------------------------------------
# rational straight-line expressions (sample_ball, sample_AABB)
# ------------------------------------------------------------------------------------------------
def _num(node):
    if isinstance(node, ast.Constant) and isinstance(node.value, (int, float)) and not isinstance(node.value, bool):
        f = Fraction(node.value)
        return f"({f.numerator} : Rat)" if f.denominator == 1 else f"(({f.numerator} : Rat) / {f.denominator})"
    return None


def _is_attr_chain(node, chain):
    """np.random.normal -> ['np','random','normal']"""
    parts = []
    while isinstance(node, ast.Attribute):
        parts.append(node.attr); node = node.value
    if isinstance(node, ast.Name): parts.append(node.id)
    return parts[::-1] == chain


class Sym:
    def __init__(self, params, atoms):
        self.params, self.atoms, self.env = params, atoms, {}

    def ev(self, node):
        n = _num(node)
        if n is not None: return n
        if isinstance(node, ast.Name):
            if node.id in self.env: return self.env[node.id]
            if node.id in self.params: return self.params[node.id]
            raise TranslateError(f"unbound name {node.id}")
        if isinstance(node, ast.BinOp) and type(node.op) in (ast.Add, ast.Sub, ast.Mult, ast.Div):
            op = {ast.Add: "+", ast.Sub: "-", ast.Mult: "*", ast.Div: "/"}[type(node.op)]
            return f"({self.ev(node.left)} {op} {self.ev(node.right)})"
        if isinstance(node, ast.UnaryOp) and isinstance(node.op, ast.USub):
            return f"(-{self.ev(node.operand)})"
        for rec in self.atoms:
            r = rec(self, node)
            if r is not None: return r
        raise TranslateError(f"unsupported expression: {ast.dump(node)[:140]}")

    def run(self, stmts, tracked):
        for s in stmts:
            if isinstance(s, ast.Expr) and isinstance(s.value, ast.Constant): continue          # docstring
            if isinstance(s, ast.Assign) and len(s.targets) == 1 and isinstance(s.targets[0], ast.Name):
                self.env[s.targets[0].id] = self.ev(s.value); continue
            if isinstance(s, ast.AugAssign) and isinstance(s.target, ast.Name) and type(s.op) in (ast.Add, ast.Sub, ast.Mult, ast.Div):
                op = {ast.Add: "+", ast.Sub: "-", ast.Mult: "*", ast.Div: "/"}[type(s.op)]
                self.env[s.target.id] = f"({self.ev(ast.Name(id=s.target.id))} {op} {self.ev(s.value)})"; continue
            touched = {n.id for n in ast.walk(s) if isinstance(n, ast.Name) and isinstance(n.ctx, ast.Store)}
            if touched & tracked:
                raise TranslateError(f"unrecognised statement writes {touched & tracked}: {ast.dump(s)[:100]}")
            raise TranslateError(f"unrecognised statement: {ast.dump(s)[:100]}")


def _atom_normal_dir(sym, node):
    # np.vstack([np.random.normal(0.,1.,size=n_pts)] x3).T
    if isinstance(node, ast.Attribute) and node.attr == "T" and isinstance(node.value, ast.Call) and _is_attr_chain(node.value.func, ["np", "vstack"]):
        lst = node.value.args[0]
        if isinstance(lst, ast.List) and len(lst.elts) == 3 and all(
                isinstance(c, ast.Call) and _is_attr_chain(c.func, ["np", "random", "normal"]) and len(c.args) == 2
                and Fraction(getattr(c.args[0], "value", 1)) == 0 and Fraction(getattr(c.args[1], "value", 0)) == 1 for c in lst.elts):
            return "g"
    return None


def _atom_norm(sym, node):
    if isinstance(node, ast.Call) and _is_attr_chain(node.func, ["np", "linalg", "norm"]) and len(node.args) == 1:
        kws = {k.arg: getattr(k.value, "value", None) for k in node.keywords}
        if kws == {"axis": 1, "keepdims": True} and sym.ev(node.args[0]) == "g":
            return "nrm"
        raise TranslateError("np.linalg.norm is not applied to the raw normal draws with axis=1, keepdims=True")
    return None


def _atom_uniform(sym, node):
    if isinstance(node, ast.Call) and _is_attr_chain(node.func, ["np", "random", "uniform"]) and len(node.args) == 3:
        lo, hi = sym.ev(node.args[0]), sym.ev(node.args[1])
        return f"({lo} + (({hi} - {lo}) * u))"
    return None


def _atom_reshape(sym, node):
    if isinstance(node, ast.Call) and isinstance(node.func, ast.Attribute) and node.func.attr == "reshape":
        return sym.ev(node.func.value)
    return None


def _atom_cbrt(sym, node):
    if isinstance(node, ast.Call) and _is_attr_chain(node.func, ["np", "cbrt"]) and len(node.args) == 1:
        return f"(cbrt {sym.ev(node.args[0])})"
    return None


def _final_value(fn, sym, var):
    """statements up to the trailing `if return_point_cloud: ... else: return <var>`"""
    body = list(fn.body)
    last = body[-1]
    if isinstance(last, ast.If) and isinstance(last.test, ast.Name) and last.test.id == "return_point_cloud" \
            and last.orelse and isinstance(last.orelse[-1], ast.Return) and isinstance(last.orelse[-1].value, ast.Name):
        ret = last.orelse[-1].value.id
        body = body[:-1]
    else:
        raise TranslateError("function does not end with `if return_point_cloud: .. else: return <name>`")
    return body, ret


def site_sample_ball():
    tree, _ = T.load("mouette/sampling.py")
    fn = T.find_def(tree, "sample_ball")
    _no_writes(fn, {"center", "radius"})
    sym = Sym({"center": "center", "radius": "radius"}, [_atom_normal_dir, _atom_norm, _atom_uniform, _atom_reshape, _atom_cbrt])
    body, ret = _final_value(fn, sym, "pts")
    sym.run(body, {"pts", "R"})
    if ret not in sym.env: raise TranslateError(f"returned name {ret} never assigned")
    expr = sym.env[ret]
    for need in ("g", "nrm", "u", "cbrt", "radius", "center"):
        if need not in expr: raise TranslateError(f"returned expression does not use `{need}`: {expr}")
    out = NS
    out += "/-- one coordinate of the array returned by `sample_ball`, as the straight-line numpy statements compute it:\n"
    out += "`g` a standard normal draw of that coordinate, `nrm` the norm of the draw, `u` the uniform[0,1) draw behind\n"
    out += "`np.random.uniform(lo,hi)` (= lo + (hi-lo)*u), `cbrt` numpy's cube root. -/\n"
    out += f"def ballCoord (cbrt : Rat → Rat) (center radius g nrm u : Rat) : Rat :=\n  {expr}\n" + END
    _, sha = T.write_generated("C19Ball", out)
    return {"sha": sha, "expr": expr}


def _atom_box(sym, node):
    if isinstance(node, ast.Attribute) and isinstance(node.value, ast.Name) and node.value.id == "box" and node.attr in ("mini", "maxi", "span"):
        return {"mini": "mini", "maxi": "maxi", "span": "(span mini maxi)"}[node.attr]
    return None


def _atom_random(sym, node):
    # random((n_pts, box.dim))
    if isinstance(node, ast.Call) and isinstance(node.func, ast.Name) and node.func.id == "random" and len(node.args) == 1 \
            and isinstance(node.args[0], ast.Tuple) and len(node.args[0].elts) == 2:
        return "x"
    return None


def _atom_res(sym, node):
    if isinstance(node, ast.Call) and isinstance(node.func, ast.Name) and node.func.id == "round" and len(node.args) == 1:
        a = node.args[0]
        if isinstance(a, ast.Call) and _is_attr_chain(a.func, ["np", "power"]) and len(a.args) == 2 and isinstance(a.args[0], ast.Name) \
                and a.args[0].id == "n_pts" and isinstance(a.args[1], ast.BinOp) and isinstance(a.args[1].op, ast.Div) \
                and getattr(a.args[1].left, "value", None) == 1 and ast.unparse(a.args[1].right) == "box.dim":
            return "RES"
        raise TranslateError("grid resolution is not round(np.power(n_pts, 1/box.dim))")
    return None


def _atom_axes(sym, node):
    if isinstance(node, ast.GeneratorExp) and len(node.generators) == 1:
        e, g = node.elt, node.generators[0]
        if isinstance(e, ast.Call) and _is_attr_chain(e.func, ["np", "linspace"]) and len(e.args) == 3 \
                and [getattr(x, "value", None) for x in e.args[:2]] == [0, 1] and sym.ev(e.args[2]) == "RES" \
                and ast.unparse(g.iter) == "range(box.dim)":
            return "AXES"
        raise TranslateError("grid axes are not (np.linspace(0,1,res) for _ in range(box.dim))")
    return None


def _atom_meshgrid(sym, node):
    if isinstance(node, ast.Attribute) and node.attr == "T" and isinstance(node.value, ast.Call) and _is_attr_chain(node.value.func, ["np", "vstack"]):
        import copy
        arg = copy.deepcopy(node.value.args[0])
        for n in ast.walk(arg):      # the ordering convention of meshgrid does not matter for the set of grid points
            if isinstance(n, ast.Call) and _is_attr_chain(n.func, ["np", "meshgrid"]):
                n.keywords = [k for k in n.keywords if k.arg != "indexing"]
        src = ast.unparse(arg)
        if src == "list(map(np.ravel, np.meshgrid(*Xdims)))" and sym.env.get("Xdims") == "AXES":
            return "x"
        raise TranslateError(f"unit grid is not np.vstack(list(map(np.ravel, np.meshgrid(*Xdims)))).T: {src}")
    return None


def site_sample_aabb():
    tree, _ = T.load("mouette/sampling.py")
    fn = T.find_def(tree, "sample_AABB")
    _no_writes(fn, {"box"})
    def mode_const(test):
        """`mode == "c"` or (round 4) the commuted `"c" == mode` -> "c" """
        if isinstance(test, ast.Compare) and len(test.ops) == 1 and isinstance(test.ops[0], ast.Eq):
            a, b = test.left, test.comparators[0]
            if isinstance(b, ast.Name): a, b = b, a
            if isinstance(a, ast.Name) and a.id == "mode":
                if not (isinstance(b, ast.Constant) and isinstance(b.value, str)): raise TranslateError("mode compared with a non literal")
                return b.value
        return None
    chain = [s for s in fn.body if isinstance(s, ast.If) and mode_const(s.test) is not None]
    if len(chain) != 1: raise TranslateError("mode dispatch `if mode==...` not found")
    top = chain[0]
    branches = {}
    node = top
    while True:
        key = ast.unparse(node.test)
        branches[mode_const(node.test)] = node.body
        if len(node.orelse) == 1 and isinstance(node.orelse[0], ast.If) and mode_const(node.orelse[0].test) is not None:
            node = node.orelse[0]
        elif not node.orelse: break
        else: raise TranslateError(f"unexpected else branch after {key}")
    if set(branches) != {"uniform", "grid"}: raise TranslateError(f"modes are {sorted(branches)}")
    # statements after the dispatch must not rewrite `points` (other than returning it)
    after = fn.body[fn.body.index(top) + 1:]
    for s in after:
        for n in ast.walk(s):
            if isinstance(n, ast.Name) and n.id == "points" and isinstance(n.ctx, ast.Store):
                raise TranslateError("`points` is rewritten after the mode dispatch")
    exprs = {}
    for mode, stmts in branches.items():
        sym = Sym({}, [_atom_box, _atom_random, _atom_res, _atom_axes, _atom_meshgrid])
        sym.run(stmts, {"points"})
        if "points" not in sym.env: raise TranslateError(f"mode {mode}: `points` not assigned")
        exprs[mode] = sym.env["points"]
    # aabb.py: span / mini / maxi
    atree, _ = T.load("mouette/geometry/aabb.py")

    def prop_ret(name):
        f = T.find_def(atree, "AABB." + name)
        rets = [s for s in f.body if isinstance(s, ast.Return)]
        if len(rets) != 1: raise TranslateError(f"AABB.{name}: expected a single return")
        return rets[0].value
    m, M_ = ast.unparse(prop_ret("mini")), ast.unparse(prop_ret("maxi"))
    sp = prop_ret("span")
    nm = {m: "mini", M_: "maxi", "self.mini": "mini", "self.maxi": "maxi"}      # round 4: the corner properties may be used as well
    if not (isinstance(sp, ast.BinOp) and isinstance(sp.op, ast.Sub) and {ast.unparse(sp.left), ast.unparse(sp.right)} <= set(nm)):
        raise TranslateError(f"AABB.span is not a difference of the corner attributes: {ast.unparse(sp)}")
    span = f"({nm[ast.unparse(sp.left)]} - {nm[ast.unparse(sp.right)]})"
    out = NS
    out += "/-- `AABB.span` (aabb.py) -/\n"
    out += f"def span (mini maxi : Rat) : Rat := {span}\n"
    out += "/-- one coordinate of `points` in `sample_AABB(mode=\"uniform\")`; `x` = the uniform[0,1) draw -/\n"
    out += f"def aabbUniformCoord (mini maxi x : Rat) : Rat := {exprs['uniform']}\n"
    out += "/-- one coordinate of `points` in `sample_AABB(mode=\"grid\")`; `x` = the unit-grid coordinate (`linspace(0,1,res)[k]`) -/\n"
    out += f"def aabbGridCoord (mini maxi x : Rat) : Rat := {exprs['grid']}\n" + END
    _, sha = T.write_generated("C19Box", out)
    return {"sha": sha, "uniform": exprs["uniform"], "grid": exprs["grid"], "span": span}



# ------------------------------------------------------------------------------------------------
# round 2: more of sampling.py and bezier.py
# ------------------------------------------------------------------------------------------------
_CMP = {ast.Lt: "<", ast.LtE: "≤", ast.Gt: ">", ast.GtE: "≥", ast.Eq: "=", ast.NotEq: "≠"}


def bool_expr(node, term):
    """Python boolean expression over comparisons -> Lean `Bool` term; `term` translates the compared terms"""
    if isinstance(node, ast.UnaryOp) and isinstance(node.op, ast.Not):
        return f"(!{bool_expr(node.operand, term)})"
    if isinstance(node, ast.BoolOp):
        op = " && " if isinstance(node.op, ast.And) else " || "
        return "(" + op.join(bool_expr(v, term) for v in node.values) + ")"
    if isinstance(node, ast.Compare):
        terms = [node.left] + list(node.comparators)
        parts = []
        for a, o, b in zip(terms, node.ops, terms[1:]):
            if type(o) not in _CMP: raise TranslateError(f"unsupported comparison {type(o).__name__}")
            parts.append(f"decide ({term(a)} {_CMP[type(o)]} {term(b)})")
        return "(" + " && ".join(parts) + ")"
    raise TranslateError(f"unsupported boolean expression: {ast.dump(node)[:100]}")


def _atom_sqrt(sym, node):
    if isinstance(node, ast.Call) and _is_attr_chain(node.func, ["np", "sqrt"]) and len(node.args) == 1:
        return f"(sqrt {sym.ev(node.args[0])})"
    return None


def _atom_npsum(sym, node):
    """np.sum(<the raw weight vector>) / <vector>.sum()  ->  total"""
    arg = None
    if isinstance(node, ast.Call) and _is_attr_chain(node.func, ["np", "sum"]) and len(node.args) == 1 and not node.keywords:
        arg = node.args[0]
    elif isinstance(node, ast.Call) and isinstance(node.func, ast.Attribute) and node.func.attr == "sum" and not node.args and not node.keywords:
        arg = node.func.value
    if arg is not None:
        if sym.ev(arg) == "w": return "total"
        raise TranslateError("sum is not taken over the raw weight vector")
    return None


def _corner_gen(node, container, nvars):
    """`(mesh.vertices[_v] for _v in mesh.<container>[<idx>])` -> idx node"""
    if isinstance(node, ast.GeneratorExp) and len(node.generators) == 1:
        g = node.generators[0]
        if isinstance(g.target, ast.Name) and ast.unparse(node.elt) == f"mesh.vertices[{g.target.id}]" and isinstance(g.iter, ast.Subscript) \
                and ast.unparse(g.iter.value) == f"mesh.{container}" and not g.ifs:
            return g.iter.slice
    raise TranslateError(f"corner positions are not (mesh.vertices[_v] for _v in mesh.{container}[..])")


def _enumerate_loop(fn, pts_name):
    loops = [s for s in fn.body if isinstance(s, ast.For)]
    if len(loops) != 1: raise TranslateError("expected exactly one sampling loop")
    lp = loops[0]
    if not (isinstance(lp.target, ast.Tuple) and len(lp.target.elts) == 2 and all(isinstance(e, ast.Name) for e in lp.target.elts)
            and isinstance(lp.iter, ast.Call) and isinstance(lp.iter.func, ast.Name) and lp.iter.func.id == "enumerate"
            and len(lp.iter.args) == 1 and isinstance(lp.iter.args[0], ast.Name)):
        raise TranslateError("sampling loop is not `for i,x in enumerate(<name>)`")
    return lp, lp.target.elts[0].id, lp.target.elts[1].id, lp.iter.args[0].id


def _store_row(stmt, arr, counter):
    """`arr[counter,:] = value` -> value"""
    if isinstance(stmt, ast.Assign) and len(stmt.targets) == 1 and isinstance(stmt.targets[0], ast.Subscript) \
            and ast.unparse(stmt.targets[0]) in (f"{arr}[{counter}, :]", f"{arr}[{counter}]", f"{arr}[{counter}, ...]", f"{arr}[{counter}][:]"):
        return stmt.value
    return None


def _choice_call(node, n_name, p_name):
    """choice(<n_name>, size=n_pts, p=<p_name>)"""
    if isinstance(node, ast.Call) and isinstance(node.func, ast.Name) and node.func.id == "choice" and len(node.args) == 1 \
            and isinstance(node.args[0], ast.Name) and node.args[0].id == n_name:
        kws = {k.arg: ast.unparse(k.value) for k in node.keywords}
        if kws == {"size": "n_pts", "p": p_name}: return True
    return False


def _prob_block(stmts, raw_call, count_name, container):
    """recognises
         <w> = <raw_call>(mesh, persistent=False).as_array()      (possibly wrapped in np.atleast_1d)
         <w> /= np.sum(<w>)
         <sel> = choice(<count_name>, size=n_pts, p=<w>)
       returns (prob expression in `w`,`total`; name of <sel>)"""
    sym = Sym({}, [_atom_npsum])
    wname = sel = None
    for s in stmts:
        if isinstance(s, ast.Assign) and len(s.targets) == 1 and isinstance(s.targets[0], ast.Name):
            src = ast.unparse(s.value)
            if raw_call + "(mesh" in src and src.endswith(".as_array()") or (raw_call + "(mesh" in src and src.startswith("np.atleast_1d(")):
                wname = s.targets[0].id; sym.env[wname] = "w"; continue
            if wname and isinstance(s.value, ast.Call) and isinstance(s.value.func, ast.Name) and s.value.func.id == "choice":
                if not _choice_call(s.value, count_name, wname):
                    raise TranslateError(f"selection is not choice({count_name}, size=n_pts, p={wname}): {src}")
                sel = s.targets[0].id; continue
            if wname and s.targets[0].id == wname:
                sym.env[wname] = sym.ev(s.value); continue
        if wname and isinstance(s, ast.AugAssign) and isinstance(s.target, ast.Name) and s.target.id == wname:
            sym.run([s], {wname}); continue
    if wname is None or sel is None: raise TranslateError(f"weight vector / choice call of {container} not found")
    return sym.env[wname], sel


def _len_of(fn, name, container):
    for s in fn.body:
        if isinstance(s, ast.Assign) and isinstance(s.targets[0], ast.Name) and s.targets[0].id == name:
            if ast.unparse(s.value) == f"len(mesh.{container})": return True
    raise TranslateError(f"{name} is not len(mesh.{container})")


def _wrap_check(fn, arr):
    """the trailing return_point_cloud structure wraps / returns the array `arr`"""
    last = fn.body[-1]
    if not (isinstance(last, ast.If) and isinstance(last.test, ast.Name) and last.test.id == "return_point_cloud"):
        raise TranslateError("function does not end with `if return_point_cloud:`")
    body_src = "\n".join(ast.unparse(x) for x in last.body)
    import re
    m = re.search(r"^(\w+) = PointCloud\(\)$", body_src, re.M)          # round 4: the local holding the cloud may be renamed
    pc = m.group(1) if m else "pointcloud"
    if f"{pc}.vertices += list({arr})" not in body_src or f"return {pc}" not in body_src:
        raise TranslateError(f"point cloud branch does not wrap `{arr}`")
    return last


def _no_writes(fn, names):
    """the sampler only READS its domain arguments: no assignment / augmented assignment / item store whose target is
    rooted at one of `names`, no attribute-creating or mutating method called on them, and attributes computed through
    mouette.attributes are non-persistent (nothing is stored on, or later re-read from, the mesh)"""
    def root(n):
        while isinstance(n, (ast.Attribute, ast.Subscript)): n = n.value
        return n.id if isinstance(n, ast.Name) else None
    for n in ast.walk(fn):
        tg = []
        if isinstance(n, ast.Assign): tg = n.targets
        elif isinstance(n, (ast.AugAssign, ast.AnnAssign)): tg = [n.target]
        for t in tg:
            for e in (t.elts if isinstance(t, ast.Tuple) else [t]):
                if root(e) in names and not (isinstance(e, ast.Name)):
                    raise TranslateError(f"the sampler writes into its argument: {ast.unparse(n)}")
                if isinstance(n, ast.AugAssign) and root(e) in names:
                    raise TranslateError(f"the sampler updates its argument in place: {ast.unparse(n)}")
        if isinstance(n, ast.Call) and isinstance(n.func, ast.Attribute) and root(n.func) in names \
                and n.func.attr in ("create_attribute", "append", "clear", "delete_attribute", "pad", "register", "get_attribute", "has_attribute"):
            raise TranslateError(f"the sampler stores / looks up state on its argument: {ast.unparse(n)}")
        if isinstance(n, ast.Call) and isinstance(n.func, ast.Name) and n.func.id in ("face_area", "face_normals", "edge_length"):
            kws = {k.arg: ast.unparse(k.value) for k in n.keywords}
            if kws.get("persistent") != "False":
                raise TranslateError(f"attribute computed persistently (stored on the mesh): {ast.unparse(n)}")
    return True


def _float_buffer(fn, arr):
    """`<arr> = np.zeros((n_pts, 3))` with the default (float) dtype: samples of integer-typed meshes are not truncated"""
    for s in fn.body:
        if isinstance(s, ast.Assign) and isinstance(s.targets[0], ast.Name) and s.targets[0].id == arr:
            v = s.value
            if isinstance(v, ast.Call) and _is_attr_chain(v.func, ["np", "zeros"]) and len(v.args) == 1 \
                    and ast.unparse(v.args[0]).replace(" ", "") == "(n_pts,3)" \
                    and all(k.arg == "dtype" and ast.unparse(k.value) in ("float", "np.float64", "np.double") for k in v.keywords):
                return True
            raise TranslateError(f"output buffer is not a float array np.zeros((n_pts,3)): {ast.unparse(s)}")
    raise TranslateError(f"output buffer {arr} not found")


def site_sample_surface():
    tree, _ = T.load("mouette/sampling.py")
    fn = T.find_def(tree, "sample_surface")
    _len_of(fn, "NF", "faces")
    _float_buffer(fn, "sampled_pts")
    _no_writes(fn, {"mesh"})
    prob, sel = _prob_block(fn.body, "face_area", "NF", "faces")
    lp, counter, fvar, it = _enumerate_loop(fn, "sampled_pts")
    if it != sel: raise TranslateError(f"sampling loop iterates `{it}`, not the faces drawn by choice (`{sel}`)")
    # normals: sampled_normals = np.array([normals[<idx(f)>] for f in <sel>])
    nidx = None
    for n in ast.walk(fn):
        if isinstance(n, ast.Assign) and isinstance(n.targets[0], ast.Name) and n.targets[0].id == "sampled_normals":
            v = n.value
            if not (isinstance(v, ast.Call) and _is_attr_chain(v.func, ["np", "array"]) and isinstance(v.args[0], ast.ListComp)):
                raise TranslateError("sampled_normals is not np.array([... for f in ...])")
            lc = v.args[0]; g = lc.generators[0]
            if not (len(lc.generators) == 1 and isinstance(g.target, ast.Name) and isinstance(g.iter, ast.Name) and g.iter.id == sel and not g.ifs):
                raise TranslateError("normals are not gathered over the faces drawn by choice")
            if not (isinstance(lc.elt, ast.Subscript) and isinstance(lc.elt.value, ast.Name) and lc.elt.value.id == "normals"):
                raise TranslateError("normals comprehension element is not normals[..]")
            nidx = int_expr(lc.elt.slice, {g.target.id: "f"})
    if nidx is None: raise TranslateError("sampled_normals assignment not found")
    # loop body
    sym = Sym({}, [_atom_sqrt])
    fidx = None; result = None
    for s in lp.body:
        if isinstance(s, ast.Assign) and isinstance(s.targets[0], ast.Tuple):
            names = [e.id for e in s.targets[0].elts]
            if isinstance(s.value, ast.GeneratorExp):
                if len(names) != 3: raise TranslateError("expected three corners")
                fidx = int_expr(_corner_gen(s.value, "faces", 3), {fvar: "f"})
                for nm, a in zip(names, "abc"): sym.env[nm] = a
                continue
            if ast.unparse(s.value) in ("random(2)", "np.random.random(2)") and len(names) == 2:
                sym.env[names[0]] = "u1"; sym.env[names[1]] = "u2"; continue
            raise TranslateError(f"unrecognised tuple assignment {ast.unparse(s)}")
        v = _store_row(s, "sampled_pts", counter)
        if v is not None:
            result = sym.ev(v); continue
        sym.run([s], {"sampled_pts"})
    if fidx is None or result is None: raise TranslateError("corner lookup / point assignment not found")
    # wrapping options
    last = _wrap_check(fn, "sampled_pts")
    wrap_src = "\n".join(ast.unparse(x) for x in last.body)
    if "pc_normals._data = sampled_normals" not in wrap_src or "create_attribute('normals', float, 3, dense=True)" not in wrap_src:
        raise TranslateError("point cloud branch does not store sampled_normals in the `normals` attribute")
    else_src = "\n".join(ast.unparse(x) for x in last.orelse)
    if else_src != "if return_normals:\n    return (sampled_pts, sampled_normals)\nreturn sampled_pts":
        raise TranslateError(f"array branch is not `if return_normals: return sampled_pts,sampled_normals; return sampled_pts`")
    out = NS
    out += "/-- `areas /= np.sum(areas)`: one entry of the vector handed to `choice(NF, size=n_pts, p=areas)` -/\n"
    out += f"def surfProb (w total : Rat) : Rat := {prob}\n"
    out += "/-- face whose corners are read for a sample drawn on face `f` (`mesh.faces[·]`), and face whose normal is attached -/\n"
    out += f"def surfFaceIndex (f : Nat) : Nat := {fidx}\n"
    out += f"def surfNormalIndex (f : Nat) : Nat := {nidx}\n"
    out += "/-- one coordinate of a sampled point: `u1,u2` the two uniform draws, `sqrt` numpy's square root, `a b c` the corners -/\n"
    out += f"def triCoord (sqrt : Rat → Rat) (u1 u2 a b c : Rat) : Rat :=\n  {result}\n" + END
    _, sha = T.write_generated("C19Tri", out)
    return {"sha": sha, "point": result, "prob": prob, "face": fidx, "normal": nidx}


def site_sample_polyline():
    tree, _ = T.load("mouette/sampling.py")
    fn = T.find_def(tree, "sample_polyline")
    _len_of(fn, "NE", "edges")
    _float_buffer(fn, "sampled_pts")
    _no_writes(fn, {"mesh"})
    ifs = [s for s in fn.body if isinstance(s, ast.If) and isinstance(s.test, ast.Compare) and "NE" in ast.unparse(s.test)]
    if len(ifs) != 1: raise TranslateError("guard on NE not found")
    gd = ifs[0]
    guard = bool_expr(gd.test, lambda n: int_expr(n, {"NE": "NE"}))
    prob, sel = _prob_block(gd.body, "edge_length", "NE", "edges")
    if len(gd.orelse) != 1 or ast.unparse(gd.orelse[0]) != f"{sel} = [0] * n_pts":
        raise TranslateError(f"else branch is not `{sel} = [0]*n_pts`")
    lp, counter, evar, it = _enumerate_loop(fn, "sampled_pts")
    if it != sel: raise TranslateError(f"sampling loop iterates `{it}`, not the edges drawn by choice (`{sel}`)")
    sym = Sym({}, [])
    eidx = result = None
    for s in lp.body:
        if isinstance(s, ast.Assign) and isinstance(s.targets[0], ast.Tuple) and isinstance(s.value, ast.GeneratorExp):
            names = [e.id for e in s.targets[0].elts]
            if len(names) != 2: raise TranslateError("expected two end points")
            eidx = int_expr(_corner_gen(s.value, "edges", 2), {evar: "e"})
            sym.env[names[0]] = "a"; sym.env[names[1]] = "b"; continue
        if isinstance(s, ast.Assign) and isinstance(s.targets[0], ast.Name) and ast.unparse(s.value) in ("np.random.random()", "random()"):
            sym.env[s.targets[0].id] = "t"; continue
        v = _store_row(s, "sampled_pts", counter)
        if v is not None:
            result = sym.ev(v); continue
        sym.run([s], {"sampled_pts"})
    if eidx is None or result is None: raise TranslateError("end point lookup / point assignment not found")
    _wrap_check(fn, "sampled_pts")
    out = NS
    out += "/-- `if NE>1:` guard around the weighted choice (else: edge 0 for every sample) -/\n"
    out += f"def polyGuard (NE : Nat) : Bool := {guard}\n"
    out += "/-- `lengths /= np.sum(lengths)`: one entry of the vector handed to `choice(NE, size=n_pts, p=lengths)` -/\n"
    out += f"def polyProb (w total : Rat) : Rat := {prob}\n"
    out += f"def polyEdgeIndex (e : Nat) : Nat := {eidx}\n"
    out += "/-- one coordinate of a sampled point: `t` the uniform draw, `a b` the end points of the edge (in edge order) -/\n"
    out += f"def segCoord (t a b : Rat) : Rat := {result}\n" + END
    _, sha = T.write_generated("C19Seg", out)
    return {"sha": sha, "point": result, "prob": prob, "guard": guard, "edge": eidx}


def site_sample_sphere():
    tree, _ = T.load("mouette/sampling.py")
    fn = T.find_def(tree, "sample_sphere")
    _no_writes(fn, {"center", "radius"})
    sym = Sym({"center": "center", "radius": "radius"}, [_atom_normal_dir, _atom_norm, _atom_reshape])
    body, ret = _final_value(fn, sym, "pts")
    sym.run(body, {"pts"})
    if ret not in sym.env: raise TranslateError(f"returned name {ret} never assigned")
    _wrap_check(fn, ret)
    expr = sym.env[ret]
    for need in ("g", "nrm", "radius", "center"):
        if need not in expr: raise TranslateError(f"returned expression does not use `{need}`: {expr}")
    out = NS + "/-- one coordinate of the array returned by `sample_sphere` (`g` normal draw, `nrm` its norm) -/\n"
    out += f"def sphereCoord (center radius g nrm : Rat) : Rat :=\n  {expr}\n" + END
    _, sha = T.write_generated("C19Sphere", out)
    return {"sha": sha, "expr": expr}


def site_de_casteljau():
    tree, _ = T.load("mouette/splines/bezier.py")
    fn = T.find_def(tree, "de_casteljau")
    args = [a.arg for a in fn.args.args]
    if args != ["P", "t"]: raise TranslateError(f"signature changed: {args}")
    body = [s for s in fn.body if not (isinstance(s, ast.Expr) and isinstance(s.value, ast.Constant))]
    if len(body) != 5: raise TranslateError(f"expected guard, copy, order, loop nest, return; got {len(body)} statements")
    g, cp, od, lp, rt = body
    # guard
    if not (isinstance(g, ast.If) and len(g.body) == 1 and isinstance(g.body[0], ast.Raise) and not g.orelse):
        raise TranslateError("first statement is not `if <cond>: raise`")

    def tterm(n):
        v = _num(n)
        if v is not None: return v
        if isinstance(n, ast.Name) and n.id == "t": return "t"
        raise TranslateError(f"guard compares something else than t and constants: {ast.dump(n)[:80]}")
    raise_cond = bool_expr(g.test, tterm)
    # copy + order
    # the working list must be a (shallow) COPY of P: slots of P itself are never re-bound
    if not (isinstance(cp, ast.Assign) and len(cp.targets) == 1 and isinstance(cp.targets[0], ast.Name) and cp.targets[0].id == "coeffs"):
        raise TranslateError(f"coefficient copy changed: {ast.unparse(cp)}")
    v = cp.value
    is_copy = (isinstance(v, ast.ListComp) and len(v.generators) == 1 and isinstance(v.generators[0].target, ast.Name)
               and isinstance(v.elt, ast.Name) and v.elt.id == v.generators[0].target.id and not v.generators[0].ifs
               and ast.unparse(v.generators[0].iter) == "P") \
        or ast.unparse(v) in ("list(P)", "P[:]", "P.copy()", "copy.copy(P)", "copy(P)")
    if not is_copy: raise TranslateError(f"`coeffs` is not a shallow copy of P: {ast.unparse(cp)}")
    if not (isinstance(od, ast.Assign) and isinstance(od.targets[0], ast.Name)): raise TranslateError("order assignment")
    oname = od.targets[0].id
    order = int_expr(od.value, {"len_P": "lenP"})
    # loops
    if not (isinstance(lp, ast.For) and isinstance(lp.target, ast.Name) and len(lp.body) == 1 and isinstance(lp.body[0], ast.For)
            and isinstance(lp.body[0].target, ast.Name) and len(lp.body[0].body) == 1):
        raise TranslateError("loop nest is not `for j in range(..): for i in range(..): <one statement>`")
    jv, inner = lp.target.id, lp.body[0]
    iv = inner.target.id
    outer_b = int_expr(_range_arg(lp.iter), {oname: "order"})
    inner_b = int_expr(_range_arg(inner.iter), {oname: "order", jv: "j"})
    up = inner.body[0]
    if not (isinstance(up, ast.Assign) and isinstance(up.targets[0], ast.Subscript) and isinstance(up.targets[0].value, ast.Name)
            and up.targets[0].value.id == "coeffs"):
        raise TranslateError("update is not `coeffs[..] = ..`")
    target = int_expr(up.targets[0].slice, {iv: "i"})
    # store kind: a plain assignment of a freshly computed value re-binds the slot (the control point the slot referred
    # to is untouched); `*=`/`+=` on coeffs[i] (AugAssign) or a bare alias would not be recognised above / here
    if not isinstance(up.value, ast.BinOp): raise TranslateError("update value is not a freshly computed expression")

    def _atom_coeff(sym, node):
        if isinstance(node, ast.Subscript) and isinstance(node.value, ast.Name) and node.value.id == "coeffs":
            return f"(coeffs {int_expr(node.slice, {iv: 'i'})})"
        return None
    sym = Sym({"t": "t"}, [_atom_coeff])
    update = sym.ev(up.value)
    if not (isinstance(rt, ast.Return) and isinstance(rt.value, ast.Subscript) and isinstance(rt.value.value, ast.Name) and rt.value.value.id == "coeffs"):
        raise TranslateError("return is not coeffs[..]")
    res = int_expr(rt.value.slice, {})
    out = NS
    out += "/-- condition under which `de_casteljau` raises InvalidRangeArgumentError -/\n"
    out += f"def dcRaises (t : Rat) : Bool := {raise_cond}\n"
    out += "/-- `order = len(P)-1`; `for j in range(dcOuter): for i in range(dcInner): coeffs[dcTarget] = dcUpdate`; `return coeffs[dcResult]` -/\n"
    out += f"def dcOrder (lenP : Nat) : Nat := {order}\n"
    out += f"def dcOuter (order : Nat) : Nat := {outer_b}\n"
    out += f"def dcInner (order j : Nat) : Nat := {inner_b}\n"
    out += f"def dcTarget (i : Nat) : Nat := {target}\n"
    out += f"def dcUpdate (t : Rat) (coeffs : Nat → Rat) (i : Nat) : Rat := {update}\n"
    out += f"def dcResult : Nat := {res}\n"
    out += "/-- `coeffs` is a shallow copy of `P`, and `coeffs[i] = <fresh value>` re-binds the slot (no in-place write into a control point) -/\n"
    out += "def dcWorksOnCopy : Bool := true\ndef dcStoreRebinds : Bool := true\n" + END
    _, sha = T.write_generated("C19DC", out)
    return {"sha": sha, "raises": raise_cond, "order": order, "outer": outer_b, "inner": inner_b, "target": target, "update": update, "result": res}


def site_patch_evaluate():
    tree, _ = T.load("mouette/splines/bezier.py")
    row = T.find_def(tree, "BezierPatch._evaluate_row")
    ev = T.find_def(tree, "BezierPatch.evaluate")
    surf = T.find_def(tree, "BezierPatch.as_surface")
    rargs = [a.arg for a in row.args.args]
    if len(rargs) != 2: raise TranslateError("_evaluate_row signature")
    upar = rargs[1]
    rets = [s for s in row.body if isinstance(s, ast.Return)]
    if len(rets) != 1 or not isinstance(rets[0].value, ast.ListComp): raise TranslateError("_evaluate_row does not return a list comprehension")
    lc = rets[0].value; g = lc.generators[0]
    if len(lc.generators) != 1 or g.ifs or not isinstance(g.target, ast.Name): raise TranslateError("_evaluate_row comprehension shape")
    iv = g.target.id

    def cnt(n):
        """len(self.pts) -> nrows ; len(self.pts[0]) -> ncols ; arithmetic on them"""
        if isinstance(n, ast.Call) and isinstance(n.func, ast.Name) and n.func.id == "len" and len(n.args) == 1:
            src = ast.unparse(n.args[0])
            if src == "self.pts": return "nrows"
            if src == "self.pts[0]": return "ncols"
            raise TranslateError(f"len of {src}")
        if isinstance(n, ast.Constant) and isinstance(n.value, int): return str(n.value)
        if isinstance(n, ast.BinOp) and type(n.op) in (ast.Add, ast.Sub, ast.Mult):
            op = {ast.Add: "+", ast.Sub: "-", ast.Mult: "*"}[type(n.op)]
            return f"({cnt(n.left)} {op} {cnt(n.right)})"
        raise TranslateError(f"unsupported row range {ast.unparse(n)}")
    rng_ = cnt(_range_arg(g.iter))
    e = lc.elt
    if not (isinstance(e, ast.Call) and isinstance(e.func, ast.Name) and e.func.id == "de_casteljau" and len(e.args) == 2 and not e.keywords):
        raise TranslateError("_evaluate_row element is not de_casteljau(.., ..)")
    a0, a1 = e.args
    if not (isinstance(a0, ast.Subscript) and ast.unparse(a0.value) == "self.pts"): raise TranslateError("row control points are not self.pts[..]")
    ridx = int_expr(a0.slice, {iv: "i"})
    if not (isinstance(a1, ast.Name) and a1.id == upar): raise TranslateError("row parameter is not the argument of _evaluate_row")
    # evaluate(u,v) = de_casteljau(self._evaluate_row(<x>), <y>)
    eargs = [a.arg for a in ev.args.args]
    if len(eargs) != 3: raise TranslateError("evaluate signature")
    erets = [s for s in ev.body if isinstance(s, ast.Return)]
    c = erets[0].value if len(erets) == 1 else None
    if not (isinstance(c, ast.Call) and isinstance(c.func, ast.Name) and c.func.id == "de_casteljau" and len(c.args) == 2
            and isinstance(c.args[0], ast.Call) and ast.unparse(c.args[0].func) == "self._evaluate_row" and len(c.args[0].args) == 1
            and isinstance(c.args[0].args[0], ast.Name) and isinstance(c.args[1], ast.Name)):
        raise TranslateError("evaluate is not de_casteljau(self._evaluate_row(<name>), <name>)")
    names = {eargs[1]: "u", eargs[2]: "v"}
    if c.args[0].args[0].id not in names or c.args[1].id not in names: raise TranslateError("evaluate uses unknown names")
    rowpar, colpar = names[c.args[0].args[0].id], names[c.args[1].id]
    # as_surface vertex: q = self._evaluate_row(U[<e1>]); vertices.append(de_casteljau(q, V[<e2>])); U = linspace(0,1,n1), V = linspace(0,1,n2)
    lin = {}
    for s in surf.body:
        if isinstance(s, ast.Assign) and isinstance(s.targets[0], ast.Name) and isinstance(s.value, ast.Call) and _is_attr_chain(s.value.func, ["np", "linspace"]):
            a = s.value.args
            if len(a) == 3 and [getattr(x, "value", None) for x in a[:2]] == [0, 1] and isinstance(a[2], ast.Name) and not s.value.keywords:
                lin[s.targets[0].id] = a[2].id
    vloop = [l for l in surf.body if isinstance(l, ast.For) and _contains_append(l.body, "vertices")][0]
    inner = [x for x in vloop.body if isinstance(x, ast.For)][0]
    oi, ii = vloop.target.id, inner.target.id
    qs = [x for x in vloop.body if isinstance(x, ast.Assign) and isinstance(x.value, ast.Call) and ast.unparse(x.value.func) == "self._evaluate_row"]
    if len(qs) != 1 or not isinstance(qs[0].value.args[0], ast.Subscript): raise TranslateError("as_surface: q = self._evaluate_row(U[..]) not found")
    qname = qs[0].targets[0].id
    uarr = qs[0].value.args[0]
    app = [_append_call(x, "vertices") for x in inner.body if _append_call(x, "vertices") is not None][0]
    if isinstance(app, ast.Name):           # round 5: `p = de_casteljau(q, V[j]); out.vertices.append(p)` (temporary)
        defs = [x.value for x in inner.body if isinstance(x, ast.Assign) and len(x.targets) == 1 and isinstance(x.targets[0], ast.Name)
                and x.targets[0].id == app.id]
        if len(defs) == 1: app = defs[0]
    if not (isinstance(app, ast.Call) and isinstance(app.func, ast.Name) and app.func.id == "de_casteljau" and len(app.args) == 2
            and isinstance(app.args[0], ast.Name) and app.args[0].id == qname and isinstance(app.args[1], ast.Subscript)):
        raise TranslateError("as_surface vertex is not de_casteljau(q, V[..])")
    varr = app.args[1]
    un, vn = uarr.value.id, varr.value.id
    if lin.get(un) != "n1" or lin.get(vn) != "n2":
        raise TranslateError(f"as_surface parameter arrays: row parameter from linspace(0,1,{lin.get(un)}), column parameter from linspace(0,1,{lin.get(vn)})")
    su = int_expr(uarr.slice, {oi: "i", ii: "j"}); sv = int_expr(varr.slice, {oi: "i", ii: "j"})
    # uv attribute: uvs[k] = Vec(U[..], V[..])
    # round 5: the attribute handle and the counter may be renamed: any `<handle>[<counter>] = Vec(..)` store of the inner body
    uvsrc = [ast.unparse(x.value) for x in inner.body if isinstance(x, ast.Assign) and isinstance(x.targets[0], ast.Subscript)
             and isinstance(x.targets[0].value, ast.Name) and isinstance(x.targets[0].slice, ast.Name)]
    if uvsrc != [f"Vec({ast.unparse(uarr)}, {ast.unparse(varr)})"]:
        raise TranslateError(f"uv attribute is not Vec of the two parameters used for the vertex: {uvsrc}")
    out = NS
    out += "/-- `_evaluate_row(u)`: `[de_casteljau(self.pts[rowIndex i], u) for i in range(rowRange)]`\n"
    out += "(`nrows = len(self.pts)`, `ncols = len(self.pts[0])`) -/\n"
    out += f"def rowRange (nrows ncols : Nat) : Nat := {rng_}\n"
    out += f"def rowIndex (i : Nat) : Nat := {ridx}\n"
    out += "def evaluateRow (dc : List Rat → Rat → Rat) (pts : Nat → List Rat) (nrows ncols : Nat) (u : Rat) : List Rat :=\n"
    out += "  (List.range (rowRange nrows ncols)).map (fun i => dc (pts (rowIndex i)) u)\n"
    out += "/-- `evaluate(u,v)`: which parameter goes to the rows and which to the resulting column -/\n"
    out += f"def evaluate (dc : List Rat → Rat → Rat) (row : Rat → List Rat) (u v : Rat) : Rat := dc (row {rowpar}) {colpar}\n"
    out += "/-- `as_surface`: vertex `(i,j)` is `de_casteljau(_evaluate_row(U[surfVertU i j]), V[surfVertV i j])` -/\n"
    out += f"def surfVertU (i j : Nat) : Nat := {su}\n"
    out += f"def surfVertV (i j : Nat) : Nat := {sv}\n" + END
    _, sha = T.write_generated("C19Patch", out)
    return {"sha": sha, "rowRange": rng_, "rowIndex": ridx, "evaluate": f"dc (row {rowpar}) {colpar}", "surfVert": [su, sv]}


SITES = [
    ("bezier.py: BezierPatch.as_surface (loop bounds, quad index expressions)", site_as_surface, ["C19Surf"]),
    ("bezier.py: BezierCurve.as_polyline (edge loop bound, edge pair)", site_as_polyline, ["C19Poly"]),
    ("sampling.py: sample_ball (operation order as an expression tree)", site_sample_ball, ["C19Ball"]),
    ("sampling.py: sample_AABB + aabb.py: span (points expression of both modes)", site_sample_aabb, ["C19Box"]),
    ("sampling.py: sample_surface (probabilities, face/normal index, barycentric map, wrapping options)", site_sample_surface, ["C19Tri"]),
    ("sampling.py: sample_polyline (guard, probabilities, edge index, interpolation, wrapping)", site_sample_polyline, ["C19Seg"]),
    ("sampling.py: sample_sphere (operation order, wrapping)", site_sample_sphere, ["C19Sphere"]),
    ("bezier.py: de_casteljau (range guard, loop bounds, update expression, result index)", site_de_casteljau, ["C19DC"]),
    ("bezier.py: BezierPatch._evaluate_row / evaluate / as_surface vertex (row vs column ranges and parameters)", site_patch_evaluate, ["C19Patch"]),
]


def translate():
    return [T.site(n, f) for n, f, _ in SITES]
