"""C18 translated fragments: constants of the face-/vertex-based frame field code, re-extracted from
$MOUETTE_REPO with Python `ast` on every run and written to lean/Mouette/Generated/C18Consts.lean."""
import ast
from fractions import Fraction

from .. import translate as T

FACES = "mouette/processing/framefield/faces2d.py"
VERTS = "mouette/processing/framefield/vertex2d.py"
BASE = "mouette/processing/framefield/base.py"


def _is_self_attr(node, name):
    return isinstance(node, ast.Attribute) and isinstance(node.value, ast.Name) and node.value.id == "self" and node.attr == name


def _ratlit(node):
    if isinstance(node, ast.Constant) and isinstance(node.value, (int, float)) and not isinstance(node.value, bool):
        return Fraction(repr(node.value))
    raise T.TranslateError(f"not a numeric literal: {ast.dump(node)[:80]}")


def _lean_rat(fr):
    return f"(({fr.numerator} : Rat) / {fr.denominator})"


def _unit_pow(node, base_name):
    """(x/abs(x)) ** E  ->  E-node, where x is Name base_name"""
    if not (isinstance(node, ast.BinOp) and isinstance(node.op, ast.Pow)):
        raise T.TranslateError(f"not a power: {ast.dump(node)[:100]}")
    b = node.left
    if base_name is None and isinstance(b, ast.BinOp) and isinstance(b.left, ast.Name):
        base_name = b.left.id            # any local name, used consistently
    ok = (isinstance(b, ast.BinOp) and isinstance(b.op, ast.Div) and isinstance(b.left, ast.Name) and b.left.id == base_name
          and isinstance(b.right, ast.Call) and isinstance(b.right.func, ast.Name) and b.right.func.id == "abs"
          and len(b.right.args) == 1 and isinstance(b.right.args[0], ast.Name) and b.right.args[0].id == base_name)
    if not ok:
        raise T.TranslateError(f"base of the power is not {base_name}/abs({base_name}): {ast.dump(b)[:120]}")
    return node.right


def face_exponent():
    tree, _ = T.load(FACES)
    fn = T.find_def(tree, "_BaseFrameField2DFaces._initialize_variables")
    hits = [s for s in ast.walk(fn) if isinstance(s, ast.Assign) and len(s.targets) == 1
            and isinstance(s.targets[0], ast.Subscript) and _is_self_attr(s.targets[0].value, "var")]
    if len(hits) != 1:
        raise T.TranslateError(f"expected exactly one write `self.var[T] = ...`, found {len(hits)}")
    e = _unit_pow(hits[0].value, None)
    if isinstance(e, ast.Constant) and isinstance(e.value, int) and not isinstance(e.value, bool) and e.value >= 0:
        return str(e.value), f"constant {e.value}"
    if _is_self_attr(e, "order") or (isinstance(e, ast.Name) and e.id == "order"):
        return "order", "self.order"
    raise T.TranslateError(f"exponent is neither an integer literal nor the order: {ast.dump(e)[:100]}")


def face_flag_constants():
    from .c18stranslate import load_fn          # normalised tree: `x = x + e` -> `x += e`, `a > b` -> `b < a`, annotations dropped
    fn = load_fn(FACES, "_BaseFrameField2DFaces.flag_singularities")
    zt = [s for s in ast.walk(fn) if isinstance(s, ast.Assign) and isinstance(s.targets[0], ast.Name) and s.targets[0].id == "ZERO_THRESHOLD"]
    if len(zt) != 1:
        raise T.TranslateError("ZERO_THRESHOLD assignment not found")
    thr = _ratlit(zt[0].value)
    wr = [s for s in ast.walk(fn) if isinstance(s, ast.Assign) and isinstance(s.targets[0], ast.Subscript)
          and isinstance(s.targets[0].value, ast.Name) and s.targets[0].value.id == "singuls"]
    if len(wr) != 1:
        raise T.TranslateError("write `singuls[v] = ...` not found exactly once")
    v = wr[0].value
    # recognised shapes: angle*A/pi   |   A*angle/pi
    if not (isinstance(v, ast.BinOp) and isinstance(v.op, ast.Div) and isinstance(v.right, ast.Name) and v.right.id == "pi"
            and isinstance(v.left, ast.BinOp) and isinstance(v.left.op, ast.Mult)):
        raise T.TranslateError(f"index expression is not angle*A/pi: {ast.dump(v)[:160]}")
    l, r = v.left.left, v.left.right
    if isinstance(l, ast.Name) and l.id == "angle": a = _ratlit(r)
    elif isinstance(r, ast.Name) and r.id == "angle": a = _ratlit(l)
    else: raise T.TranslateError(f"index expression is not angle*A/pi: {ast.dump(v)[:160]}")
    # guard of the write: `if abs(angle) > ZERO_THRESHOLD`
    # sign convention of the holonomy sum
    au = [s for s in ast.walk(fn) if isinstance(s, ast.AugAssign) and isinstance(s.target, ast.Name) and s.target.id == "angle"
          and isinstance(s.op, ast.Add) and isinstance(s.value, ast.IfExp)]
    if len(au) != 1:
        raise T.TranslateError("`angle += edge_rot[e] if u<v else -edge_rot[e]` not found exactly once")
    ie = au[0].value
    oth = [s for s in ast.walk(fn) if isinstance(s, ast.Assign) and isinstance(s.targets[0], ast.Name) and s.targets[0].id == "u"
           and isinstance(s.value, ast.Call) and isinstance(s.value.func, ast.Attribute) and s.value.func.attr == "other_edge_end"]
    if len(oth) != 1:
        raise T.TranslateError("`u = ...other_edge_end(e,v)` not found")

    def is_rot(n):
        return isinstance(n, ast.Subscript) and isinstance(n.value, ast.Name) and n.value.id == "edge_rot"

    def is_neg_rot(n):
        return isinstance(n, ast.UnaryOp) and isinstance(n.op, ast.USub) and is_rot(n.operand)
    t = ie.test
    if not (isinstance(t, ast.Compare) and len(t.ops) == 1 and isinstance(t.left, ast.Name) and isinstance(t.comparators[0], ast.Name)):
        raise T.TranslateError("sign test is not a comparison of two names")
    names = (t.left.id, t.comparators[0].id)
    if isinstance(t.ops[0], ast.Lt) and names == ("u", "v"): other_less = True
    elif isinstance(t.ops[0], ast.Gt) and names == ("v", "u"): other_less = True
    elif isinstance(t.ops[0], ast.Lt) and names == ("v", "u"): other_less = False
    elif isinstance(t.ops[0], ast.Gt) and names == ("u", "v"): other_less = False
    else: raise T.TranslateError(f"sign test not recognised: {ast.dump(t)[:100]}")
    if is_rot(ie.body) and is_neg_rot(ie.orelse): plus = other_less
    elif is_neg_rot(ie.body) and is_rot(ie.orelse): plus = not other_less
    else: raise T.TranslateError("branches of the sign expression are not ±edge_rot[e]")
    return thr, a, plus


def is_self_division(st):
    """`x /= abs(x)`  or the equivalent  `x = x / abs(x)`  (x any subscript expression)"""
    if isinstance(st, ast.AugAssign) and isinstance(st.op, ast.Div):
        tgt, val = st.target, st.value
    elif isinstance(st, ast.Assign) and len(st.targets) == 1 and isinstance(st.value, ast.BinOp) and isinstance(st.value.op, ast.Div) \
            and ast.unparse(st.value.left) == ast.unparse(st.targets[0]):
        tgt, val = st.targets[0], st.value.right
    else:
        return False
    return (isinstance(val, ast.Call) and getattr(val.func, "id", None) == "abs" and len(val.args) == 1
            and ast.unparse(val.args[0]) == ast.unparse(tgt))


def base_threshold():
    tree, _ = T.load(BASE)
    fn = T.find_def(tree, "FrameField.normalize")
    from .c18stranslate import load_fn
    fn = load_fn(BASE, "FrameField.normalize")          # normalised: `abs(x) > T` -> `T < abs(x)`
    ifs = [s for s in ast.walk(fn) if isinstance(s, ast.If) and isinstance(s.test, ast.Compare) and len(s.test.ops) == 1
           and isinstance(s.test.ops[0], ast.Lt) and isinstance(s.test.comparators[0], ast.Call)
           and isinstance(s.test.comparators[0].func, ast.Name) and s.test.comparators[0].func.id == "abs"]
    if len(ifs) != 1:
        raise T.TranslateError("`if abs(self.var[i]) > THR` not found exactly once in FrameField.normalize")
    body = ifs[0].body
    if not (len(body) == 1 and is_self_division(body[0])):
        raise T.TranslateError("body of the guard is not `self.var[i] /= abs(self.var[i])` (or `self.var[i] = self.var[i] / abs(self.var[i])`)")
    return _ratlit(ifs[0].test.left)


def vertex_constants():
    from .c18stranslate import load_fn          # normalised tree
    fn = load_fn(VERTS, "_BaseFrameField2DVertices._initialize_variables")
    pw = [s for s in ast.walk(fn) if isinstance(s, ast.Assign) and isinstance(s.targets[0], ast.Name) and s.targets[0].id == "vpow"]
    if len(pw) != 2:
        raise T.TranslateError(f"expected two `vpow = (v/abs(v)) ** self.order`, found {len(pw)}")
    for s in pw:
        e = _unit_pow(s.value, "v")
        if not _is_self_attr(e, "order"):
            raise T.TranslateError("vertex constraint exponent is not self.order")
    gs = [s for s in ast.walk(fn) if isinstance(s, ast.If) and isinstance(s.test, ast.Compare) and isinstance(s.test.ops[0], ast.Lt)
          and isinstance(s.test.comparators[0], ast.Call) and getattr(s.test.comparators[0].func, "id", None) == "abs"
          and isinstance(s.test.comparators[0].args[0], ast.BinOp) and isinstance(s.test.comparators[0].args[0].op, ast.Add)]
    if len(gs) != 2:
        raise T.TranslateError(f"expected two cancellation guards `abs(self.var[.] + vpow) > THR`, found {len(gs)}")
    thr = {_ratlit(s.test.left) for s in gs}
    if len(thr) != 1:
        raise T.TranslateError("the two cancellation guards use different thresholds")
    # condition selecting the guarded branch: `self.smooth_normals and self.order%2 != 1`
    return thr.pop()


def run():
    """returns the list of site records; writes Generated/C18Consts.lean when every site was recognised"""
    out = {}
    recs = []

    def wrap(name, fn):
        def g():
            out[name] = fn()
            return str(out[name])
        recs.append(T.site(name, g))
    wrap("faces2d._initialize_variables: exponent of (c/abs(c))", face_exponent)
    wrap("faces2d.flag_singularities: ZERO_THRESHOLD, angle*A/pi, sign of the holonomy sum", face_flag_constants)
    wrap("base.FrameField.normalize: threshold", base_threshold)
    wrap("vertex2d._initialize_variables: exponent is self.order, cancellation guard", vertex_constants)
    if all(r["ok"] for r in recs):
        expo, _ = out[recs[0]["site"]]
        thr, a, plus = out[recs[1]["site"]]
        nthr = out[recs[2]["site"]]
        vthr = out[recs[3]["site"]]
        body = f"""set_option linter.unusedVariables false
namespace Mouette.Generated.C18

/-- faces2d.py `_initialize_variables`: `self.var[T] = (c/abs(c)) ** <this>` -/
def constraintExponent (order : Nat) : Nat := {expo}

/-- faces2d.py `flag_singularities`: `singuls[v] = angle * A / pi`; an angle of one turn (2π) gives `2*A` -/
def indexPerTurn : Rat := 2 * {_lean_rat(a)}

/-- faces2d.py `flag_singularities`: `ZERO_THRESHOLD` (radians) -/
def zeroThreshold : Rat := {_lean_rat(thr)}

/-- faces2d.py `flag_singularities`: `angle += edge_rot[e] if u<v else -edge_rot[e]` (u the other end) -/
def signPlusWhenOtherLess : Bool := {"true" if plus else "false"}

/-- base.py `normalize`: `if abs(var[i]) > <this>: var[i] /= abs(var[i])` -/
def normThreshold : Rat := {_lean_rat(nthr)}

/-- vertex2d.py `_initialize_variables`: `if abs(var[B] + vpow) > THR` ; squared (the model compares squared moduli) -/
def vertexGuardSq : Rat := {_lean_rat(vthr)} * {_lean_rat(vthr)}

end Mouette.Generated.C18
"""
        _, sha = T.write_generated("C18Consts", body)
        for r in recs: r["detail"] = f"{r['detail']} [file sha {sha}]"
    if not all(r["ok"] for r in recs):
        from .c18stranslate import write_stub
        write_stub("C18Consts", recs)          # never leave the file of an earlier tree on disk
    return recs
