"""C01: bodies of `SurfaceMesh` / `SurfaceMesh._Connectivity` / `PolyLine._Connectivity` methods translated imperatively to Lean on
every run (compiler: vlib/gen/c01_pylean.py; output: lean/Mouette/Generated/C01Src.lean; bridges: Props/C01Source.lean).

VOCABULARY (trusted): containers of the mesh and the caches, rendered over the model `S : Surf` (Model/Surface.lean)
  self.edges / self.mesh.edges            S.edges                         self.faces / self.mesh.faces     S.faces
  enumerate(X)                            X.zipIdx with the pair swapped  utils.keyify(a,b) / keyify(F)    key2 a b / sortNat F
  a dict cache (`_face_id`, `_edge_id`)   association list, MOST RECENT WRITE FIRST (`d[k] = v` is a cons, `d.get(k)` the first hit)
  lazy guards `if self._x is None: self._compute_x()`      dropped here: they are the subject of the guard-table site (C01Guards)
  `self.connectivity.edge_id / direct_face`, `self.edge_id`, `self.direct_face`, `self.vertex_to_vertices`, `self.is_edge_on_border`
                                          the model's accessor of the same name (their own bodies are translated separately)
"""
import ast

from .. import translate as T
from ..translate import TranslateError
from . import c01_pylean as PL

SURF = "mouette/mesh/datatypes/surface.py"
LIN = "mouette/mesh/datatypes/linear.py"

HEADER = ("import Mouette.Model.SurfSource\nimport Mouette.Model.PySrc\nset_option linter.unusedVariables false\nnamespace Mouette.Generated.C01Src\n"
          "open Mouette.Surface Mouette.SurfSource Mouette.PySrc\n\n")

def _tuple_of(c, v, env):
    return v["x"]


BV_EXPRS = [
    ("set()", "([] : List Nat)", "List Nat"),
    ("self.vertices.create_attribute('border', bool)", "([] : BoolMap)", "BoolMap"),
    ("self.boundary_edges", "(boundaryEdges S)", "List Nat"),
    ("self.edges[M_e]", "(S.edges.getD {e} (0, 0))", "(Nat × Nat)"),
    ("list(self.boundary_vertices)", "p0__boundary_vertices", "List Nat"),
    ("self.id_vertices", "(List.range S.nv)", "List Nat"),
]
BV_SUBS = {"BoolMap": {"get": ("(boolGet {x} {k})", "Bool", False), "set": "boolSet {x} {k} {v}"}}
BV_METHODS = {"List": {"add": "setAdd {x} {a}"}}

MESH_EXPRS = [
    ("self.connectivity.edge_id(M_a, M_b)", "(Mouette.Surface.edgeId S {a} {b})", "Option Nat"),
    ("self.connectivity.direct_face(M_a, M_b)", "(Mouette.Surface.directFace S {a} {b})", "Option Nat"),
    ("self.is_edge_on_border(M_a, M_b)", "(isEdgeOnBorder S {a} {b})", "Bool"),
    ("enumerate(self.edges)", "(S.edges.zipIdx.map fun p => (p.2, p.1))", "List (Nat × Nat × Nat)"),
    ("self.faces", "S.faces", "List (List Nat)"),
]
CONN_EXPRS = [
    ("dict()", "([] : List (List Nat × Nat))", "FaceDict"),
    ("enumerate(self.mesh.faces)", "(S.faces.zipIdx.map fun p => (p.2, p.1))", "List (Nat × List Nat)"),
    ("enumerate(self.mesh.edges)", "(S.edges.zipIdx.map fun p => (p.2, p.1))", "List (Nat × Nat × Nat)"),
    ("utils.keyify(*M_a)", "(sortNat {a})", "List Nat"),
    ("utils.keyify(M_a, M_b)", "(key2 {a} {b})", "(Nat × Nat)"),
    ("utils.keyify(M_f)", lambda c, v, env: (f"(sortNat {v['f']})" if v["T_f"] == "List Nat" else f"(key2 {v['f']}.1 {v['f']}.2)"),
     lambda c, v, env: ("List Nat" if v["T_f"] == "List Nat" else "(Nat × Nat)")),
    ("self._face_id.get(M_k, None)", "(dictGet p0__face_id {k})", "Option Nat"),
    ("self._edge_id.get(M_k, None)", "(dictGet p0__edge_id {k})", "Option Nat"),
    ("self.direct_face(M_a, M_b)", "(Mouette.Surface.directFace S {a} {b})", "Option Nat"),
    ("self.edge_id(M_a, M_b)", "(Mouette.Surface.edgeId S {a} {b})", "Option Nat"),
    ("self.vertex_to_vertices(M_v)", "(Mouette.Surface.vertexToVertices S {v})", "List Nat"),
    ("self.mesh.faces[M_f]", "(Mouette.Surface.faceOf S {f})", "List Nat"),
    ("self.mesh.edges[M_e]", "S.edges[{e}]?", "(Nat × Nat)", True),
    ("range(M_n)", "(List.range {n})", "List Nat"),
]
EDGE_EXPRS = [("dict()", "([] : List ((Nat × Nat) × Nat))", "EdgeDict")] + CONN_EXPRS[1:]
SUBS = {
    "FaceDict": {"set": "({k}, {v}) :: {x}"},
    "EdgeDict": {"set": "({k}, {v}) :: {x}"},
    "List": {"get": ("({x}.getD {k} 0)", "Nat", False)},
}
GUARDS = ["if self._face_id is None:\n    self._compute_face_ids()", "if self._edge_id is None:\n    self._compute_edge_id()"]

FALLBACK = """/- the translator refused the current source: stubs (the bridges of Props/C01Source do not hold for them) -/
def isEdgeOnBorder (S : Surf) (p1 : Nat) (p2 : Nat) : Bool := false
def computeInteriorBoundaryEdges (S : Surf) : (List Nat × List Nat) := ([], [])
def computeMeshType (S : Surf) : (Bool × Bool) := (false, false)
def computeInteriorBoundaryVertices (S : Surf) : (List Nat × BoolMap × List Nat) := ([], [], [])
def computeFaceIds (S : Surf) : FaceDict := []
def faceId (S : Surf) (p0__face_id : FaceDict) (p1 : List Nat) : Option Nat := none
def computeEdgeId (S : Surf) : EdgeDict := []
def edgeId (S : Surf) (p0__edge_id : EdgeDict) (p1 : Nat) (p2 : Nat) : Option Nat := none
def edgeToFaces (S : Surf) (p1 : Nat) (p2 : Nat) : (Option Nat × Option Nat) := (none, none)
def faceToEdges (S : Surf) (p1 : Nat) : List (Option Nat) := []
def otherEdgeEnd (S : Surf) (p1 : Nat) (p2 : Nat) : Option (Option Nat) := none
def vertexToEdges (S : Surf) (p1 : Nat) : List (Option Nat) := []
"""

FUNCTIONS = ["SurfaceMesh.is_edge_on_border", "SurfaceMesh._compute_interior_boundary_edges", "SurfaceMesh._compute_interior_boundary_vertices",
             "SurfaceMesh._compute_mesh_type",
             "SurfaceMesh._Connectivity._compute_face_ids", "SurfaceMesh._Connectivity.face_id",
             "PolyLine._Connectivity._compute_edge_id", "PolyLine._Connectivity.edge_id",
             "SurfaceMesh._Connectivity.edge_to_faces", "SurfaceMesh._Connectivity.face_to_edges",
             "PolyLine._Connectivity.other_edge_end", "PolyLine._Connectivity.vertex_to_edges"]


def defs():
    ts, _ = T.load(SURF)
    tl, _ = T.load(LIN)
    out = []
    ctx = dict(ctx="(S : Surf)", ctxargs="S")
    v = PL.Vocab(["self", "u", "v"], [None, "Nat", "Nat"], exprs=MESH_EXPRS, ret="Bool", **ctx)
    out.append(PL.compile_function("isEdgeOnBorder", T.find_def(ts, "SurfaceMesh.is_edge_on_border"), v, "`SurfaceMesh.is_edge_on_border(u, v)`"))
    v = PL.Vocab(["self"], [None], exprs=MESH_EXPRS, empties=["List Nat", "List Nat"], ret="(List Nat × List Nat)",
                 fall="(p0__interior_edges, p0__boundary_edges)", **ctx)
    out.append(PL.compile_function("computeInteriorBoundaryEdges", T.find_def(ts, "SurfaceMesh._compute_interior_boundary_edges"), v,
                                   "`SurfaceMesh._compute_interior_boundary_edges`: (`_interior_edges`, `_boundary_edges`) after the loop"))
    v = PL.Vocab(["self"], [None], exprs=BV_EXPRS, subs=BV_SUBS, methods=BV_METHODS, empties=["List Nat"],
                 ret="(List Nat × BoolMap × List Nat)", fall="(p0__boundary_vertices, p0__is_vertex_on_border, p0__interior_vertices)", **ctx)
    out.append(PL.compile_function("computeInteriorBoundaryVertices", T.find_def(ts, "SurfaceMesh._compute_interior_boundary_vertices"), v,
                                   "`SurfaceMesh._compute_interior_boundary_vertices`: (`_boundary_vertices`, `_is_vertex_on_border`, `_interior_vertices`)"))
    v = PL.Vocab(["self"], [None], exprs=MESH_EXPRS, ret="(Bool × Bool)", fall="(p0__is_triangular, p0__is_quad)", **ctx)
    out.append(PL.compile_function("computeMeshType", T.find_def(ts, "SurfaceMesh._compute_mesh_type"), v,
                                   "`SurfaceMesh._compute_mesh_type`: (`_is_triangular`, `_is_quad`) after the loop"))
    v = PL.Vocab(["self"], [None], exprs=CONN_EXPRS, subs=SUBS, ret="FaceDict", fall="p0__face_id", **ctx)
    out.append(PL.compile_function("computeFaceIds", T.find_def(ts, "SurfaceMesh._Connectivity._compute_face_ids"), v,
                                   "`_Connectivity._compute_face_ids`: the `_face_id` dict (most recent write first)"))
    v = PL.Vocab(["self", "args"], [None, "List Nat"], exprs=CONN_EXPRS, subs=SUBS, ret="Option Nat", drop=GUARDS,
                 init_env={"self._face_id": "FaceDict"}, ctx="(S : Surf) (p0__face_id : FaceDict)", ctxargs="S p0__face_id")
    out.append(PL.compile_function("faceId", T.find_def(ts, "SurfaceMesh._Connectivity.face_id"), v,
                                   "`_Connectivity.face_id(*args)` on the filled cache"))
    v = PL.Vocab(["self"], [None], exprs=EDGE_EXPRS, subs=SUBS, ret="EdgeDict", fall="p0__edge_id", **ctx)
    out.append(PL.compile_function("computeEdgeId", T.find_def(tl, "PolyLine._Connectivity._compute_edge_id"), v,
                                   "`PolyLine._Connectivity._compute_edge_id`: the `_edge_id` dict (most recent write first)"))
    v = PL.Vocab(["self", "V1", "V2"], [None, "Nat", "Nat"], exprs=EDGE_EXPRS, subs=SUBS, ret="Option Nat", drop=GUARDS,
                 init_env={"self._edge_id": "EdgeDict"}, ctx="(S : Surf) (p0__edge_id : EdgeDict)", ctxargs="S p0__edge_id")
    out.append(PL.compile_function("edgeId", T.find_def(tl, "PolyLine._Connectivity.edge_id"), v,
                                   "`PolyLine._Connectivity.edge_id(V1, V2)` on the filled cache"))
    v = PL.Vocab(["self", "u", "v"], [None, "Nat", "Nat"], exprs=CONN_EXPRS, subs=SUBS, ret="(Option Nat × Option Nat)", **ctx)
    out.append(PL.compile_function("edgeToFaces", T.find_def(ts, "SurfaceMesh._Connectivity.edge_to_faces"), v, "`_Connectivity.edge_to_faces(u, v)`"))
    v = PL.Vocab(["self", "F"], [None, "Nat"], exprs=CONN_EXPRS, subs=SUBS, ret="List (Option Nat)", **ctx)
    out.append(PL.compile_function("faceToEdges", T.find_def(ts, "SurfaceMesh._Connectivity.face_to_edges"), v, "`_Connectivity.face_to_edges(F)`"))
    v = PL.Vocab(["self", "E", "V"], [None, "Nat", "Nat"], exprs=CONN_EXPRS, subs=SUBS, ret="Option Nat", raising=True, **ctx)
    out.append(PL.compile_function("otherEdgeEnd", T.find_def(tl, "PolyLine._Connectivity.other_edge_end"), v,
                                   "`PolyLine._Connectivity.other_edge_end(E, V)`; outer `none` = IndexError"))
    v = PL.Vocab(["self", "V"], [None, "Nat"], exprs=CONN_EXPRS, subs=SUBS, ret="List (Option Nat)", **ctx)
    out.append(PL.compile_function("vertexToEdges", T.find_def(tl, "PolyLine._Connectivity.vertex_to_edges"), v, "`PolyLine._Connectivity.vertex_to_edges(V)`"))
    return "\n".join(out)


def translate_sites():
    st = {}

    def site():
        st["t"] = defs()
        return {"functions": FUNCTIONS, "lean_defs": st["t"].count("\ndef ") + st["t"].startswith("def ")}
    r = T.site("surface.py+linear.py: bodies of is_edge_on_border, _compute_interior_boundary_edges, _compute_mesh_type, _compute_face_ids, "
               "face_id, _compute_edge_id, edge_id, edge_to_faces, face_to_edges, other_edge_end, vertex_to_edges translated statement by statement", site)
    T.write_generated("C01Src", (st["t"] if r["ok"] else FALLBACK) + "\nend Mouette.Generated.C01Src\n", HEADER)
    return [r]
