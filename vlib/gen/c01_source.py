"""C01: bodies of `SurfaceMesh` / `SurfaceMesh._Connectivity` / `PolyLine._Connectivity` methods translated imperatively to Lean on
every run (compiler: vlib/gen/c01_pylean.py; output: lean/Mouette/Generated/C01Src.lean; bridges: Props/C01Source.lean).

VOCABULARY (trusted): containers of the mesh and the caches, rendered over the model `S : Surf` (Model/Surface.lean)
  self.edges / self.mesh.edges            S.edges                         self.faces / self.mesh.faces     S.faces
  enumerate(X)                            X.zipIdx with the pair swapped  utils.keyify(a,b) / keyify(F)    key2 a b / sortNat F
  a dict cache (`_face_id`, `_edge_id`)   association list, MOST RECENT WRITE FIRST (`d[k] = v` is a cons, `d.get(k)` the first hit)
  lazy guards `if self._x is None: self._compute_x()`      dropped here: they are the subject of the guard-table site (C01Guards)
  `self.connectivity.edge_id / direct_face`, `self.edge_id`, `self.direct_face`, `self.vertex_to_vertices`, `self.is_edge_on_border`
                                          the model's accessor of the same name (their own bodies are translated separately)
"""
import ast

from .. import translate as T
from ..translate import TranslateError
from . import c01_pylean as PL

SURF = "mouette/mesh/datatypes/surface.py"
LIN = "mouette/mesh/datatypes/linear.py"

HEADER = ("import Mouette.Model.SurfSource\nimport Mouette.Model.PySrc\nset_option linter.unusedVariables false\nnamespace Mouette.Generated.C01Src\n"
          "open Mouette.Surface Mouette.SurfSource Mouette.PySrc\n\n")

def _tuple_of(c, v, env):
    return v["x"]


BV_EXPRS = [
    ("set()", "([] : List Nat)", "List Nat"),
    ("self.vertices.create_attribute('border', bool)", "([] : BoolMap)", "BoolMap"),
    ("self.boundary_edges", "(boundaryEdges S)", "List Nat"),
    ("self.edges[M_e]", "(S.edges.getD {e} (0, 0))", "(Nat × Nat)"),
    ("list(self.boundary_vertices)", "p0__boundary_vertices", "List Nat"),
    ("self.id_vertices", "(List.range S.nv)", "List Nat"),
]
BV_SUBS = {"BoolMap": {"get": ("(boolGet {x} {k})", "Bool", False), "set": "boolSet {x} {k} {v}"}}
BV_METHODS = {"List": {"add": "setAdd {x} {a}"}}

MESH_EXPRS = [
    ("self.connectivity.edge_id(M_a, M_b)", "(Mouette.Surface.edgeId S {a} {b})", "Option Nat"),
    ("self.connectivity.direct_face(M_a, M_b)", "(Mouette.Surface.directFace S {a} {b})", "Option Nat"),
    ("self.is_edge_on_border(M_a, M_b)", "(isEdgeOnBorder S {a} {b})", "Bool"),
    ("enumerate(self.edges)", "(S.edges.zipIdx.map fun p => (p.2, p.1))", "List (Nat × Nat × Nat)"),
    ("self.faces", "S.faces", "List (List Nat)"),
]
CONN_EXPRS = [
    ("dict()", "([] : List (List Nat × Nat))", "FaceDict"),
    ("enumerate(self.mesh.faces)", "(S.faces.zipIdx.map fun p => (p.2, p.1))", "List (Nat × List Nat)"),
    ("enumerate(self.mesh.edges)", "(S.edges.zipIdx.map fun p => (p.2, p.1))", "List (Nat × Nat × Nat)"),
    ("utils.keyify(*M_a)", "(sortNat {a})", "List Nat"),
    ("utils.keyify(M_a, M_b)", "(key2 {a} {b})", "(Nat × Nat)"),
    ("utils.keyify(M_f)", lambda c, v, env: (f"(sortNat {v['f']})" if v["T_f"] == "List Nat" else f"(key2 {v['f']}.1 {v['f']}.2)"),
     lambda c, v, env: ("List Nat" if v["T_f"] == "List Nat" else "(Nat × Nat)")),
    ("self._face_id.get(M_k, None)", "(dictGet p0__face_id {k})", "Option Nat"),
    ("self._edge_id.get(M_k, None)", "(dictGet p0__edge_id {k})", "Option Nat"),
    ("self.direct_face(M_a, M_b)", "(Mouette.Surface.directFace S {a} {b})", "Option Nat"),
    ("self.edge_id(M_a, M_b)", "(Mouette.Surface.edgeId S {a} {b})", "Option Nat"),
    ("self.vertex_to_vertices(M_v)", "(Mouette.Surface.vertexToVertices S {v})", "List Nat"),
    ("self.mesh.faces[M_f]", "(Mouette.Surface.faceOf S {f})", "List Nat"),
    ("self.mesh.edges[M_e]", "S.edges[{e}]?", "(Nat × Nat)", True),
    ("range(M_n)", "(List.range {n})", "List Nat"),
]
EDGE_EXPRS = [("dict()", "([] : List ((Nat × Nat) × Nat))", "EdgeDict")] + CONN_EXPRS[1:]
SUBS = {
    "FaceDict": {"set": "({k}, {v}) :: {x}"},
    "EdgeDict": {"set": "({k}, {v}) :: {x}"},
    "List": {"get": ("({x}.getD {k} 0)", "Nat", False)},
}
GUARDS = ["if self._face_id is None:\n    self._compute_face_ids()", "if self._edge_id is None:\n    self._compute_edge_id()"]

# ----------------------------------------------------------------------------------------------------------------------
# _compute_connectivity (corner tables, half-edge table, opposite pass) and the accessors that read these caches
# ----------------------------------------------------------------------------------------------------------------------
def _subst(node, name, repl):
    import copy

    class R(ast.NodeTransformer):
        def visit_Name(self, n):
            return copy.deepcopy(repl) if n.id == name else n
    return R().visit(copy.deepcopy(node))


def _genexp_unpack(c, b, env, nxt, ind, exits):
    """`a, b, c = (e(p) for p in (x, y, z))`  ==  `a, b, c = e(x), e(y), e(z)`"""
    p = b["M_p"]
    if not isinstance(p, ast.Name): return None
    vals = [_subst(b["M_e"], p.id, b[k]) for k in ("M_x", "M_y", "M_z")]
    tgt = ast.Tuple([b["M_a"], b["M_b"], b["M_c"]], ast.Store())
    return c.assign(tgt, ast.Tuple(vals, ast.Load()), env, nxt, ind, exits)


def _he_set_opp(c, b, env, nxt, ind, exits):
    pre = []
    k, tk = c.E(b["M_k"], env, pre); v, tv = c.E(b["M_v"], env, pre)
    if pre or tk != "(Nat × Nat)" or tv != "Option Nat" or "p0._half_edges" not in env: raise c.err("unsupported write into a half-edge entry")
    return f"{ind}let p0__half_edges : HEDict := heSetOpp p0__half_edges {k} {v}\n" + nxt(env)


def _v2cn_add(c, b, env, nxt, ind, exits):
    pre = []
    v, _ = c.E(b["M_v"], env, pre); x, _ = c.E(b["M_c"], env, pre)
    if pre or "p0._adjV2Cn" not in env: raise c.err("unsupported `.add` on a corner set")
    return f"{ind}let p0__adjV2Cn : V2Cn := v2cnAdd p0__adjV2Cn {v} {x}\n" + nxt(env)


CC_EXPRS = [
    ("dict([(M_i, set()) for M_i in self.mesh.id_vertices])", "(List.replicate S.nv ([] : List Nat))", "V2Cn"),
    ("self.mesh.id_vertices", "(List.range S.nv)", "List Nat"),
    ("self.mesh.id_corners", "(List.range S.fc.length)", "List Nat"),
    ("self.mesh.face_corners.element(M_c)", "(S.fc.getD {c} (0, 0)).1", "Nat"),
    ("self.mesh.face_corners.adj(M_c)", "(S.fc.getD {c} (0, 0)).2", "Nat"),
    ("M_k not in self._adjF2Cn", "(!(dictHas p0__adjF2Cn {k}))", "Bool"),
    ("M_k in self._adjF2Cn", "(dictHas p0__adjF2Cn {k})", "Bool"),
    ("self._adjVF2Cn[M_k]", "(dictGetD p0__adjVF2Cn {k})", "Nat"),
    ("enumerate(self.mesh.faces)", "(S.faces.zipIdx.map fun p => (p.2, p.1))", "List (Nat × List Nat)"),
    ("range(M_n)", "(List.range {n})", "List Nat"),
    ("self._half_edges.keys()", "(p0__half_edges.map fun e => e.1)", "List (Nat × Nat)"),
    ("self._half_edges.get(M_k, [None])[0]", "(heGet0 p0__half_edges {k})", "Option Nat"),
    ("list(M_x)", "{x}", "List Nat"),
]
CC_SUBS = {
    "VFDict": {"set": "({k}, {v}) :: {x}"}, "FDict": {"set": "({k}, {v}) :: {x}"}, "HEDict": {"set": "({k}, {v}) :: {x}"},
    "CnDict": {"set": "({k}, {v}) :: {x}"}, "V2Cn": {"get": ("(v2cnGet {x} {k})", "List Nat", False), "set": "v2cnSet {x} {k} {v}"},
    "List": {"get": ("({x}.getD {k} 0)", "Nat", False)},
}
CC_STMTS = [
    ("M_a, M_b, M_c = (M_e for M_p in (M_x, M_y, M_z))", _genexp_unpack),
    ("self._half_edges[M_k][3] = M_v", _he_set_opp),
    ("self._adjV2Cn[M_v].add(M_c)", _v2cn_add),
]
CC_INITS = [("self._adjVF2Cn = dict()", "VFDict"), ("self._adjF2Cn = dict()", "FDict"), ("self._half_edges = dict()", "HEDict"), ("self._Cn2he = dict()", "CnDict")]
# statements of `_compute_connectivity` that are recognised and left to the hand model (they must be there, in this shape)
CC_REQUIRED = ["super()._compute_connectivity()",
               "if config.sort_neighborhoods and isinstance(self.mesh, SurfaceMesh):\n    self._sort_vertex_neighborhoods()"]


def _dict_init(ty):
    def h(c, b, env, nxt, ind, exits):
        env2 = dict(env); key = "p0." + ty[1]
        env2[key] = ty[0]
        return f"{ind}let {c.lname(key)} : {ty[0]} := []\n" + nxt(env2)
    return h


ACC_CTX = dict(ctx="(S : Surf) (p0__half_edges : HEDict) (p0__Cn2he : CnDict) (p0__adjVF2Cn : VFDict)", ctxargs="S p0__half_edges p0__Cn2he p0__adjVF2Cn",
               init_env={"self._half_edges": "HEDict", "self._Cn2he": "CnDict", "self._adjVF2Cn": "VFDict"})
ACC_GUARDS = ["if self._half_edges is None:\n    self._compute_connectivity()", "if self._Cn2he is None:\n    self._compute_connectivity()",
              "if self._adjVF2Cn is None:\n    self._compute_connectivity()", "if self._adjV2Cn is None:\n    self._compute_connectivity()"]
ACC_EXPRS = [
    ("self._Cn2he.get(M_c, None)", "(dictFind p0__Cn2he {c})", "Option (Nat × Nat)"),
    ("self._half_edges.get(M_k, [None])[0]", "(heGet0 p0__half_edges {k})", "Option Nat"),
    ("self._half_edges[M_k][4:]", "(heInds p0__half_edges {k})", "(Option Nat × Option Nat × Option Nat)"),
    ("self._half_edges[M_k][M_i]", "(heField p0__half_edges {k} {i})", "Option Nat"),
    ("M_k in self._half_edges", "(dictHas p0__half_edges {k})", "Bool"),
    ("M_k not in self._half_edges", "(!(dictHas p0__half_edges {k}))", "Bool"),
    ("self._adjVF2Cn.get(M_k, None)", "(dictGet p0__adjVF2Cn {k})", "Option Nat"),
    ("self.direct_face(M_a, M_b, True)", "(directFaceInds S p0__half_edges p0__Cn2he p0__adjVF2Cn {a} {b})", "(Option Nat × Option Nat × Option Nat)"),
    ("self.direct_face(M_a, M_b)", "(directFace S p0__half_edges p0__Cn2he p0__adjVF2Cn {a} {b})", "Option Nat"),
    ("self.corner_to_face(M_c)", "(Mouette.Surface.cornerToFace S {c})", "Option Nat"),
    ("self.vertex_to_corners(M_v)", "(Mouette.Surface.vertexToCorners S {v})", "List Nat"),
]
ACCESSORS = [  # (lean name, python method, params, ptypes, ret, consts, doc)
    ("previousCorner", "previous_corner", ["self", "C"], [None, "Nat"], "Option Nat", None),
    ("nextCorner", "next_corner", ["self", "C"], [None, "Nat"], "Option Nat", None),
    ("oppositeCorner", "opposite_corner", ["self", "C"], [None, "Nat"], "Option Nat", None),
    ("cornerToHalfEdge", "corner_to_half_edge", ["self", "C"], [None, "Nat"], "Option (Nat × Nat)", None),
    ("halfEdgeToCorner", "half_edge_to_corner", ["self", "u", "v"], [None, "Nat", "Nat"], "Option Nat", None),
    ("vertexToCornerInFace", "vertex_to_corner_in_face", ["self", "V", "F"], [None, "Nat", "Nat"], "Option Nat", None),
    ("directFace", "direct_face", ["self", "u", "v", "return_inds"], [None, "Nat", "Nat", None], "Option Nat", {"return_inds": False}),
    ("directFaceInds", "direct_face", ["self", "u", "v", "return_inds"], [None, "Nat", "Nat", None], "(Option Nat × Option Nat × Option Nat)", {"return_inds": True}),
    ("oppositeFace", "opposite_face", ["self", "u", "v", "F", "return_inds"], [None, "Nat", "Nat", "Nat", None], "Option Nat", {"return_inds": False}),
    ("oppositeFaceInds", "opposite_face", ["self", "u", "v", "F", "return_inds"], [None, "Nat", "Nat", "Nat", None], "(Option Nat × Option Nat × Option Nat)", {"return_inds": True}),
    ("vertexToFaces", "vertex_to_faces", ["self", "V"], [None, "Nat"], "List (Option Nat)", None),
]
ACC2_EXPRS = [
    ("self.mesh.faces[M_f]", "(Mouette.Surface.faceOf S {f})", "List Nat"),
    ("self.mesh.edges[M_e]", "S.edges[{e}]?", "(Nat × Nat)", True),
    ("enumerate(M_l)", "({l}.zipIdx.map fun p => (p.2, p.1))", "List (Nat × Nat)"),
    ("range(M_n)", "(List.range {n})", "List Nat"),
    ("list(M_x)", "{x}", "List Nat"),
    ("self.opposite_face(M_a, M_b, M_f)", "(Mouette.Surface.oppositeFace S {a} {b} {f})", "Option Nat"),
    ("utils.keyify(M_a, M_b)", "(some (key2 {a} {b}))", "Option (Nat × Nat)"),
    ("self._adjV2Cn.get(M_v, None)", "p0__adjV2Cn[{v}]?", "Option (List Nat)"),
    ("self._adjV2V[M_v]", "p0__adjV2V[{v}]?", "List Nat", True),
    ("self.mesh.face_corners.adj(M_c)", "(S.fc[{c}]?).map (fun e => e.2)", "Nat", True),
]
ACC2 = [  # (lean name, qualified python name, params, ptypes, ret, raising, ctx extras)
    ("inFaceIndex", "SurfaceMesh._Connectivity.in_face_index", ["self", "F", "V"], [None, "Nat", "Nat"], "Option Nat", False),
    ("commonEdge", "SurfaceMesh._Connectivity.common_edge", ["self", "iF1", "iF2"], [None, "Nat", "Nat"], "Option (Nat × Nat)", False),
    ("faceToVertices", "SurfaceMesh._Connectivity.face_to_vertices", ["self", "F"], [None, "Nat"], "List Nat", False),
    ("edgeToVertices", "PolyLine._Connectivity.edge_to_vertices", ["self", "E"], [None, "Nat"], "(Nat × Nat)", True),
    ("vertexToCorners", "SurfaceMesh._Connectivity.vertex_to_corners", ["self", "V"], [None, "Nat"], "Option (List Nat)", False),
    ("vertexToVertices", "PolyLine._Connectivity.vertex_to_vertices", ["self", "V"], [None, "Nat"], "List Nat", True),
    ("cornerToFace", "SurfaceMesh._Connectivity.corner_to_face", ["self", "C"], [None, "Nat"], "Nat", True),
]
ACC3_EXPRS = [
    ("self._adjF2Cn[M_f]", "(dictGet p0__adjF2Cn {f})", "Nat", True),
    ("self.mesh.faces[M_f]", "(Mouette.Surface.faceOf S {f})", "List Nat"),
    ("range(M_n)", "(List.range {n})", "List Nat"),
    ("self.face_to_corners(M_f)", "(Mouette.Surface.faceToCorners S {f})", "List Nat", True),
    ("self.opposite_corner(M_c)", "(Mouette.Surface.oppositeCorner S {c})", "Option Nat"),
    # `corner_to_face` of an existing corner is never None: the list keeps the faces of the opposite corners that exist
    ("[self.corner_to_face(M_o) for M_o in M_l if M_o is not None]", "({l}.filterMap fun o => o.bind (Mouette.Surface.cornerToFace S))", "List Nat"),
]
ACC3 = [
    ("faceToFirstCorner", "SurfaceMesh._Connectivity.face_to_first_corner", ["self", "F"], [None, "Nat"], "Nat", True),
    ("faceToCorners", "SurfaceMesh._Connectivity.face_to_corners", ["self", "F"], [None, "Nat"], "List Nat", True),
    ("faceToFaces", "SurfaceMesh._Connectivity.face_to_faces", ["self", "F"], [None, "Nat"], "List Nat", True),
]
ACC3_GUARDS = ["if self._adjF2Cn is None:\n    self._compute_connectivity()"]
ACC4_CTX = ("(p0__boundary_edges p0__interior_edges p0__boundary_vertices p0__interior_vertices : List Nat) "
            "(p0__is_vertex_on_border : BoolMap) (p0__is_triangular p0__is_quad : Bool)")
ACC4_ENV = {"self._boundary_edges": "List Nat", "self._interior_edges": "List Nat", "self._boundary_vertices": "List Nat",
            "self._interior_vertices": "List Nat", "self._is_vertex_on_border": "BoolMap", "self._is_triangular": "Bool", "self._is_quad": "Bool"}
ACC4 = [  # the lazily cached accessors of SurfaceMesh: `if self._x is None: self._compute…(); return self._x`
    ("isVertexOnBorder", "SurfaceMesh.is_vertex_on_border", ["self", "u"], [None, "Nat"], "Bool"),
    ("interiorEdges", "SurfaceMesh.interior_edges", ["self"], [None], "List Nat"),
    ("boundaryEdges", "SurfaceMesh.boundary_edges", ["self"], [None], "List Nat"),
    ("boundaryVertices", "SurfaceMesh.boundary_vertices", ["self"], [None], "List Nat"),
    ("interiorVertices", "SurfaceMesh.interior_vertices", ["self"], [None], "List Nat"),
    ("isTriangular", "SurfaceMesh.is_triangular", ["self"], [None], "Bool"),
    ("isQuad", "SurfaceMesh.is_quad", ["self"], [None], "Bool"),
]
ACC4_GUARDS = ["if self._is_vertex_on_border is None:\n    self._compute_interior_boundary_vertices()",
               "if self._interior_edges is None:\n    self._compute_interior_boundary_edges()",
               "if self._boundary_edges is None:\n    self._compute_interior_boundary_edges()",
               "if self._boundary_vertices is None:\n    self._compute_interior_boundary_vertices()",
               "if self._interior_vertices is None:\n    self._compute_interior_boundary_vertices()",
               "if self._is_triangular is None:\n    self._compute_mesh_type()", "if self._is_quad is None:\n    self._compute_mesh_type()"]
def _v2v_add(c, b, env, nxt, ind, exits):
    pre = []
    v, _ = c.E(b["M_v"], env, pre); x, _ = c.E(b["M_c"], env, pre)
    if pre or env.get("p0._adjV2V") != "V2Cn": raise c.err("unsupported `.add` on a neighbour set")
    return f"{ind}let p0__adjV2V : V2Cn := v2cnAdd p0__adjV2V {v} {x}\n" + nxt(env)


POLY_EXPRS = [
    ("dict([(M_i, set()) for M_i in self.mesh.id_vertices])", "(List.replicate S.nv ([] : List Nat))", "V2Cn"),
    ("self.mesh.id_vertices", "(List.range S.nv)", "List Nat"),
    ("self.mesh.edges", "S.edges", "List (Nat × Nat)"),
    ("list(M_x)", "{x}", "List Nat"),
]


def poly_defs():
    tl, _ = T.load(LIN)
    v = PL.Vocab(["self"], [None], exprs=POLY_EXPRS, stmts=[("self._adjV2V[M_v].add(M_c)", _v2v_add)], drop=["assert M_a != M_b"],
                 subs={"V2Cn": {"get": ("(v2cnGet {x} {k})", "List Nat", False), "set": "v2cnSet {x} {k} {v}"}},
                 ctx="(S : Surf)", ctxargs="S", ret="V2Cn", fall="p0__adjV2V")
    v.effects = [("self._adjV2V[M_v].add(M_c)", ["self._adjV2V"])]
    return PL.compile_function("polyComputeConnectivity", T.find_def(tl, "PolyLine._Connectivity._compute_connectivity"), v,
                               "`PolyLine._Connectivity._compute_connectivity`: the `_adjV2V` table (each set kept in insertion order)")


ACC2_GUARDS = ["if self._adjV2Cn is None:\n    self._compute_connectivity()", "if self._adjV2V is None:\n    self._compute_connectivity()"]
ACC2_FUNCTIONS = [a[1] for a in ACC2] + [a[1] for a in ACC3] + [a[1] for a in ACC4] + ["PolyLine._Connectivity._compute_connectivity"]


def acc2_defs():
    ts, _ = T.load(SURF)
    tl, _ = T.load(LIN)
    out = []
    for lean, py, params, ptypes, ret, raising in ACC2:
        v = PL.Vocab(params, ptypes, exprs=ACC2_EXPRS, subs={"List": {"get": ("({x}.getD {k} 0)", "Nat", False)}}, drop=ACC2_GUARDS, ret=ret, raising=raising,
                     ctx="(S : Surf) (p0__adjV2Cn p0__adjV2V : V2Cn)", ctxargs="S p0__adjV2Cn p0__adjV2V",
                     init_env={"self._adjV2Cn": "V2Cn", "self._adjV2V": "V2Cn"},
                     returns=[("(None, None)", "none")] if lean == "commonEdge" else [])
        out.append(PL.compile_function(lean, T.find_def(ts if py.startswith("Surface") else tl, py), v, f"`{py.split('.', 1)[1]}`"))
    for lean, py, params, ptypes, ret, raising in ACC3:
        v = PL.Vocab(params, ptypes, exprs=ACC3_EXPRS, drop=ACC3_GUARDS, ret=ret, raising=raising,
                     ctx="(S : Surf) (p0__adjF2Cn : FDict)", ctxargs="S p0__adjF2Cn", init_env={"self._adjF2Cn": "FDict"})
        out.append(PL.compile_function(lean, T.find_def(ts, py), v, f"`{py.split('.', 1)[1]}` on the filled `_adjF2Cn`; `none` = KeyError"))
    for lean, py, params, ptypes, ret in ACC4:
        v = PL.Vocab(params, ptypes, exprs=[], subs={"BoolMap": {"get": ("(Mouette.PySrc.boolGet {x} {k})", "Bool", False)}}, drop=ACC4_GUARDS, ret=ret,
                     ctx=ACC4_CTX, ctxargs="", init_env=ACC4_ENV)
        out.append(PL.compile_function("m_" + lean, T.find_def(ts, py), v, f"`{py}` on the filled caches (the lazy guard is the guard table's business)"))
    out.append(poly_defs())
    return "\n".join(out)


CC_FUNCTIONS = ["SurfaceMesh._Connectivity._compute_connectivity"] + sorted({"SurfaceMesh._Connectivity." + a[1] for a in ACCESSORS})


def cc_defs():
    ts, _ = T.load(SURF)
    fn = T.find_def(ts, "SurfaceMesh._Connectivity._compute_connectivity")
    for req in CC_REQUIRED:
        want = ast.unparse(ast.parse(req).body[0])
        if sum(1 for st in fn.body if ast.unparse(st) == want) != 1:
            raise TranslateError(f"_compute_connectivity: the statement `{req.splitlines()[0]} …` is not there (once, at top level)")
    out = []
    stmts = list(CC_STMTS) + [(src, _dict_init((ty, src.split(" = ")[0].split(".")[1]))) for src, ty in CC_INITS]
    v = PL.Vocab(["self"], [None], exprs=CC_EXPRS, subs=CC_SUBS, stmts=stmts, drop=CC_REQUIRED, ctx="(S : Surf)", ctxargs="S",
                 ret="(V2Cn × VFDict × FDict × HEDict × CnDict)",
                 fall="(p0__adjV2Cn, p0__adjVF2Cn, p0__adjF2Cn, p0__half_edges, p0__Cn2he)")
    out.append(PL.compile_function("computeConnectivity", fn, v,
                                   "`SurfaceMesh._Connectivity._compute_connectivity`: (`_adjV2Cn` before sorting, `_adjVF2Cn`, `_adjF2Cn`, "
                                   "`_half_edges`, `_Cn2he`); the call of the base class and the final sort are left to the model"))
    for lean, py, params, ptypes, ret, consts in ACCESSORS:
        v = PL.Vocab(params, ptypes, exprs=ACC_EXPRS, drop=ACC_GUARDS, ret=ret, consts=consts, **ACC_CTX)
        out.append(PL.compile_function(lean, T.find_def(ts, "SurfaceMesh._Connectivity." + py), v,
                                       f"`_Connectivity.{py}`" + (f" specialised to {consts}" if consts else "") + " on the filled caches"))
    return "\n".join(out)


# ----------------------------------------------------------------------------------------------------------------------
# _sort_vertex_neighborhoods
# ----------------------------------------------------------------------------------------------------------------------
def _opt_call(fn):
    def tmpl(c, v, env):
        return f"({v['c']}.bind (Mouette.Surface.{fn} S))" if PL.arg_of(v["T_c"], "Option") else f"(Mouette.Surface.{fn} S {v['c']})"
    return tmpl


def _sort_key(c, b, env, nxt, ind, exits):
    """`<list>.sort(key=lambda x: e)` on an entry of `_adjV2Cn` / `_adjV2V`: a stable sort by the key (Python's sort is stable)"""
    lam, tgt = b["M_f"], b["M_l"]
    if not (isinstance(lam, ast.Lambda) and len(lam.args.args) == 1 and isinstance(tgt, ast.Subscript)): return None
    pre = []
    x, tx = c.E(tgt.value, env, pre); k, tk = c.E(tgt.slice, env, pre)
    key = ast.unparse(tgt.value)
    if pre or tx != "V2Cn" or key not in env: raise c.err("unsupported sort target")
    a = lam.args.args[0].arg
    env_b = dict(env); env_b[a] = "Nat"
    e, te = c.E(lam.body, env_b, pre)
    if pre or te not in ("Int", "Option Int"): raise c.err(f"unsupported sort key of type {te}")
    le = "fun (a b : Int) => decide (a ≤ b)" if te == "Int" else "leOptInt"
    return (f"{ind}let {c.lname(key)} : V2Cn := v2cnSet {x} {k} (sortByKey ({le}) (fun {a} => {e}) (v2cnGet {x} {k}))\n") + nxt(env)


SORT_EXPRS = [
    ("self.mesh.id_vertices", "(List.range S.nv)", "List Nat"),
    ("dict([(M_c, 0) for M_c in M_l])", "({l}.map fun c => ((some c : Option Nat), (0 : Int)))", "IdxDict"),
    ("dict()", "([] : VIdx)", "VIdx"),
    ("len(M_d)", lambda c, v, env: (f"(idxLen {v['d']})" if v["T_d"] == "IdxDict" else f"{v['d']}.length"), "Nat"),
    ("range(M_n)", "(List.range {n})", "List Nat"),
    ("self.opposite_corner(M_c)", _opt_call("oppositeCorner"), "Option Nat"),
    ("self.previous_corner(M_c)", _opt_call("previousCorner"), "Option Nat"),
    ("self.next_corner(M_c)", _opt_call("nextCorner"), "Option Nat"),
    ("self.half_edge_to_corner(M_a, M_b)", "(Mouette.Surface.halfEdgeToCorner S {a} {b})", "Option Nat"),
    ("M_d.get(M_k, -float('inf'))", "(idxFind {d} {k})", "Option Int"),
]
SORT_SUBS = {
    "V2Cn": {"get": ("(v2cnGet {x} {k})", "List Nat", False), "set": "v2cnSet {x} {k} {v}"},
    "IdxDict": {"get": ("(idxGet {x} ({k} : Option Nat))", "Int", False), "set": "(({k} : Option Nat), {v}) :: {x}"},
    "VIdx": {"get": ("(vidxGet {x} {k})", "Option Int", False), "set": "({k}, {v}) :: {x}"},
    "List": {"get": ("({x}.getD {k} 0)", "Nat", False)},
}


def sort_defs():
    ts, _ = T.load(SURF)
    v = PL.Vocab(["self"], [None], exprs=SORT_EXPRS, subs=SORT_SUBS, stmts=[("M_l.sort(key=M_f)", _sort_key)],
                 ctx="(S : Surf) (p0__adjV2Cn p0__adjV2V : V2Cn)", ctxargs="S p0__adjV2Cn p0__adjV2V",
                 init_env={"self._adjV2Cn": "V2Cn", "self._adjV2V": "V2Cn"}, ret="(V2Cn × V2Cn)", fall="(p0__adjV2Cn, p0__adjV2V)")
    return PL.compile_function("sortVertexNeighborhoods", T.find_def(ts, "SurfaceMesh._Connectivity._sort_vertex_neighborhoods"), v,
                               "`_Connectivity._sort_vertex_neighborhoods`: (`_adjV2Cn`, `_adjV2V`) after the loop over the vertices")


ACC2_HEADER = ("import Mouette.Model.SurfSource\nimport Mouette.Model.PySrc\nset_option linter.unusedVariables false\nnamespace Mouette.Generated.C01Acc\n"
               "open Mouette.Surface Mouette.SurfSource Mouette.PySrc\n\n")
_T2 = "(S : Surf) (p0__adjV2Cn p0__adjV2V : V2Cn)"
ACC2_FALLBACK = ("/- the translator refused the current source: stubs (the bridges of Props/C01Source do not hold for them) -/\n"
                 f"def inFaceIndex {_T2} (p1 p2 : Nat) : Option Nat := some 0\n"
                 f"def commonEdge {_T2} (p1 p2 : Nat) : Option (Nat × Nat) := some (0, 0)\n"
                 f"def faceToVertices {_T2} (p1 : Nat) : List Nat := [0]\n"
                 f"def edgeToVertices {_T2} (p1 : Nat) : Option (Nat × Nat) := some (0, 0)\n"
                 f"def vertexToCorners {_T2} (p1 : Nat) : Option (List Nat) := some [0]\n"
                 f"def vertexToVertices {_T2} (p1 : Nat) : Option (List Nat) := some [0]\n"
                 f"def cornerToFace {_T2} (p1 : Nat) : Option Nat := some 0\n"
                 "def polyComputeConnectivity (S : Surf) : V2Cn := [[0, 0]]\n"
                 "def faceToFirstCorner (S : Surf) (p0__adjF2Cn : FDict) (p1 : Nat) : Option Nat := some 0\n"
                 "def faceToCorners (S : Surf) (p0__adjF2Cn : FDict) (p1 : Nat) : Option (List Nat) := some [0]\n"
                 "def faceToFaces (S : Surf) (p0__adjF2Cn : FDict) (p1 : Nat) : Option (List Nat) := some [0]\n" +
                 "".join(f"def m_{lean} {ACC4_CTX}" + "".join(f" (p{i} : {t})" for i, t in enumerate(pt) if t) + f" : {ret} := " +
                         ("[0]" if ret.startswith("List") else "true") + "\n" for lean, py, pa, pt, ret in ACC4))
SORT_HEADER = ("import Mouette.Model.SurfSource\nset_option linter.unusedVariables false\nnamespace Mouette.Generated.C01Sort\n"
               "open Mouette.Surface Mouette.SurfSource\n\n")
SORT_FALLBACK = """/- the translator refused the current source: stubs (the bridges of Props/C01Source do not hold for them) -/
def sortVertexNeighborhoods_for2_step (S : Surf) (p0__adjV2Cn p0__adjV2V : V2Cn) (st : (Bool × IdxDict × Int × Bool × (Option Nat))) (x : Nat) :
    (Bool × IdxDict × Int × Bool × (Option Nat)) := (true, [], 0, false, none)
def sortVertexNeighborhoods_for3_step (S : Surf) (p0__adjV2Cn p0__adjV2V : V2Cn) (st : (Bool × IdxDict × Int × (Option Nat))) (x : Nat) :
    (Bool × IdxDict × Int × (Option Nat)) := (true, [], 0, none)
def sortVertexNeighborhoods (S : Surf) (p0__adjV2Cn p0__adjV2V : V2Cn) : (V2Cn × V2Cn) := ([], [])
"""
CC_HEADER = ("import Mouette.Model.SurfSource\nset_option linter.unusedVariables false\nnamespace Mouette.Generated.C01HE\n"
             "open Mouette.Surface Mouette.SurfSource\n\n")
_ST = "(S : Surf) (p0__half_edges : HEDict) (p0__Cn2he : CnDict) (p0__adjVF2Cn : VFDict)"
CC_FALLBACK = ("/- the translator refused the current source: stubs (the bridges of Props/C01Source do not hold for them) -/\n"
               "def computeConnectivity (S : Surf) : (V2Cn × VFDict × FDict × HEDict × CnDict) := ([], [], [], [], [])\n" +
               "".join(f"def {lean} {_ST}" + "".join(f" (p{i} : {t})" for i, t in enumerate(pt) if t) + f" : {ret} := " +
                       ("[]" if ret.startswith("List") else "(none, none, none)" if ret.startswith("(") else "none") + "\n"
                       for lean, py, pa, pt, ret, cs in ACCESSORS))

FALLBACK = """/- the translator refused the current source: stubs (the bridges of Props/C01Source do not hold for them) -/
def isEdgeOnBorder (S : Surf) (p1 : Nat) (p2 : Nat) : Bool := false
def computeInteriorBoundaryEdges (S : Surf) : (List Nat × List Nat) := ([], [])
def computeMeshType (S : Surf) : (Bool × Bool) := (false, false)
def computeInteriorBoundaryVertices (S : Surf) : (List Nat × BoolMap × List Nat) := ([], [], [])
def computeFaceIds (S : Surf) : FaceDict := []
def faceId (S : Surf) (p0__face_id : FaceDict) (p1 : List Nat) : Option Nat := none
def computeEdgeId (S : Surf) : EdgeDict := []
def edgeId (S : Surf) (p0__edge_id : EdgeDict) (p1 : Nat) (p2 : Nat) : Option Nat := none
def edgeToFaces (S : Surf) (p1 : Nat) (p2 : Nat) : (Option Nat × Option Nat) := (none, none)
def faceToEdges (S : Surf) (p1 : Nat) : List (Option Nat) := []
def otherEdgeEnd (S : Surf) (p1 : Nat) (p2 : Nat) : Option (Option Nat) := none
def vertexToEdges (S : Surf) (p1 : Nat) : List (Option Nat) := []
"""

FUNCTIONS = ["SurfaceMesh.is_edge_on_border", "SurfaceMesh._compute_interior_boundary_edges", "SurfaceMesh._compute_interior_boundary_vertices",
             "SurfaceMesh._compute_mesh_type",
             "SurfaceMesh._Connectivity._compute_face_ids", "SurfaceMesh._Connectivity.face_id",
             "PolyLine._Connectivity._compute_edge_id", "PolyLine._Connectivity.edge_id",
             "SurfaceMesh._Connectivity.edge_to_faces", "SurfaceMesh._Connectivity.face_to_edges",
             "PolyLine._Connectivity.other_edge_end", "PolyLine._Connectivity.vertex_to_edges"]


def defs():
    ts, _ = T.load(SURF)
    tl, _ = T.load(LIN)
    out = []
    ctx = dict(ctx="(S : Surf)", ctxargs="S")
    v = PL.Vocab(["self", "u", "v"], [None, "Nat", "Nat"], exprs=MESH_EXPRS, ret="Bool", **ctx)
    out.append(PL.compile_function("isEdgeOnBorder", T.find_def(ts, "SurfaceMesh.is_edge_on_border"), v, "`SurfaceMesh.is_edge_on_border(u, v)`"))
    v = PL.Vocab(["self"], [None], exprs=MESH_EXPRS, empties=["List Nat", "List Nat"], ret="(List Nat × List Nat)",
                 fall="(p0__interior_edges, p0__boundary_edges)", **ctx)
    out.append(PL.compile_function("computeInteriorBoundaryEdges", T.find_def(ts, "SurfaceMesh._compute_interior_boundary_edges"), v,
                                   "`SurfaceMesh._compute_interior_boundary_edges`: (`_interior_edges`, `_boundary_edges`) after the loop"))
    v = PL.Vocab(["self"], [None], exprs=BV_EXPRS, subs=BV_SUBS, methods=BV_METHODS, empties=["List Nat"],
                 ret="(List Nat × BoolMap × List Nat)", fall="(p0__boundary_vertices, p0__is_vertex_on_border, p0__interior_vertices)", **ctx)
    out.append(PL.compile_function("computeInteriorBoundaryVertices", T.find_def(ts, "SurfaceMesh._compute_interior_boundary_vertices"), v,
                                   "`SurfaceMesh._compute_interior_boundary_vertices`: (`_boundary_vertices`, `_is_vertex_on_border`, `_interior_vertices`)"))
    v = PL.Vocab(["self"], [None], exprs=MESH_EXPRS, ret="(Bool × Bool)", fall="(p0__is_triangular, p0__is_quad)", **ctx)
    out.append(PL.compile_function("computeMeshType", T.find_def(ts, "SurfaceMesh._compute_mesh_type"), v,
                                   "`SurfaceMesh._compute_mesh_type`: (`_is_triangular`, `_is_quad`) after the loop"))
    v = PL.Vocab(["self"], [None], exprs=CONN_EXPRS, subs=SUBS, ret="FaceDict", fall="p0__face_id", **ctx)
    out.append(PL.compile_function("computeFaceIds", T.find_def(ts, "SurfaceMesh._Connectivity._compute_face_ids"), v,
                                   "`_Connectivity._compute_face_ids`: the `_face_id` dict (most recent write first)"))
    v = PL.Vocab(["self", "args"], [None, "List Nat"], exprs=CONN_EXPRS, subs=SUBS, ret="Option Nat", drop=GUARDS,
                 init_env={"self._face_id": "FaceDict"}, ctx="(S : Surf) (p0__face_id : FaceDict)", ctxargs="S p0__face_id")
    out.append(PL.compile_function("faceId", T.find_def(ts, "SurfaceMesh._Connectivity.face_id"), v,
                                   "`_Connectivity.face_id(*args)` on the filled cache"))
    v = PL.Vocab(["self"], [None], exprs=EDGE_EXPRS, subs=SUBS, ret="EdgeDict", fall="p0__edge_id", **ctx)
    out.append(PL.compile_function("computeEdgeId", T.find_def(tl, "PolyLine._Connectivity._compute_edge_id"), v,
                                   "`PolyLine._Connectivity._compute_edge_id`: the `_edge_id` dict (most recent write first)"))
    v = PL.Vocab(["self", "V1", "V2"], [None, "Nat", "Nat"], exprs=EDGE_EXPRS, subs=SUBS, ret="Option Nat", drop=GUARDS,
                 init_env={"self._edge_id": "EdgeDict"}, ctx="(S : Surf) (p0__edge_id : EdgeDict)", ctxargs="S p0__edge_id")
    out.append(PL.compile_function("edgeId", T.find_def(tl, "PolyLine._Connectivity.edge_id"), v,
                                   "`PolyLine._Connectivity.edge_id(V1, V2)` on the filled cache"))
    v = PL.Vocab(["self", "u", "v"], [None, "Nat", "Nat"], exprs=CONN_EXPRS, subs=SUBS, ret="(Option Nat × Option Nat)", **ctx)
    out.append(PL.compile_function("edgeToFaces", T.find_def(ts, "SurfaceMesh._Connectivity.edge_to_faces"), v, "`_Connectivity.edge_to_faces(u, v)`"))
    v = PL.Vocab(["self", "F"], [None, "Nat"], exprs=CONN_EXPRS, subs=SUBS, ret="List (Option Nat)", **ctx)
    out.append(PL.compile_function("faceToEdges", T.find_def(ts, "SurfaceMesh._Connectivity.face_to_edges"), v, "`_Connectivity.face_to_edges(F)`"))
    v = PL.Vocab(["self", "E", "V"], [None, "Nat", "Nat"], exprs=CONN_EXPRS, subs=SUBS, ret="Option Nat", raising=True, **ctx)
    out.append(PL.compile_function("otherEdgeEnd", T.find_def(tl, "PolyLine._Connectivity.other_edge_end"), v,
                                   "`PolyLine._Connectivity.other_edge_end(E, V)`; outer `none` = IndexError"))
    v = PL.Vocab(["self", "V"], [None, "Nat"], exprs=CONN_EXPRS, subs=SUBS, ret="List (Option Nat)", **ctx)
    out.append(PL.compile_function("vertexToEdges", T.find_def(tl, "PolyLine._Connectivity.vertex_to_edges"), v, "`PolyLine._Connectivity.vertex_to_edges(V)`"))
    return "\n".join(out)


def translate_sites():
    st = {}

    def site():
        st["t"] = defs()
        return {"functions": FUNCTIONS, "lean_defs": st["t"].count("\ndef ") + st["t"].startswith("def ")}
    r = T.site("surface.py+linear.py: bodies of is_edge_on_border, _compute_interior_boundary_edges, _compute_mesh_type, _compute_face_ids, "
               "face_id, _compute_edge_id, edge_id, edge_to_faces, face_to_edges, other_edge_end, vertex_to_edges translated statement by statement", site)
    T.write_generated("C01Src", (st["t"] if r["ok"] else FALLBACK) + "\nend Mouette.Generated.C01Src\n", HEADER)

    def site2():
        st["cc"] = cc_defs()
        return {"functions": CC_FUNCTIONS, "lean_defs": st["cc"].count("\ndef ") + st["cc"].startswith("def ")}
    r2 = T.site("surface.py: body of _compute_connectivity (corner tables, half-edge table with its index expressions, opposite pass) and of the "
                "accessors reading these caches (previous/next/opposite_corner, corner_to_half_edge, half_edge_to_corner, vertex_to_corner_in_face, "
                "direct_face and opposite_face with and without return_inds, vertex_to_faces)", site2)
    T.write_generated("C01HE", (st["cc"] if r2["ok"] else CC_FALLBACK) + "\nend Mouette.Generated.C01HE\n", CC_HEADER)

    def site3():
        st["sort"] = sort_defs()
        return {"functions": ["SurfaceMesh._Connectivity._sort_vertex_neighborhoods"], "lean_defs": st["sort"].count("\ndef ") + st["sort"].startswith("def ")}
    r3 = T.site("surface.py: body of _sort_vertex_neighborhoods (the backward walk opposite(previous(c)) with ranks 0,-1,.. and its break on "
                "the border, the forward walk next(opposite(c)) with ranks 0,1,.., the two sorts by rank, the rank of a neighbour = rank of the corner "
                "of its half-edge or -inf)", site3)
    T.write_generated("C01Sort", (st["sort"] if r3["ok"] else SORT_FALLBACK) + "\nend Mouette.Generated.C01Sort\n", SORT_HEADER)

    def site4():
        st["acc2"] = acc2_defs()
        return {"functions": ACC2_FUNCTIONS, "lean_defs": st["acc2"].count("\ndef ") + st["acc2"].startswith("def ")}
    r4 = T.site("surface.py+linear.py: bodies of in_face_index and common_edge (search loops with `return`), face_to_vertices, edge_to_vertices, "
                "vertex_to_corners, vertex_to_vertices (cache reads)", site4)
    T.write_generated("C01Acc", (st["acc2"] if r4["ok"] else ACC2_FALLBACK) + "\nend Mouette.Generated.C01Acc\n", ACC2_HEADER)
    return [r, r2, r3, r4]
