"""Python-ast -> guard table of a class with lazily filled caches (C01; reusable for C03).

For every method of the classes given (method-resolution order resolved by hand: child overrides parent,
`super().m()` = call of the parent's body) the body is flattened, in source/evaluation order, into events

    read c | write c | reset c | test c [k…] | call f

(see lean/Mouette/Model/Lazy.lean), each with a flag `maybe` = "under a condition the table does not interpret" (loop
body, if branch, code after a statement containing a return/raise, right operand of and/or, ternary branch,
comprehension element, lambda body).  Recognised guard shape:

    if self._c is None:            ->  test c [k1, k2]
        self.k1(); self.k2()

Any other use of `self._c is None` / `is not None` on a cache is refused (TranslateError) so that a refactor of the
guards breaks the obligation instead of being silently mis-modelled.  The Lean machine lets every `maybe` event happen
or not, independently: an over-approximation of every real control flow.
"""
import ast

from ..translate import TranslateError


class ClassInfo:
    def __init__(self, tag, node, parent=None):
        self.tag, self.node, self.parent = tag, node, parent
        self.methods, self.props = {}, set()
        for ch in node.body:
            if isinstance(ch, ast.FunctionDef):
                self.methods[ch.name] = ch
                for d in ch.decorator_list:
                    if isinstance(d, ast.Name) and d.id == "property":
                        self.props.add(ch.name)

    def resolve(self, name):
        """(owner ClassInfo, FunctionDef) by MRO"""
        c = self
        while c is not None:
            if name in c.methods:
                return c, c.methods[name]
            c = c.parent
        return None, None


def _is_self_attr(n, name="self"):
    return isinstance(n, ast.Attribute) and isinstance(n.value, ast.Name) and n.value.id == name


def _none_test(test):
    """`self._c is None` -> '_c' ; else None"""
    if (isinstance(test, ast.Compare) and len(test.ops) == 1 and isinstance(test.ops[0], ast.Is)
            and _is_self_attr(test.left) and isinstance(test.comparators[0], ast.Constant)
            and test.comparators[0].value is None):
        return test.left.attr
    return None


class Extractor:
    """`concrete` : ClassInfo whose MRO resolves `self.m`; `links`: {attribute name on self: Extractor of the object it
    holds} (e.g. mesh.connectivity -> connectivity class, connectivity.mesh -> mesh class)."""

    def __init__(self, concrete, short, is_cache=lambda a: a.startswith("_")):
        self.concrete, self.is_cache, self.short = concrete, is_cache, short
        self.links = {}
        self.fns = {}       # qualified name -> list of events (symbolic)
        self.caches = []    # qualified cache names, in order of discovery

    def qual(self, owner, name):
        return f"{owner.tag}.{name}"

    def cache(self, attr):
        q = f"{self.concrete.tag}.{attr}"
        if q not in self.caches: self.caches.append(q)
        return q

    def fn_of(self, name, via_super_of=None):
        start = via_super_of.parent if via_super_of is not None else self.concrete
        if start is None: return None
        owner, node = start.resolve(name)
        if node is None: return None
        q = self.qual(owner, name)
        if q not in self.fns:
            self.fns[q] = None  # recursion guard
            self.fns[q] = self.body_events(owner, node)
        return q

    # -------------------------------------------------------------------------------------------
    # `cond` = the code being visited sits under a condition the table does not interpret (loop body, if branch, code
    # after an early return, right operand of and/or, comprehension element…): its events are emitted with maybe=True.
    def emit(self, ev, cond, *e):
        ev.append(tuple(e) + (bool(cond),))

    def body_events(self, owner, fn):
        ev = []
        self.block(owner, fn.body, ev, False)
        return ev

    @staticmethod
    def _exits(st):
        """does the statement contain a return/raise (outside nested defs) that can skip what follows it?"""
        for n in ast.walk(st):
            if isinstance(n, (ast.Return, ast.Raise)) and n is not st:
                return True
        return False

    def block(self, owner, stmts, ev, cond):
        for st in stmts:
            self.stmt(owner, st, ev, cond)
            if self._exits(st): cond = True
        return cond

    def stmt(self, owner, st, ev, cond):
        if isinstance(st, ast.If):
            c = _none_test(st.test)
            if c is not None and self.is_cache(c) and not st.orelse:
                ks = []
                for b in st.body:
                    ok = (isinstance(b, ast.Expr) and isinstance(b.value, ast.Call) and _is_self_attr(b.value.func)
                          and not b.value.args and not b.value.keywords)
                    k = self.fn_of(b.value.func.attr) if ok else None
                    if k is None:
                        raise TranslateError(f"{owner.tag}: guard on {c} has an unrecognised body: {ast.unparse(b)[:60]}")
                    ks.append(k)
                self.emit(ev, cond, "test", self.cache(c), ks)
                return
            self.expr(owner, st.test, ev, cond)
            self.block(owner, st.body, ev, True)
            self.block(owner, st.orelse, ev, True)
            return
        if isinstance(st, (ast.Assign, ast.AnnAssign, ast.AugAssign)):
            value = st.value
            targets = st.targets if isinstance(st, ast.Assign) else [st.target]
            if value is not None: self.expr(owner, value, ev, cond)
            for t in targets:
                self.target(owner, t, value, ev, cond, aug=isinstance(st, ast.AugAssign))
            return
        if isinstance(st, (ast.For, ast.While)):
            if isinstance(st, ast.For):
                self.expr(owner, st.iter, ev, cond); self.target(owner, st.target, st.iter, ev, True)
            else:
                self.expr(owner, st.test, ev, cond)
            self.block(owner, st.body, ev, True)
            self.block(owner, st.orelse, ev, True)
            return
        if isinstance(st, (ast.FunctionDef, ast.ClassDef)):
            return  # nested definitions are not executed here
        if isinstance(st, ast.Try):
            self.block(owner, st.body, ev, cond)
            for h in st.handlers: self.block(owner, h.body, ev, True)
            self.block(owner, st.orelse, ev, True); self.block(owner, st.finalbody, ev, cond)
            return
        if isinstance(st, ast.With):
            for it in st.items: self.expr(owner, it.context_expr, ev, cond)
            self.block(owner, st.body, ev, cond)
            return
        # generic simple statement (Expr, Return, Assert, Raise, Delete…): its expressions, in field order
        for ch in ast.iter_child_nodes(st):
            if isinstance(ch, ast.stmt): self.stmt(owner, ch, ev, True)
            elif isinstance(ch, ast.expr): self.expr(owner, ch, ev, cond)
            elif isinstance(ch, ast.match_case):
                for g in ast.iter_child_nodes(ch):
                    if isinstance(g, ast.stmt): self.stmt(owner, g, ev, True)
                    elif isinstance(g, ast.expr): self.expr(owner, g, ev, True)

    def target(self, owner, t, value, ev, cond, aug=False):
        if _is_self_attr(t) and self.is_cache(t.attr):
            if aug: self.emit(ev, cond, "read", self.cache(t.attr))
            is_none = isinstance(value, ast.Constant) and value.value is None
            self.emit(ev, cond, "reset" if is_none else "write", self.cache(t.attr))
        elif isinstance(t, (ast.Tuple, ast.List)):
            for e in t.elts: self.target(owner, e, None, ev, cond)
        elif isinstance(t, ast.Starred):
            self.target(owner, t.value, None, ev, cond)
        elif isinstance(t, (ast.Subscript, ast.Attribute)):
            self.expr(owner, t.value, ev, cond)
            if isinstance(t, ast.Subscript): self.expr(owner, t.slice, ev, cond)

    def args(self, owner, e, ev, cond, skip_first=False):
        for a in (e.args[1:] if skip_first else e.args): self.expr(owner, a, ev, cond)
        for k in e.keywords: self.expr(owner, k.value, ev, cond)

    def expr(self, owner, e, ev, cond):
        if e is None: return
        if isinstance(e, ast.Compare) and any(isinstance(o, (ast.Is, ast.IsNot)) for o in e.ops):
            parts = [e.left] + list(e.comparators)
            if any(_is_self_attr(p) and self.is_cache(p.attr) for p in parts):
                raise TranslateError(f"{owner.tag}: unrecognised None-test shape: {ast.unparse(e)[:60]}")
        if isinstance(e, ast.BoolOp):
            self.expr(owner, e.values[0], ev, cond)
            for v in e.values[1:]: self.expr(owner, v, ev, True)
            return
        if isinstance(e, ast.IfExp):
            self.expr(owner, e.test, ev, cond); self.expr(owner, e.body, ev, True); self.expr(owner, e.orelse, ev, True)
            return
        if isinstance(e, ast.Call):
            f = e.func
            # arguments are evaluated before the call
            if isinstance(f, ast.Attribute):
                recv = f.value
                # super().m(...)
                if isinstance(recv, ast.Call) and isinstance(recv.func, ast.Name) and recv.func.id == "super":
                    self.args(owner, e, ev, cond)
                    q = self.fn_of(f.attr, via_super_of=owner)
                    if q is not None: self.emit(ev, cond, "call", q)
                    return
                # self.m(...)
                if isinstance(recv, ast.Name) and recv.id == "self":
                    self.args(owner, e, ev, cond)
                    q = self.fn_of(f.attr)
                    if q is not None:
                        self.emit(ev, cond, "call", q); return
                    if self.is_cache(f.attr):
                        self.emit(ev, cond, "read", self.cache(f.attr))  # calling a cached callable
                    return
                # self.<link>.m(...)
                if _is_self_attr(recv) and recv.attr in self.links:
                    self.args(owner, e, ev, cond)
                    other = self.links[recv.attr]
                    q = other.fn_of(f.attr)
                    if q is not None: self.emit(ev, cond, "call", q)
                    return
                # Parent.__init__(self, …): explicit parent call
                if isinstance(recv, (ast.Name, ast.Attribute)) and e.args and isinstance(e.args[0], ast.Name) and e.args[0].id == "self":
                    self.args(owner, e, ev, cond, skip_first=True)
                    q = self.fn_of(f.attr, via_super_of=owner)
                    if q is not None: self.emit(ev, cond, "call", q)
                    return
            self.expr(owner, f, ev, cond)
            self.args(owner, e, ev, cond)
            return
        if isinstance(e, ast.Attribute):
            if _is_self_attr(e):
                if self.is_cache(e.attr) and e.attr not in self.links:
                    self.emit(ev, cond, "read", self.cache(e.attr)); return
                # property of the concrete class
                owner2, node = self.concrete.resolve(e.attr)
                if node is not None and e.attr in owner2.props:
                    self.emit(ev, cond, "call", self.fn_of(e.attr))
                return
            if _is_self_attr(e.value) and e.value.attr in self.links:
                other = self.links[e.value.attr]
                owner2, node = other.concrete.resolve(e.attr)
                if node is not None and e.attr in owner2.props:
                    self.emit(ev, cond, "call", other.fn_of(e.attr))
                return
            self.expr(owner, e.value, ev, cond)
            return
        if isinstance(e, (ast.ListComp, ast.SetComp, ast.GeneratorExp, ast.DictComp)):
            for gi, g in enumerate(e.generators):
                self.expr(owner, g.iter, ev, cond if gi == 0 else True)
                for c in g.ifs: self.expr(owner, c, ev, True)
            if isinstance(e, ast.DictComp):
                self.expr(owner, e.key, ev, True); self.expr(owner, e.value, ev, True)
            else:
                self.expr(owner, e.elt, ev, True)
            return
        if isinstance(e, ast.Lambda):
            self.expr(owner, e.body, ev, True); return
        for ch in ast.iter_child_nodes(e):
            if isinstance(ch, ast.expr): self.expr(owner, ch, ev, cond)


def build_table(extractors, init_fns, fuel=12, rounds=8):
    """Resolve every public method of every extractor, number caches/functions, return the table as plain data:
    {caches:[names], fns:[names], bodies:[[event…]], init:[ids], queries:[ids]}"""
    for x in extractors:
        c = x.concrete
        seen = set()
        while c is not None:
            for name in c.methods:
                if name not in seen:
                    seen.add(name); x.fn_of(name)
            c = c.parent
    fn_names, cache_names = [], []
    for x in extractors:
        fn_names += [q for q in x.fns]
        cache_names += x.caches
    # caches may be discovered by another extractor under the same qualified name: dedupe, keep order
    fn_names = list(dict.fromkeys(fn_names)); cache_names = list(dict.fromkeys(cache_names))
    fid = {q: i for i, q in enumerate(fn_names)}
    cid = {q: i for i, q in enumerate(cache_names)}
    allf = {}
    for x in extractors: allf.update(x.fns)
    bodies = []
    for q in fn_names:
        evs = []
        for e in allf[q]:
            m = bool(e[-1])
            if e[0] == "test": evs.append(["test", cid[e[1]], [fid[k] for k in e[2]], m])
            elif e[0] == "call": evs.append(["call", fid[e[1]], m])
            else: evs.append([e[0], cid[e[1]], m])
        bodies.append(evs)
    queries, qnames = [], []
    for x in extractors:
        c = x.concrete
        pub = set()
        while c is not None:
            pub |= {n for n in c.methods if not n.startswith("_")}
            c = c.parent
        for n in sorted(pub):
            owner, _ = x.concrete.resolve(n)
            queries.append(fid[x.qual(owner, n)])
            qnames.append((f"{x.short}.{n}", fid[x.qual(owner, n)]))
    return {"qnames": qnames, "caches": cache_names, "fns": fn_names, "bodies": bodies, "init": [fid[q] for q in init_fns],
            "queries": queries, "fuel": fuel, "rounds": rounds}


def lean_event(e):
    m = "true" if e[-1] else "false"
    if e[0] == "test": return f"({m}, .test {e[1]} [{', '.join(str(k) for k in e[2])}])"
    return f"({m}, .{e[0]} {e[1]})"


def lean_table(t, name="table"):
    def strs(l): return "[" + ", ".join('"' + s + '"' for s in l) + "]"
    qn = "[" + ", ".join(f'("{a}", {b})' for a, b in t["qnames"]) + "]"
    out = [f"def queryNames : List (String × Nat) := {qn}", f"def cacheNames : List String := {strs(t['caches'])}", f"def fnNames : List String := {strs(t['fns'])}", ""]
    out.append(f"def {name} : Mouette.Lazy.Table where")
    out.append(f"  ncaches := {len(t['caches'])}")
    out.append("  bodies := [")
    for i, b in enumerate(t["bodies"]):
        sep = "," if i + 1 < len(t["bodies"]) else ""
        out.append(f"    /- {i} {t['fns'][i]} -/ [{', '.join(lean_event(e) for e in b)}]{sep}")
    out.append("  ]")
    out.append(f"  init := {t['init']}")
    out.append(f"  queries := {t['queries']}")
    out.append(f"  fuel := {t['fuel']}")
    out.append(f"  rounds := {t['rounds']}")
    return "\n".join(out) + "\n"
