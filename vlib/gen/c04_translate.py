"""C04 translated fragments (round 4): Python `ast` -> Lean, re-extracted on every run from $MOUETTE_REPO/mouette/mesh/io/*.py and
mesh.py into lean/Mouette/Generated/C04Writers.lean, C04Readers.lean, C04Dispatch.lean (vocabulary: Model/IOSource.lean; bridges:
Lemmas/C04Source.lean, Lemmas/C04SourceRead.lean, Props/C04Source.lean).

WRITERS (`export_off`, `export_tet`, `export_xyz`, `export_medit` + `count_faces` / `count_cells`, `export_obj`,
`Binary_STL_Writer.write` / `_write_triangle` / `_write_header`): the function body is read statement by statement; the file is opened
in 'w' mode and only written to, so its content is the concatenation, in execution order, of what every statement writes:
`stmt1; stmt2` -> `w1 ++ w2`, `for x in xs: body` -> `List.flatMap (fun x => body) xs`, `if c: a else: b` -> `if c then a else b`,
`f.write(s)` -> the token lines of `s` (the STL writer, which also counts, is compiled to a state-passing fold).  String expressions are evaluated symbolically (literals, `+`,
f-strings, `.format`, `str`, `' '.join`, string accumulators filled in a loop), cut into lines at "\\n" and into tokens at white space.

READERS, compiled to `Option` functions over (deque of token lines, RawMeshData under construction); `none` = the Python raises or the
input leaves the modelled domain (a vertex without three coordinates, a negative count, normals / texture data):
  `import_xyz` (line loop), `parse_tet_data` and `parse_off_data` (deque, header token / counts, `for _ in range(n)` loops that pop one
  record; for off the per-record if-chain on the arity, the `*_corners` bookkeeping being outside the token-level mesh),
  `parse_vertex` (evaluated for a token without '/') + `parse_obj_data` (line loop with its branch bodies filling the mesh and the list
  of face records, then the loop over the face records with its `tid` / `nid` guards).
  `parse_field` + `import_medit` (the `while data:` loop compiled to recursion on a fuel argument, every keyword branch: count line,
  vertex lines / `parse_field` block, `End` = break; bridged to the line-by-line automaton `stepMedit` of the hand model).
  deque() / strip() / split() / dropping blank lines are the token-level glue.  `_import_stl_ascii` and the rest of the geogram codec (`Chunk.__init__`,
  `import_geogram_ascii`, `export_attribute`, `export_geogram_ascii`) are NOT compiled (oracle / hand chunk model).
ATTRIBUTES (`geogram_ascii.py: import_attribute`): the loop over the elements, the row of element i (inner append loop or the equivalent
slice), the EXACT comparison `val[0] != attr.default_value` and the scalar / vector stores -> Generated/C04Attr.lean over the sparse
attribute model of Model/IOSourceAttr.lean (theorem: any default, every value reads back).
GEOGRAM WRITER PART (`geogram_ascii.py: export_attribute`, and the markers of `is_chunk_header`): header lines (a value between double
quotes is one token), loops over elements / components, bool through `int()` -> Generated/C04GeoW.lean over the attribute view `AView`
(Model/IOSourceGeo.lean); bridge: = `chunkLines (attrChunk g)` of the chunk model.  `export_geogram_ascii`, `Chunk.__init__`,
`import_geogram_ascii` are NOT compiled.
WRAPPERS (`import_obj`, `import_off`, `import_tet`, `export_stl`, `import_stl`): which parser / writer is called on what -> Generated/C04Wrap.lean.
GLUE (`mesh.py: load`, `save`): statement by statement into Generated/C04Glue.lean (`load`: read, raw switch, instantiate; `save`: order
adjacency-for-geogram / re-wrap / ignore block / write; the guards of the ignore block are the table of Generated/C04Save.lean).

Tolerated respellings (normalised away, the generated text does not change): renamed locals / parameters / file handles, operand order
of `==`, `a > b` = `b < a`, `not a == b`, `x = x + e` = `x += e`, `'{}'.format(e)` = f'{e}' (and = `str(e)` for integers ONLY: str() of a numpy float32 coordinate is
another text), amount of white space inside
written lines, docstrings, comments, `pass`, `warnings.warn(..)` / `print(..)` / logging calls (and `if`s holding nothing else),
type annotations, unused integer locals.
Scope assumptions applied by partial evaluation (recorded in the site detail): the mesh carries no `uv_coords` / `normals` attribute
(obj / xyz texture and normal output is outside the property), `hasattr(mesh, <container>)` is true for a RawMeshData.
Anything else raises TranslateError -> broken obligation -> failing-input search.
"""
import ast
import copy
import re
import string

from .. import translate as T
from ..translate import TranslateError

CONTAINERS = {"vertices": ("pt", "m.verts"), "edges": ("edge", "m.edges"), "faces": ("natlist", "m.faces"), "cells": ("natlist", "m.cells")}
OUT_OF_SCOPE_ATTRS = {"uv_coords", "normals"}
CONFIG = {"export_edges_in_obj": "cfg.exportEdges", "complete_edges_from_faces": "cfg.completeEdges"}
LOG_CALLS = {"warn", "print", "debug", "info", "warning", "log"}
_INT = re.compile(r"^[+-]?[0-9]+$")


def lean_str(x):
    return '"' + x.replace("\\", "\\\\").replace('"', '\\"') + '"'


# ------------------------------------------------------------------------------------------------------------------
# normalisation
# ------------------------------------------------------------------------------------------------------------------
def _callfree(n):
    return not any(isinstance(x, ast.Call) for x in ast.walk(n))


class Norm(ast.NodeTransformer):
    def visit_UnaryOp(self, n):
        self.generic_visit(n)
        if isinstance(n.op, ast.Not) and isinstance(n.operand, ast.Compare) and len(n.operand.ops) == 1:
            c = n.operand
            flip = {ast.Eq: ast.NotEq, ast.NotEq: ast.Eq}
            if type(c.ops[0]) in flip:
                return ast.copy_location(ast.Compare(c.left, [flip[type(c.ops[0])]()], c.comparators), n)
        return n

    def visit_Compare(self, n):
        self.generic_visit(n)
        if len(n.ops) == 1:
            op, a, b = n.ops[0], n.left, n.comparators[0]
            if isinstance(op, (ast.Gt, ast.GtE)):
                return ast.copy_location(ast.Compare(b, [ast.Lt() if isinstance(op, ast.Gt) else ast.LtE()], [a]), n)
            if isinstance(op, (ast.Eq, ast.NotEq)) and isinstance(a, ast.Constant) and not isinstance(b, ast.Constant):
                return ast.copy_location(ast.Compare(b, [op], [a]), n)
        return n

    def visit_Assign(self, n):
        self.generic_visit(n)
        if len(n.targets) == 1 and isinstance(n.value, ast.BinOp) and isinstance(n.value.op, ast.Add):
            t, v = n.targets[0], n.value
            if isinstance(t, (ast.Name, ast.Attribute, ast.Subscript)) and ast.unparse(v.left) == ast.unparse(t):
                return ast.copy_location(ast.AugAssign(t, v.op, v.right), n)
        return n

    def visit_AnnAssign(self, n):
        self.generic_visit(n)
        if n.value is None: return None
        return ast.copy_location(ast.Assign([n.target], n.value), n)


def _is_log(s):
    """`warnings.warn(..)`, `print(..)`, `logger.info(..)`: no effect on the file"""
    if isinstance(s, ast.Expr) and isinstance(s.value, ast.Call):
        f = s.value.func
        name = f.attr if isinstance(f, ast.Attribute) else (f.id if isinstance(f, ast.Name) else None)
        return name in LOG_CALLS
    return False


def _strip(stmts):
    out = []
    for s in stmts:
        if isinstance(s, ast.Pass) or (isinstance(s, ast.Expr) and isinstance(s.value, ast.Constant)) or _is_log(s): continue
        if isinstance(s, ast.If):
            s = copy.copy(s)
            s.body, s.orelse = _strip(s.body), _strip(s.orelse)
            if not s.body and not s.orelse: continue
        elif isinstance(s, (ast.For, ast.While, ast.With)):
            s = copy.copy(s)
            s.body = _strip(s.body)
        out.append(s)
    return out


def norm_body(fn):
    fn = Norm().visit(copy.deepcopy(fn))
    ast.fix_missing_locations(fn)
    return _strip(fn.body)


def names_read(stmts):
    out = set()
    for s in stmts:
        for n in ast.walk(s):
            if isinstance(n, ast.Name) and isinstance(n.ctx, ast.Load): out.add(n.id)
    return out


# ------------------------------------------------------------------------------------------------------------------
# symbolic strings -> token lines
# ------------------------------------------------------------------------------------------------------------------
# pieces: ("lit", text) | ("tok", lean Tok expr) | ("toks", lean List Tok expr, lead_space, trail_space)
def _word(w):
    if _INT.match(w): return f"Tok.int {int(w)}" if int(w) >= 0 else f"Tok.int ({int(w)})"
    try:
        float(w)
    except ValueError:
        return f"Tok.kw {lean_str(w)}"
    raise TranslateError(f"literal number text `{w}` inside a written line is not recognised")


def tokenize(pieces, what, allow_newline=True):
    """-> (lines, rest, lead_space, trail_space): `lines` = complete lines (each a list of Lean `List Tok` segments), `rest` = segments
    after the last newline."""
    lines, cur, word = [], [], ""
    sep_ok, after_dyn = True, False
    lead = None
    for p in pieces:
        if p[0] == "lit":
            for ch in p[1]:
                if lead is None: lead = ch.isspace()
                if ch == "\n":
                    if not allow_newline: raise TranslateError(f"{what}: newline inside a repeated fragment")
                    if word: cur.append(f"[{_word(word)}]"); word = ""
                    lines.append(cur); cur = []; sep_ok, after_dyn = True, False
                elif ch.isspace():
                    if word: cur.append(f"[{_word(word)}]"); word = ""
                    sep_ok, after_dyn = True, False
                else:
                    if after_dyn and not sep_ok:
                        raise TranslateError(f"{what}: text `{ch}` glued to a formatted value (not a white-space separated token)")
                    word += ch; sep_ok = False
        elif p[0] == "tok":
            if lead is None: lead = False
            if word or not sep_ok: raise TranslateError(f"{what}: a formatted value is glued to other text (not a white-space separated token)")
            cur.append(f"[{p[1]}]"); sep_ok, after_dyn = False, True
        else:
            if lead is None: lead = p[2]
            if word or not (sep_ok or p[2]): raise TranslateError(f"{what}: a joined list is glued to other text")
            cur.append(p[1]); sep_ok, after_dyn = p[3], True
    if word: cur.append(f"[{_word(word)}]")
    trail = sep_ok and not word
    return lines, cur, bool(lead), trail


def segs_to_lean(segs):
    if not segs: return "([] : Line)"
    return "(" + " ++ ".join(segs) + " : Line)"


# ------------------------------------------------------------------------------------------------------------------
# the writer compiler
# ------------------------------------------------------------------------------------------------------------------
class Writer:
    def __init__(self, fn, name, mesh_param_index=0, counters=None):
        self.fn, self.name = fn, name
        a = fn.args
        if a.vararg or a.kwarg or a.kwonlyargs: raise TranslateError(f"{name}: unsupported signature")
        ps = [x.arg for x in a.args]
        if len(ps) <= mesh_param_index: raise TranslateError(f"{name}: mesh parameter missing")
        self.mesh = ps[mesh_param_index]
        self.params = ps
        self.fvar = None
        self.n = 0
        self.assumed = set()
        self.counters = counters or {}      # python function name -> lean name of a translated counting function
        self.uses_cfg = False

    def fresh(self):
        self.n += 1
        return f"x{self.n}"

    # -- expressions ---------------------------------------------------------------------------------------------
    def is_mesh(self, n):
        return isinstance(n, ast.Name) and n.id == self.mesh

    def container(self, n, env):
        """iterable -> (element type, lean list)"""
        if isinstance(n, ast.Attribute) and self.is_mesh(n.value) and n.attr in CONTAINERS:
            return CONTAINERS[n.attr]
        if self.is_hard_attr(n): return ("nat", "(hardKeys m)")
        if isinstance(n, ast.Name) and n.id in env:
            t, v = env[n.id]
            if t == "natlist": return ("nat", v)
            if t == "pt": return ("coord", f"(coords {v})")
        raise TranslateError(f"{self.name}: iterable not recognised: {ast.unparse(n)[:60]}")

    def is_hard_attr(self, n):
        return (isinstance(n, ast.Call) and isinstance(n.func, ast.Attribute) and n.func.attr == "get_attribute" and len(n.args) == 1
                and isinstance(n.args[0], ast.Constant) and n.args[0].value == "hard_edges"
                and isinstance(n.func.value, ast.Attribute) and self.is_mesh(n.func.value.value) and n.func.value.attr == "edges")

    def scalar(self, n, env):
        """-> (type, lean) with type nat | coord"""
        if isinstance(n, ast.Name):
            if n.id in env and env[n.id][0] in ("nat", "coord"): return env[n.id]
            raise TranslateError(f"{self.name}: `{n.id}` is not a number known to the translator")
        if isinstance(n, ast.Constant) and isinstance(n.value, int) and not isinstance(n.value, bool) and n.value >= 0:
            return ("nat", str(n.value))
        if isinstance(n, ast.BinOp) and isinstance(n.op, ast.Add):
            a, b = self.scalar(n.left, env), self.scalar(n.right, env)
            if a[0] == "nat" and b[0] == "nat":
                if isinstance(n.left, ast.Constant): a, b = b, a       # 1 + a = a + 1
                return ("nat", f"({a[1]} + {b[1]})")
        if isinstance(n, ast.Call) and isinstance(n.func, ast.Name) and n.func.id == "len" and len(n.args) == 1:
            _, l = self.container(n.args[0], env)
            return ("nat", f"{l}.length")
        if isinstance(n, ast.Subscript) and isinstance(n.value, ast.Name) and n.value.id in env and env[n.value.id][0] == "pt" \
                and isinstance(n.slice, ast.Constant) and n.slice.value in (0, 1, 2):
            return ("coord", env[n.value.id][1] + [".1", ".2.1", ".2.2"][n.slice.value])
        raise TranslateError(f"{self.name}: value not recognised: {ast.unparse(n)[:60]}")

    def tok(self, n, env):
        t, v = self.scalar(n, env)
        return f"fmtC cd {v}" if t == "coord" else f"fmtI {v}"

    def cond(self, n, env):
        """-> True | False | lean Bool expr"""
        if isinstance(n, ast.Constant) and isinstance(n.value, bool): return n.value
        if isinstance(n, ast.Name) and n.id in env and env[n.id][0] == "bool": return env[n.id][1]
        if isinstance(n, ast.BoolOp):
            isand = isinstance(n.op, ast.And)
            parts = []
            for v in n.values:
                c = self.cond(v, env)
                if c is (not isand): return c          # short circuit: the remaining operands are never evaluated
                if c is isand: continue
                parts.append(c)
            if not parts: return isand
            return parts[0] if len(parts) == 1 else "(" + (" && " if isand else " || ").join(parts) + ")"
        if isinstance(n, ast.UnaryOp) and isinstance(n.op, ast.Not):
            c = self.cond(n.operand, env)
            return (not c) if isinstance(c, bool) else f"(!{c})"
        if isinstance(n, ast.Call) and isinstance(n.func, ast.Name) and n.func.id == "hasattr" and len(n.args) == 2 \
                and self.is_mesh(n.args[0]) and isinstance(n.args[1], ast.Constant) and n.args[1].value in CONTAINERS:
            self.assumed.add(f"hasattr({self.mesh}, '{n.args[1].value}') is true")
            return True
        if isinstance(n, ast.Call) and isinstance(n.func, ast.Attribute) and not n.args and n.func.attr == "empty":
            _, l = self.container(n.func.value, env)
            return f"{l}.isEmpty"
        if isinstance(n, ast.Call) and isinstance(n.func, ast.Attribute) and n.func.attr == "has_attribute" and len(n.args) == 1 \
                and isinstance(n.args[0], ast.Constant) and isinstance(n.func.value, ast.Attribute) and self.is_mesh(n.func.value.value):
            an, cn = n.args[0].value, n.func.value.attr
            if an == "hard_edges" and cn == "edges": return "m.hard.isSome"
            if an in OUT_OF_SCOPE_ATTRS:
                self.assumed.add(f"no `{an}` attribute on {cn}")
                return False
            raise TranslateError(f"{self.name}: has_attribute({an!r}) on {cn} not recognised")
        if isinstance(n, ast.Attribute) and isinstance(n.value, ast.Name) and n.value.id == "config" and n.attr in CONFIG:
            self.uses_cfg = True
            return CONFIG[n.attr]
        if isinstance(n, ast.Compare) and len(n.ops) == 1:
            a, b = self.scalar(n.left, env), self.scalar(n.comparators[0], env)
            if a[0] != "nat" or b[0] != "nat": raise TranslateError(f"{self.name}: comparison of non-integers: {ast.unparse(n)}")
            op = n.ops[0]
            if isinstance(op, ast.Eq): return f"({a[1]} == {b[1]})"
            if isinstance(op, ast.NotEq): return f"({a[1]} != {b[1]})"
            if isinstance(op, ast.Lt): return f"decide ({a[1]} < {b[1]})"
            if isinstance(op, ast.LtE): return f"decide ({a[1]} ≤ {b[1]})"
        raise TranslateError(f"{self.name}: condition not recognised: {ast.unparse(n)[:80]}")

    # -- strings -------------------------------------------------------------------------------------------------
    def comp_pieces(self, comp, env, sep, what, scalar_elt=False):
        """[<elt> for v in xs] joined with `sep` -> one ("toks", …) piece"""
        if len(comp.generators) != 1 or comp.generators[0].ifs or comp.generators[0].is_async:
            raise TranslateError(f"{self.name}: comprehension shape not recognised: {ast.unparse(comp)[:60]}")
        g = comp.generators[0]
        et, l = self.container(g.iter, env)
        if not isinstance(g.target, ast.Name) or et not in ("nat", "coord"):
            raise TranslateError(f"{self.name}: comprehension target not recognised: {ast.unparse(comp)[:60]}")
        v = self.fresh()
        env2 = dict(env); env2[g.target.id] = (et, v)
        inner = [("tok", self.tok(comp.elt, env2))] if scalar_elt else self.pieces(comp.elt, env2)
        return self.rep_piece(l, v, et, inner, sep, what)

    def rep_piece(self, l, v, et, inner, sep, what):
        lines, segs, lead, trail = tokenize(inner, what, allow_newline=False)
        sep_space = sep != "" and sep.strip() == ""
        if sep != "" and not sep_space: raise TranslateError(f"{what}: join separator {sep!r} is not white space")
        if not (sep_space or lead or trail): raise TranslateError(f"{what}: repeated fragments are not separated by white space")
        ty = "C" if et == "coord" else "Nat"
        if len(segs) == 1 and segs[0].startswith("[") and segs[0].endswith("]") and segs[0].count("[") == 1:
            e = f"(List.map (fun ({v} : {ty}) => {segs[0][1:-1]}) {l})"
        else:
            e = f"(List.flatMap (fun ({v} : {ty}) => {segs_to_lean(segs)}) {l})"
        return ("toks", e, lead, trail)

    def pieces(self, n, env):
        what = f"{self.name}: `{ast.unparse(n)[:50]}`"
        if isinstance(n, ast.Constant) and isinstance(n.value, str): return [("lit", n.value)]
        if isinstance(n, ast.Name) and n.id in env and env[n.id][0] == "str": return list(env[n.id][1])
        if isinstance(n, ast.BinOp) and isinstance(n.op, ast.Add): return self.pieces(n.left, env) + self.pieces(n.right, env)
        if isinstance(n, ast.JoinedStr):
            out = []
            for v in n.values:
                if isinstance(v, ast.Constant): out.append(("lit", v.value))
                elif isinstance(v, ast.FormattedValue):
                    if v.conversion != -1 or v.format_spec is not None:
                        raise TranslateError(f"{what}: format spec / conversion in an f-string (only the default `{{}}` formatting is the shortest-repr round trip)")
                    out.append(("tok", self.tok(v.value, env)))
                else: raise TranslateError(f"{what}: f-string part not recognised")
            return out
        if isinstance(n, ast.Call) and isinstance(n.func, ast.Name) and n.func.id == "str" and len(n.args) == 1 and not n.keywords:
            t, v = self.scalar(n.args[0], env)
            if t == "coord":
                # str(np.float32(x)) is the binary32 shortest repr, '{}'.format(np.float32(x)) the binary64 one: not the same text
                raise TranslateError(f"{what}: str() of a coordinate is not '{{}}'.format() of it (numpy float32 coordinates print differently)")
            return [("tok", f"fmtI {v}")]
        if isinstance(n, ast.Call) and isinstance(n.func, ast.Attribute) and n.func.attr == "join" and len(n.args) == 1 \
                and isinstance(n.func.value, ast.Constant) and isinstance(n.func.value.value, str) \
                and isinstance(n.args[0], (ast.ListComp, ast.GeneratorExp)):
            return [self.comp_pieces(n.args[0], env, n.func.value.value, what)]
        if isinstance(n, ast.Call) and isinstance(n.func, ast.Attribute) and n.func.attr == "format" and not n.keywords \
                and isinstance(n.func.value, ast.Constant) and isinstance(n.func.value.value, str):
            fields = list(string.Formatter().parse(n.func.value.value))
            nph = sum(1 for f in fields if f[1] is not None)
            for lit, name, spec, conv in fields:
                if name is not None and (name != "" or spec or conv):
                    raise TranslateError(f"{what}: placeholder `{{{name}{'!' + conv if conv else ''}{':' + spec if spec else ''}}}` is not the plain `{{}}` "
                                         "(only the default formatting is the shortest-repr round trip)")
            star = [a for a in n.args if isinstance(a, ast.Starred)]
            if star:
                if len(n.args) != 1 or not isinstance(star[0].value, (ast.GeneratorExp, ast.ListComp)):
                    raise TranslateError(f"{what}: starred argument shape not recognised")
                mids = [f[0] for f in fields[1:nph]]
                if any(x.strip() != "" or x == "" for x in mids):
                    raise TranslateError(f"{what}: placeholders filled from a starred argument are not separated by white space")
                p = self.comp_pieces(star[0].value, env, " ", what, scalar_elt=True)
                out = [("lit", fields[0][0]), ("toks", f"(starArgs {nph} {p[1]})", False, False)]
                for f in fields[nph:]: out.append(("lit", f[0]))
                return out
            if len(n.args) != nph: raise TranslateError(f"{what}: {nph} placeholders for {len(n.args)} arguments")
            out, k = [], 0
            for lit, name, spec, conv in fields:
                if lit: out.append(("lit", lit))
                if name is not None:
                    out.append(("tok", self.tok(n.args[k], env))); k += 1
            return out
        raise TranslateError(f"{what}: string expression not recognised")

    def write_lines(self, n, env):
        p = self.pieces(n, env)
        lines, rest, _, _ = tokenize(p, f"{self.name}: write(`{ast.unparse(n)[:50]}`)")
        if rest: raise TranslateError(f"{self.name}: write(`{ast.unparse(n)[:50]}`) does not end a line (partial lines are not modelled)")
        return [segs_to_lean(s) for s in lines if s]

    # -- statements ----------------------------------------------------------------------------------------------
    def is_write(self, s):
        return (isinstance(s, ast.Expr) and isinstance(s.value, ast.Call) and isinstance(s.value.func, ast.Attribute)
                and s.value.func.attr == "write" and isinstance(s.value.func.value, ast.Name) and s.value.func.value.id == self.fvar
                and len(s.value.args) == 1)

    def has_write(self, stmts):
        return any(self.is_write(x) for s in stmts for x in ast.walk(s) if isinstance(x, ast.Expr))

    def block(self, stmts, env, ind):
        """-> Lean expression (type File) for `stmts` run on the current `out`"""
        pad = "  " * ind
        if not stmts: return "([] : File)"
        s, rest = stmts[0], stmts[1:]
        live = names_read(rest)
        if self.is_write(s):
            ls = self.write_lines(s.value.args[0], env)
            if not ls: return self.block(rest, env, ind)
            return f"[{', '.join(ls)}] ++\n{pad}" + self.block(rest, env, ind)
        if isinstance(s, ast.With):
            if len(s.items) != 1 or self.fvar is not None: raise TranslateError(f"{self.name}: `with` shape not recognised")
            it = s.items[0]
            c = it.context_expr
            if not (isinstance(c, ast.Call) and isinstance(c.func, ast.Name) and c.func.id == "open" and isinstance(it.optional_vars, ast.Name)
                    and len(c.args) >= 2 and isinstance(c.args[1], ast.Constant) and c.args[1].value in ("w", "wt")):
                raise TranslateError(f"{self.name}: expected `with open(path, 'w') as f`, found `{ast.unparse(it)[:60]}`")
            self.fvar = it.optional_vars.id
            if rest: raise TranslateError(f"{self.name}: statements after the `with` block")
            return self.block(s.body, env, ind)
        if isinstance(s, ast.Assign) and len(s.targets) == 1:
            t, v = s.targets[0], s.value
            if isinstance(t, ast.Name):
                env2 = dict(env)
                val, err = None, None
                try:
                    val = ("str", self.pieces(v, env))
                except TranslateError as e:
                    err = e
                if val is None:
                    try:
                        c = self.cond(v, env)
                        if isinstance(c, bool): val = ("bool", c)
                    except TranslateError:
                        pass
                if val is None:
                    try:
                        val = self.scalar(v, env)
                    except TranslateError:
                        pass
                if val is not None:
                    env2[t.id] = val
                    return self.block(rest, env2, ind)
                if t.id not in live and _callfree(v):
                    return self.block(rest, env, ind)      # dead local
                raise TranslateError(f"{self.name}: assignment not recognised: `{ast.unparse(s)[:70]}` ({err})")
            if isinstance(t, ast.Tuple) and all(isinstance(e, ast.Name) for e in t.elts):
                names = [e.id for e in t.elts]
                # a, b = mesh.edges[e]
                if (len(names) == 2 and isinstance(v, ast.Subscript) and isinstance(v.value, ast.Attribute) and self.is_mesh(v.value.value)
                        and v.value.attr == "edges"):
                    k = self.scalar(v.slice, env)
                    if k[0] != "nat": raise TranslateError(f"{self.name}: edge index is not an integer")
                    a, b = self.fresh(), self.fresh()
                    env2 = dict(env); env2[names[0]] = ("nat", a); env2[names[1]] = ("nat", b)
                    return (f"withEdge m.edges[{k[1]}]? [] (fun ({a} {b} : Nat) =>\n{pad}  " + self.block(rest, env2, ind + 1) + ")")
                # n1, n2, n3 = count_xxx(mesh)
                if (isinstance(v, ast.Call) and isinstance(v.func, ast.Name) and v.func.id in self.counters and len(v.args) == 1
                        and self.is_mesh(v.args[0]) and len(names) == 3):
                    ln = self.counters[v.func.id]
                    env2 = dict(env)
                    for nm, proj in zip(names, (".1", ".2.1", ".2.2")): env2[nm] = ("nat", f"({ln} m){proj}")
                    return self.block(rest, env2, ind)
            raise TranslateError(f"{self.name}: assignment not recognised: `{ast.unparse(s)[:70]}`")
        if isinstance(s, ast.AugAssign) and isinstance(s.target, ast.Name) and isinstance(s.op, ast.Add):
            nm = s.target.id
            if nm in env and env[nm][0] == "str":
                env2 = dict(env); env2[nm] = ("str", env[nm][1] + self.pieces(s.value, env))
                return self.block(rest, env2, ind)
            if nm not in live and nm not in names_read([s.value]) and _callfree(s.value):
                return self.block(rest, env, ind)          # dead integer local
            raise TranslateError(f"{self.name}: `{ast.unparse(s)[:60]}` not recognised")
        if isinstance(s, ast.If):
            c = self.cond(s.test, env)
            if c is True: return self.block(s.body + rest, env, ind)
            if c is False: return self.block(s.orelse + rest, env, ind)
            self.check_no_env_effect(s.body + s.orelse, live)
            a = self.block(s.body, env, ind + 2)
            b = self.block(s.orelse, env, ind + 2)
            return (f"(if {c} then\n{pad}    ({a})\n{pad}  else\n{pad}    ({b})) ++\n{pad}" + self.block(rest, env, ind))
        if isinstance(s, ast.For) and not s.orelse:
            if not self.has_write(s.body):
                return self.string_loop(s, rest, env, ind, live)
            self.check_no_env_effect(s.body, live)
            et, l = self.container(s.iter, env)
            env2 = dict(env)
            if et == "edge":
                if not (isinstance(s.target, ast.Tuple) and len(s.target.elts) == 2 and all(isinstance(e, ast.Name) for e in s.target.elts)):
                    raise TranslateError(f"{self.name}: `for {ast.unparse(s.target)} in …edges` is not a pair pattern")
                a = self.fresh()
                env2[s.target.elts[0].id] = ("nat", a + ".1"); env2[s.target.elts[1].id] = ("nat", a + ".2")
                binder = f"({a} : Nat × Nat) =>"
            else:
                if not isinstance(s.target, ast.Name): raise TranslateError(f"{self.name}: loop target not recognised")
                v = self.fresh()
                env2[s.target.id] = (et, v)
                ty = {"pt": "C × C × C", "natlist": "List Nat", "nat": "Nat", "coord": "C"}[et]
                binder = f"({v} : {ty}) =>"
            body = self.block(s.body, env2, ind + 2)
            return (f"List.flatMap (fun {binder}\n{pad}    {body}) {l} ++\n{pad}" + self.block(rest, env, ind))
        raise TranslateError(f"{self.name}: statement not recognised: `{ast.unparse(s)[:70]}`")

    def check_no_env_effect(self, stmts, live):
        """a nested block may not (re)bind a local that is read after it (the compiler threads only `out`)"""
        for s in stmts:
            for n in ast.walk(s):
                tg = n.targets if isinstance(n, ast.Assign) else [n.target] if isinstance(n, ast.AugAssign) else []
                for t in tg:
                    for x in ast.walk(t):
                        if isinstance(x, ast.Name) and isinstance(x.ctx, ast.Store) and x.id in live:
                            raise TranslateError(f"{self.name}: local `{x.id}` assigned inside a nested block and read after it")

    def string_loop(self, s, rest, env, ind, live):
        """`for v in xs:` whose body only builds strings: every string accumulator `acc += <pieces(v)>` becomes a repeated piece"""
        et, l = self.container(s.iter, env)
        if et not in ("nat", "coord") or not isinstance(s.target, ast.Name):
            raise TranslateError(f"{self.name}: string-building loop over `{ast.unparse(s.iter)[:40]}` not recognised")
        v = self.fresh()
        env2 = dict(env); env2[s.target.id] = (et, v)
        added = {}

        def prune(stmts):
            out = []
            for b in stmts:
                if isinstance(b, ast.If):
                    c = self.cond(b.test, env2)
                    if c is True: out += prune(b.body); continue
                    if c is False: out += prune(b.orelse); continue
                out.append(b)
            return out
        s = copy.copy(s)
        s.body = prune(s.body)
        for b in s.body:
            if isinstance(b, ast.Assign) and len(b.targets) == 1 and isinstance(b.targets[0], ast.Name):
                nm = b.targets[0].id
                try:
                    env2[nm] = ("str", self.pieces(b.value, env2)); continue
                except TranslateError as e:
                    if nm in live or nm in names_read(s.body) or not _callfree(b.value): raise e
                    continue
            if isinstance(b, ast.AugAssign) and isinstance(b.target, ast.Name) and isinstance(b.op, ast.Add):
                nm = b.target.id
                if nm in env and env[nm][0] == "str":
                    added.setdefault(nm, [])
                    added[nm] += self.pieces(b.value, env2); continue
                if nm not in live and nm not in (names_read(s.body) - {nm}) and _callfree(b.value): continue      # dead counter
                reads = names_read([x for x in s.body if x is not b])
                if nm not in live and nm not in reads: continue
            raise TranslateError(f"{self.name}: statement in a string-building loop not recognised: `{ast.unparse(b)[:60]}`")
        env3 = dict(env)
        for nm, inner in added.items():
            env3[nm] = ("str", env[nm][1] + [self.rep_piece(l, v, et, inner, "", f"{self.name}: accumulator `{nm}`")])
        return self.block(rest, env3, ind)

    def compile(self):
        body = norm_body(self.fn)
        txt = self.block(body, {}, 1)
        return txt


def compile_counter(fn, name, mesh_cont):
    """count_faces / count_cells: `cnt = [0,0,0]; for x in mesh.<cont>: [N = len(x)]; if/elif/else: cnt[k] += 1; return cnt`
    -> fold over a triple"""
    body = norm_body(fn)
    if len(fn.args.args) != 1: raise TranslateError(f"{name}: expected one parameter")
    mesh = fn.args.args[0].arg
    if len(body) != 3: raise TranslateError(f"{name}: expected `cnt = [0,0,0]`, one loop, `return cnt` (found {len(body)} statements)")
    a, loop, ret = body
    if not (isinstance(a, ast.Assign) and isinstance(a.targets[0], ast.Name) and isinstance(a.value, ast.List) and len(a.value.elts) == 3
            and all(isinstance(e, ast.Constant) and e.value == 0 for e in a.value.elts)):
        raise TranslateError(f"{name}: first statement is not `cnt = [0, 0, 0]`")
    cnt = a.targets[0].id
    if not (isinstance(ret, ast.Return) and isinstance(ret.value, ast.Name) and ret.value.id == cnt):
        raise TranslateError(f"{name}: last statement is not `return {cnt}`")
    if not (isinstance(loop, ast.For) and isinstance(loop.target, ast.Name) and ast.unparse(loop.iter) == f"{mesh}.{mesh_cont}" and not loop.orelse):
        raise TranslateError(f"{name}: loop is not `for x in {mesh}.{mesh_cont}`")
    x = loop.target.id
    lens = {f"len({x})"}
    stmts = list(loop.body)
    while stmts and isinstance(stmts[0], ast.Assign) and isinstance(stmts[0].targets[0], ast.Name) and ast.unparse(stmts[0].value) in lens:
        lens.add(stmts[0].targets[0].id); stmts = stmts[1:]
    if len(stmts) != 1 or not isinstance(stmts[0], ast.If): raise TranslateError(f"{name}: loop body is not one if/elif/else chain")

    def bump(bs):
        if len(bs) == 1 and isinstance(bs[0], ast.AugAssign) and isinstance(bs[0].op, ast.Add) and ast.unparse(bs[0].value) == "1" \
                and isinstance(bs[0].target, ast.Subscript) and ast.unparse(bs[0].target.value) == cnt \
                and isinstance(bs[0].target.slice, ast.Constant) and bs[0].target.slice.value in (0, 1, 2):
            k = bs[0].target.slice.value
            comps = ["cnt.1", "cnt.2.1", "cnt.2.2"]
            comps[k] += " + 1"
            return "(" + ", ".join(comps) + ")"
        raise TranslateError(f"{name}: branch is not `{cnt}[k] += 1`: `{ast.unparse(bs)[:50]}`")

    def chain(node):
        t = node.test
        if not (isinstance(t, ast.Compare) and len(t.ops) == 1 and isinstance(t.ops[0], ast.Eq) and ast.unparse(t.left) in lens
                and isinstance(t.comparators[0], ast.Constant) and isinstance(t.comparators[0].value, int)):
            raise TranslateError(f"{name}: branch test is not `len({x}) == k`: `{ast.unparse(t)[:50]}`")
        th = bump(node.body)
        if len(node.orelse) == 1 and isinstance(node.orelse[0], ast.If): el = chain(node.orelse[0])
        elif node.orelse: el = bump(node.orelse)
        else: el = "cnt"
        return f"if (x1.length == {t.comparators[0].value}) then {th} else {el}"
    lean_cont = CONTAINERS[mesh_cont][1]
    return (f"List.foldl (fun (cnt : Nat × Nat × Nat) (x1 : List Nat) =>\n      {chain(stmts[0])}) (0, 0, 0) {lean_cont}")


# ------------------------------------------------------------------------------------------------------------------
# STL: Binary_STL_Writer
# ------------------------------------------------------------------------------------------------------------------
def compile_stl(tree):
    """-> dict of Lean definition bodies for `_write_triangle`, `write`, header, plus the struct format facts"""
    cls = T.find_def(tree, "Binary_STL_Writer")
    consts = {}
    for s in cls.body:
        if isinstance(s, ast.Assign) and isinstance(s.targets[0], ast.Name) and isinstance(s.value, ast.Constant):
            consts[s.targets[0].id] = s.value.value

    def struct_fmt(arg):
        u = ast.unparse(arg)
        for k, v in consts.items():
            if u in (f"Binary_STL_Writer.{k}", f"self.{k}", k): return v
        if isinstance(arg, ast.Constant) and isinstance(arg.value, str): return arg.value
        raise TranslateError(f"stl: struct format `{u}` not recognised")

    def expand(fmt):
        out = []
        for cnt, ch in re.findall(r"(\d*)([a-zA-Z])", fmt.lstrip("<>=!@")):
            if ch == "s": out.append(("s", int(cnt or 1)))
            else: out += [(ch, 1)] * int(cnt or 1)
        return out
    # __init__: counter starts at 0
    init = norm_body(T.find_def(tree, "Binary_STL_Writer.__init__"))
    c0 = [s for s in init if isinstance(s, ast.Assign) and ast.unparse(s.targets[0]) == "self.counter"]
    if len(c0) != 1 or ast.unparse(c0[0].value) != "0": raise TranslateError("stl: `self.counter = 0` not found in __init__")
    # _write_header: pack(HEADER, <bytes>, self.counter)
    hd = norm_body(T.find_def(tree, "Binary_STL_Writer._write_header"))
    packs = [n for s in hd for n in ast.walk(s) if isinstance(n, ast.Call) and ast.unparse(n.func) == "struct.pack"]
    if len(packs) != 1 or len(packs[0].args) != 3 or ast.unparse(packs[0].args[2]) != "self.counter":
        raise TranslateError("stl: _write_header is not `struct.pack(HEADER, <80 bytes>, self.counter)`")
    hf = expand(struct_fmt(packs[0].args[0]))
    if hf != [("s", 80), ("I", 1)]: raise TranslateError(f"stl: header format is {hf}, expected 80s + I")
    if not any(ast.unparse(s) == "self.fp.seek(0)" for s in hd): raise TranslateError("stl: _write_header does not seek(0)")
    # _write_triangle
    wt = T.find_def(tree, "Binary_STL_Writer._write_triangle")
    ps = [a.arg for a in wt.args.args]
    if len(ps) != 4: raise TranslateError("stl: _write_triangle does not take three points")
    body = norm_body(wt)
    if len(body) != 3: raise TranslateError("stl: _write_triangle: expected counter += 1, data = […], write(pack(…))")
    inc, data, wr = body
    if not (isinstance(inc, ast.AugAssign) and ast.unparse(inc.target) == "self.counter" and isinstance(inc.op, ast.Add) and ast.unparse(inc.value) == "1"):
        raise TranslateError("stl: _write_triangle: first statement is not `self.counter += 1`")
    if not (isinstance(data, ast.Assign) and isinstance(data.targets[0], ast.Name) and isinstance(data.value, ast.List)):
        raise TranslateError("stl: _write_triangle: second statement is not a list literal")
    dn = data.targets[0].id
    if ast.unparse(wr) not in (f"self.fp.write(struct.pack({ast.unparse(wr.value.args[0].args[0])}, *{dn}))",):
        raise TranslateError("stl: _write_triangle: third statement is not `self.fp.write(struct.pack(FACET, *data))`")
    ff = expand(struct_fmt(wr.value.args[0].args[0]))
    elts = data.value.elts
    if len(ff) != len(elts): raise TranslateError(f"stl: facet format has {len(ff)} fields for {len(elts)} values")
    toks = []
    pn = {ps[1]: "p1", ps[2]: "p2", ps[3]: "p3"}
    for (ch, _), e in zip(ff, elts):
        if ch == "f":
            if isinstance(e, ast.Constant) and isinstance(e.value, (int, float)) and e.value == 0: toks.append("packZero cd")
            elif isinstance(e, ast.Subscript) and isinstance(e.value, ast.Name) and e.value.id in pn and isinstance(e.slice, ast.Constant) and e.slice.value in (0, 1, 2):
                toks.append(f"packF cd {pn[e.value.id]}{['.1', '.2.1', '.2.2'][e.slice.value]}")
            else: raise TranslateError(f"stl: facet value `{ast.unparse(e)}` not recognised")
        elif ch == "H":
            if isinstance(e, ast.Constant) and isinstance(e.value, int) and 0 <= e.value < 65536: toks.append(f"Tok.int {e.value}")
            else: raise TranslateError(f"stl: attribute word `{ast.unparse(e)}` not recognised")
        else:
            raise TranslateError(f"stl: facet field type `{ch}` is not binary32 / uint16")
    tri = "(st.1 + 1, st.2 ++ [[" + ", ".join(toks) + "]])"
    # write
    w = T.find_def(tree, "Binary_STL_Writer.write")
    mesh = w.args.args[1].arg
    wb = norm_body(w)
    is_hdr = lambda s: ast.unparse(s) == "self._write_header()"
    if not wb or not is_hdr(wb[-1]): raise TranslateError("stl: write() does not rewrite the header after the facets")
    core = [s for s in wb if not is_hdr(s)]
    if len(core) != 1 or not isinstance(core[0], ast.For) or ast.unparse(core[0].iter) != f"{mesh}.faces" or not isinstance(core[0].target, ast.Name):
        raise TranslateError("stl: write() is not one loop over mesh.faces")
    face = core[0].target.id
    lb = core[0].body
    ok = len(lb) == 2 and isinstance(lb[0], ast.Assign) and isinstance(lb[0].targets[0], ast.Name) and isinstance(lb[0].value, ast.ListComp) \
        and isinstance(lb[1], ast.If)
    if ok:
        lc = lb[0].value
        g = lc.generators[0]
        ok = (len(lc.generators) == 1 and not g.ifs and isinstance(g.target, ast.Name) and ast.unparse(g.iter) == face
              and ast.unparse(lc.elt) == f"{mesh}.vertices[{g.target.id}]")
    if not ok:
        raise TranslateError("stl: loop body is not `pts = [mesh.vertices[v] for v in face]` followed by an if-chain")
    pts = lb[0].targets[0].id

    def call_args(c):
        """self._write_triangle(<args>) -> lean for the three points in terms of the matched list pattern, or pattern request"""
        if not (isinstance(c, ast.Expr) and isinstance(c.value, ast.Call) and ast.unparse(c.value.func) == "self._write_triangle"):
            raise TranslateError(f"stl: statement `{ast.unparse(c)[:50]}` is not a call of _write_triangle")
        a = c.value.args
        if len(a) == 1 and isinstance(a[0], ast.Starred) and ast.unparse(a[0].value) == pts: return "star"
        idx = []
        for e in a:
            if not (isinstance(e, ast.Subscript) and ast.unparse(e.value) == pts and isinstance(e.slice, ast.Constant) and isinstance(e.slice.value, int) and e.slice.value >= 0):
                raise TranslateError(f"stl: argument `{ast.unparse(e)}` is not `{pts}[k]`")
            idx.append(e.slice.value)
        if len(idx) != 3: raise TranslateError("stl: _write_triangle called without three points")
        return idx

    def branch(bs, k):
        """body of the branch `len(face) == k`"""
        names = [f"q{i}" for i in range(k)]
        st = "st"
        txt = ""
        for c in bs:
            a = call_args(c)
            if a == "star":
                if k != 3: raise TranslateError(f"stl: `*{pts}` with {k} points")
                a = [0, 1, 2]
            if any(i >= k for i in a): raise TranslateError("stl: point index out of range")
            txt += f"let st := writeTriangle cd st {names[a[0]]} {names[a[1]]} {names[a[2]]}; "
        return f"(match pts with | [{', '.join(names)}] => some ({txt}st) | _ => none)"

    def chain(node):
        t = node.test
        if not (isinstance(t, ast.Compare) and len(t.ops) == 1 and isinstance(t.ops[0], ast.Eq) and ast.unparse(t.left) == f"len({face})"
                and isinstance(t.comparators[0], ast.Constant) and isinstance(t.comparators[0].value, int)):
            raise TranslateError(f"stl: branch test `{ast.unparse(t)[:40]}` is not `len(face) == k`")
        k = t.comparators[0].value
        th = branch(node.body, k)
        if len(node.orelse) == 1 and isinstance(node.orelse[0], ast.If): el = chain(node.orelse[0])
        elif len(node.orelse) == 1 and isinstance(node.orelse[0], ast.Raise): el = "none"
        elif not node.orelse: el = "some st"
        else: raise TranslateError("stl: else branch not recognised")
        return f"if (face.length == {k}) then {th}\n      else {el}"
    step = chain(lb[1])
    return {"tri": tri, "step": step, "header": "80sI", "facet": "".join(c for c, _ in ff)}


# ------------------------------------------------------------------------------------------------------------------
# generated file: writers
# ------------------------------------------------------------------------------------------------------------------
def writers():
    """-> (lean text, detail)"""
    detail = {}
    out = ["import Mouette.Model.IOSource\nnamespace Mouette.Generated.C04W\nopen Mouette.IO Mouette.IOS\nvariable {C : Type}\n"]

    def emit(file, qual, lean, sig, doc, with_cfg=False, counters=None):
        tree, _ = T.load(file)
        w = Writer(T.find_def(tree, qual), qual, 0, counters)
        body = w.compile()
        if w.uses_cfg != with_cfg: raise TranslateError(f"{qual}: use of config switches changed")
        out.append(f"/-- `{file}: {qual}` {doc} -/\ndef {lean} {sig} : File :=\n  {body}\n")
        detail[qual] = {"assumed": sorted(w.assumed)}

    emit("mouette/mesh/io/off.py", "export_off", "exportOff", "(cd : Codec C) (m : Raw C)", "")
    emit("mouette/mesh/io/tet.py", "export_tet", "exportTet", "(cd : Codec C) (m : Raw C)", "")
    emit("mouette/mesh/io/xyz.py", "export_xyz", "exportXyz", "(cd : Codec C) (m : Raw C)", "(branch without normals)")
    tree, _ = T.load("mouette/mesh/io/medit.py")
    out.append("/-- `medit.py: count_faces` -> (quads, triangles, others) -/\ndef countFaces (m : Raw C) : Nat × Nat × Nat :=\n  "
               + compile_counter(T.find_def(tree, "count_faces"), "count_faces", "faces") + "\n")
    out.append("/-- `medit.py: count_cells` -> (hexahedra, tetrahedra, others) -/\ndef countCells (m : Raw C) : Nat × Nat × Nat :=\n  "
               + compile_counter(T.find_def(tree, "count_cells"), "count_cells", "cells") + "\n")
    emit("mouette/mesh/io/medit.py", "export_medit", "exportMedit", "(cd : Codec C) (m : Raw C)", "",
         counters={"count_faces": "countFaces", "count_cells": "countCells"})
    emit("mouette/mesh/io/obj.py", "export_obj", "exportObj", "(cd : Codec C) (cfg : Cfg) (m : Raw C)", "(without texture coordinates / normals)", with_cfg=True)
    tree, _ = T.load("mouette/mesh/io/stl.py")
    st = compile_stl(tree)
    out.append("/-- `stl.py: Binary_STL_Writer._write_triangle` on the state (counter, facet records written) -/\n"
               "def writeTriangle (cd : Codec C) (st : Nat × File) (p1 p2 p3 : C × C × C) : Nat × File :=\n  " + st["tri"] + "\n")
    out.append("/-- one iteration of the loop of `Binary_STL_Writer.write` (`none` = IndexError / TypeError / the ValueError it raises) -/\n"
               "def writeFace (cd : Codec C) (m : Raw C) (st : Nat × File) (face : List Nat) : Option (Nat × File) :=\n"
               "  match mapOpt (fun v => m.verts[v]?) face with\n  | none => none\n  | some pts =>\n      " + st["step"] + "\n")
    out.append("/-- `Binary_STL_Writer.write` + the header rewritten last with the final counter: `[count] :: records` -/\n"
               "def exportStl (cd : Codec C) (m : Raw C) : Option File :=\n"
               "  match foldOpt (writeFace cd m) ((0 : Nat), ([] : File)) m.faces with\n  | none => none\n  | some st => some ([fmtI st.1] :: st.2)\n")
    out.append(f"/-- struct formats: header and facet record -/\ndef stlFormats : String × String := ({lean_str(st['header'])}, {lean_str(st['facet'])})\n")
    detail["Binary_STL_Writer"] = {"header": st["header"], "facet": st["facet"]}
    out.append("end Mouette.Generated.C04W\n")
    return "\n".join(out), detail


# ------------------------------------------------------------------------------------------------------------------
# generated file: extension dispatch (io.py) and class instantiation (mesh.py)
# ------------------------------------------------------------------------------------------------------------------
def _dispatch_table(fn, what):
    """`ext = get_extension(filename); f = {…}.get(ext.lower(), None); if f is None: raise …` -> rows (extension, function name)"""
    body = norm_body(fn)
    dicts = [n for s in body for n in ast.walk(s) if isinstance(n, ast.Dict)]
    if len(dicts) != 1: raise TranslateError(f"{what}: expected exactly one dict literal")
    rows = []
    for k, v in zip(dicts[0].keys, dicts[0].values):
        if not (isinstance(k, ast.Constant) and isinstance(k.value, str) and isinstance(v, ast.Name)):
            raise TranslateError(f"{what}: entry `{ast.unparse(k)}: {ast.unparse(v)}` is not `\"ext\": function`")
        rows.append((k.value, v.id))
    src = " ; ".join(ast.unparse(s) for s in body)
    fname = fn.args.args[-1].arg
    ext = [s for s in body if isinstance(s, ast.Assign) and ast.unparse(s.value) == f"get_extension({fname})"]
    if len(ext) != 1 or not isinstance(ext[0].targets[0], ast.Name): raise TranslateError(f"{what}: `ext = get_extension({fname})` not found")
    e = ext[0].targets[0].id
    if f".get({e}.lower(), None)" not in src: raise TranslateError(f"{what}: lookup is not `.get({e}.lower(), None)`")
    if not any(isinstance(s, ast.If) and ast.unparse(s.test).endswith(" is None") and len(s.body) == 1 and isinstance(s.body[0], ast.Raise) for s in body):
        raise TranslateError(f"{what}: `if f is None: raise` not found")
    return rows


def dispatch():
    tree, _ = T.load("mouette/mesh/io/io.py")
    rrows = _dispatch_table(T.find_def(tree, "read_by_extension"), "read_by_extension")
    wrows = _dispatch_table(T.find_def(tree, "write_by_extension"), "write_by_extension")
    imports = {}
    for n in tree.body:
        if isinstance(n, ast.ImportFrom) and n.level == 1 and n.module:
            for a in n.names: imports[a.asname or a.name] = (n.module, a.name)
    for ext, f in rrows + wrows:
        if f not in imports: raise TranslateError(f"io.py: `{f}` is not imported from a codec module")
    # the order of the entries of a dict literal is immaterial: rows sorted by extension
    rrows = sorted((e, imports[f][0], imports[f][1]) for e, f in rrows)
    wrows = sorted((e, imports[f][0], imports[f][1]) for e, f in wrows)
    # mesh.py: _instanciate_raw_mesh_data
    tree, _ = T.load("mouette/mesh/mesh.py")
    fn = T.find_def(tree, "_instanciate_raw_mesh_data")
    ps = [a.arg for a in fn.args.args]
    if len(ps) != 2: raise TranslateError("_instanciate_raw_mesh_data: expected (mesh_data, dim)")
    md, dim = ps
    body = norm_body(fn)
    if not body or ast.unparse(body[0]) != f"{md}.prepare()": raise TranslateError("_instanciate_raw_mesh_data: does not start with prepare()")
    default, saw_max, rows = None, False, []
    for s in body[1:]:
        u = ast.unparse(s)
        if isinstance(s, ast.If) and ast.unparse(s.test) == f"{dim} is None" and len(s.body) == 1 and not s.orelse \
                and isinstance(s.body[0], ast.Assign) and ast.unparse(s.body[0].targets[0]) == dim:
            try:
                default = int(ast.literal_eval(s.body[0].value))
            except Exception:
                raise TranslateError("_instanciate_raw_mesh_data: default of dim is not an integer literal")
            if saw_max or rows: raise TranslateError("_instanciate_raw_mesh_data: statement order changed")
        elif u in (f"{dim} = max({dim}, {md}.dimensionality)", f"{dim} = max({md}.dimensionality, {dim})"):
            if default is None or rows: raise TranslateError("_instanciate_raw_mesh_data: statement order changed")
            saw_max = True
        elif isinstance(s, ast.If) and not s.orelse and isinstance(s.test, ast.Compare) and ast.unparse(s.test.left) == dim \
                and isinstance(s.test.ops[0], ast.Eq) and isinstance(s.test.comparators[0], ast.Constant) and len(s.body) == 1 \
                and isinstance(s.body[0], ast.Return) and isinstance(s.body[0].value, ast.Call) and isinstance(s.body[0].value.func, ast.Name) \
                and ast.unparse(s.body[0].value.args[0]) == md and len(s.body[0].value.args) == 1:
            if not saw_max: raise TranslateError("_instanciate_raw_mesh_data: class chosen before `dim = max(dim, dimensionality)`")
            rows.append((int(s.test.comparators[0].value), s.body[0].value.func.id))
        else:
            raise TranslateError(f"_instanciate_raw_mesh_data: statement not recognised: `{u[:70]}`")
    if default is None or not saw_max: raise TranslateError("_instanciate_raw_mesh_data: default / max not found")
    # (load() itself is compiled by glue())
    rows3 = lambda rs: ", ".join(f"({lean_str(a)}, {lean_str(b)}, {lean_str(c)})" for a, b, c in rs)
    txt = ("namespace Mouette.Generated.C04D\n\n"
           "/-- `io.py: read_by_extension`: (lower-cased extension, codec module, function), sorted by extension -/\n"
           f"def readRows : List (String × String × String) :=\n  [{rows3(rrows)}]\n\n"
           "/-- `io.py: write_by_extension` -/\n"
           f"def writeRows : List (String × String × String) :=\n  [{rows3(wrows)}]\n\n"
           "/-- `mesh.py: _instanciate_raw_mesh_data`: value of `dim` when the argument is None -/\n"
           f"def dimDefault : Int := {default}\n\n"
           "/-- … the `if dim == k: return Class(mesh_data)` rows, in source order -/\n"
           "def classRows : List (Int × String) :=\n  [" + ", ".join(f"({k}, {lean_str(c)})" for k, c in rows) + "]\n\n"
           "/-- `_instanciate_raw_mesh_data(data, dim)` after `prepare()`: `dim = max(dim, data.dimensionality)`, then the first matching row\n"
           "(`none`: the function falls off its end and returns None) -/\n"
           "def instantiate (dimArg : Option Int) (dimensionality : Nat) : Option String :=\n"
           "  let dim : Int := match dimArg with | none => dimDefault | some k => k\n"
           "  let dim : Int := max dim (dimensionality : Int)\n"
           "  (classRows.find? (fun r => r.1 == dim)).map (·.2)\n\n"
           "end Mouette.Generated.C04D\n")
    return txt, {"readRows": rrows, "writeRows": wrows, "dimDefault": default, "classRows": rows}


# ------------------------------------------------------------------------------------------------------------------
# generated file: readers (line-by-line loops)
# ------------------------------------------------------------------------------------------------------------------
def compile_xyz_reader(tree):
    """`import_xyz`: `for v in f.readlines(): …` read statement by statement into an `Option` step function over the mesh
    (`none` = the Python raises, or a vertex without three coordinates is appended: outside the modelled domain).
    The side list collecting normals and the trailing block that turns it into the `normals` attribute are outside the property."""
    fn = T.find_def(tree, "import_xyz")
    body = norm_body(fn)
    if not body or not isinstance(body[-1], ast.Return) or not isinstance(body[-1].value, ast.Name):
        raise TranslateError("import_xyz: last statement is not `return <mesh>`")
    obj = body[-1].value.id
    side, withs, tail = set(), [], []
    for s in body[:-1]:
        if isinstance(s, ast.Assign) and isinstance(s.targets[0], ast.Name) and ast.unparse(s.value) == "RawMeshData()" and s.targets[0].id == obj: continue
        if isinstance(s, ast.Assign) and isinstance(s.targets[0], ast.Name) and ast.unparse(s.value) == "[]": side.add(s.targets[0].id); continue
        if isinstance(s, ast.With): withs.append(s); continue
        local = {x.id for x in ast.walk(s) if isinstance(x, ast.Name) and isinstance(x.ctx, ast.Store)}
        if isinstance(s, ast.If) and "create_attribute('normals'" in ast.unparse(s) and not (names_read([s]) - side - local - {obj, "np", "float", "len"}):
            tail.append(s); continue
        raise TranslateError(f"import_xyz: statement not recognised: `{ast.unparse(s)[:70]}`")
    if len(withs) != 1: raise TranslateError("import_xyz: expected one `with open(…) as f` block")
    w = withs[0]
    it = w.items[0]
    if not (isinstance(it.context_expr, ast.Call) and ast.unparse(it.context_expr.func) == "open" and isinstance(it.optional_vars, ast.Name)
            and len(it.context_expr.args) >= 2 and ast.unparse(it.context_expr.args[1]) == "'r'"):
        raise TranslateError("import_xyz: `with open(path, 'r') as f` not found")
    f = it.optional_vars.id
    if len(w.body) != 1 or not isinstance(w.body[0], ast.For) or ast.unparse(w.body[0].iter) != f"{f}.readlines()" or not isinstance(w.body[0].target, ast.Name):
        raise TranslateError("import_xyz: the with-block is not one `for line in f.readlines()` loop")
    line = w.body[0].target.id
    env = {}            # python name -> lean name of a List C
    n = [0]

    def fresh():
        n[0] += 1
        return f"d{n[0]}"

    def numlist(e):
        """data[a:b] / data -> lean List C"""
        if isinstance(e, ast.Name) and e.id in env: return env[e.id]
        if isinstance(e, ast.Subscript) and isinstance(e.value, ast.Name) and e.value.id in env and isinstance(e.slice, ast.Slice) and e.slice.step is None:
            lo = 0 if e.slice.lower is None else ast.literal_eval(e.slice.lower)
            hi = None if e.slice.upper is None else ast.literal_eval(e.slice.upper)
            x = env[e.value.id]
            if hi is not None: x = f"({x}.take {hi})"
            if lo: x = f"({x}.drop {lo})"
            return x
        raise TranslateError(f"import_xyz: list expression not recognised: `{ast.unparse(e)[:50]}`")

    def cond(t):
        if isinstance(t, ast.Compare) and len(t.ops) == 1 and isinstance(t.comparators[0], ast.Constant) and isinstance(t.left, ast.Call) \
                and ast.unparse(t.left.func) == "len" and isinstance(t.left.args[0], ast.Name) and t.left.args[0].id in env:
            k, x = t.comparators[0].value, env[t.left.args[0].id]
            if isinstance(t.ops[0], ast.Eq): return f"({x}.length == {k})"
            if isinstance(t.ops[0], ast.Lt): return f"decide ({x}.length < {k})"
        raise TranslateError(f"import_xyz: condition not recognised: `{ast.unparse(t)[:50]}`")

    def block(stmts, ind):
        pad = "  " * ind
        if not stmts: return "some r"
        s, rest = stmts[0], stmts[1:]
        u = ast.unparse(s)
        # side list of normals: outside the property
        if isinstance(s, ast.If) and not s.orelse and all(isinstance(b, ast.Expr) and isinstance(b.value, ast.Call) and isinstance(b.value.func, ast.Attribute)
                                                       and b.value.func.attr == "append" and ast.unparse(b.value.func.value) in side for b in s.body):
            return block(rest, ind)
        if isinstance(s, ast.Assign) and isinstance(s.targets[0], ast.Name) and isinstance(s.value, ast.ListComp):
            lc = s.value
            g = lc.generators[0]
            if len(lc.generators) == 1 and not g.ifs and isinstance(g.target, ast.Name) and ast.unparse(lc.elt) == f"float({g.target.id})" \
                    and ast.unparse(g.iter) in (f"{line}.strip().split()", f"{line}.split()"):
                d = fresh()
                env[s.targets[0].id] = d
                return f"match mapOpt (readNum cd) l with\n{pad}| none => none\n{pad}| some {d} =>\n{pad}  " + block(rest, ind + 1)
        if isinstance(s, ast.If) and not s.orelse and len(s.body) == 1 and isinstance(s.body[0], ast.Continue):
            return f"if {cond(s.test)} then some r else\n{pad}" + block(rest, ind)
        if isinstance(s, ast.Expr) and isinstance(s.value, ast.Call) and ast.unparse(s.value.func) == f"{obj}.vertices.append" and len(s.value.args) == 1:
            x = numlist(s.value.args[0])
            return (f"match vec3 {x} with\n{pad}| none => none\n{pad}| some p =>\n{pad}  let r := {{ r with verts := r.verts ++ [p] }};\n{pad}  "
                    + block(rest, ind + 1))
        raise TranslateError(f"import_xyz: statement in the line loop not recognised: `{u[:70]}`")
    step = block(w.body[0].body, 1)
    return step


def compile_tet_reader(tree):
    """`parse_tet_data`: header counts read with `int(get_line()[k])`, then `for _ in range(n)` loops that pop one line, parse it and
    append the record to a container.  -> Lean text of the body of `parseTet` (an `Option` chain over the deque and the mesh)."""
    fn = T.find_def(tree, "parse_tet_data")
    if len(fn.args.args) != 1: raise TranslateError("parse_tet_data: expected one parameter")
    dq = fn.args.args[0].arg
    body = norm_body(fn)
    out, getl, nums = None, None, {}
    lines, nl, nn = [], [0], [0]
    pad = "  "

    def is_pop(e):
        u = ast.unparse(e)
        return (getl is not None and u == f"{getl}()") or u in (f"{dq}.popleft().strip().split()", f"{dq}.popleft().split()")

    def parse_expr(e):
        """-> (lean parser of a line, kind) for `[float(u) for u in <pop>]` / `tuple(int(u) for u in <pop>[a:])`"""
        if isinstance(e, ast.Call) and isinstance(e.func, ast.Name) and e.func.id in ("tuple", "list") and len(e.args) == 1: e = e.args[0]
        if isinstance(e, (ast.ListComp, ast.GeneratorExp)) and len(e.generators) == 1 and not e.generators[0].ifs and isinstance(e.generators[0].target, ast.Name):
            g = e.generators[0]
            u, elt = g.target.id, ast.unparse(e.elt)
            src, a = g.iter, 0
            if isinstance(src, ast.Subscript) and isinstance(src.slice, ast.Slice) and src.slice.upper is None and src.slice.step is None:
                a = 0 if src.slice.lower is None else ast.literal_eval(src.slice.lower)
                src = src.value
            if is_pop(src):
                if elt == f"float({u})" and a == 0: return "(fun l => (mapOpt (readNum cd) l).bind vec3)", "pt"
                if elt == f"int({u})": return f"(fun l => mapOpt readNat (slice {a} none l))", "ids"
        raise TranslateError(f"parse_tet_data: record expression not recognised: `{ast.unparse(e)[:60]}`")
    for s in body:
        u = ast.unparse(s)
        if isinstance(s, ast.Assign) and len(s.targets) == 1 and isinstance(s.targets[0], ast.Name):
            t, v = s.targets[0].id, s.value
            if u == f"{dq} = deque({dq})": continue
            if isinstance(v, ast.Lambda) and not v.args.args and ast.unparse(v.body) in (f"{dq}.popleft().strip().split()", f"{dq}.popleft().split()"):
                getl = t; continue
            if ast.unparse(v) == "RawMeshData()":
                out = t; continue
            if isinstance(v, ast.Call) and ast.unparse(v.func) == "int" and len(v.args) == 1 and isinstance(v.args[0], ast.Subscript) \
                    and is_pop(v.args[0].value) and isinstance(v.args[0].slice, ast.Constant) and isinstance(v.args[0].slice.value, int) and v.args[0].slice.value >= 0:
                nl[0] += 1; nn[0] += 1
                l, n = f"l{nl[0]}", f"n{nn[0]}"
                nums[t] = n
                lines += [f"match popLine d with", "| none => none", f"| some ({l}, d) =>",
                          f"match (tokAt {l} {v.args[0].slice.value}).bind readNat with", "| none => none", f"| some {n} =>"]
                continue
        if isinstance(s, ast.For) and not s.orelse and isinstance(s.target, ast.Name) and isinstance(s.iter, ast.Call) and ast.unparse(s.iter.func) == "range" \
                and len(s.iter.args) == 1 and isinstance(s.iter.args[0], ast.Name) and s.iter.args[0].id in nums and s.target.id not in names_read(s.body):
            b = s.body
            if len(b) == 2 and isinstance(b[0], ast.Assign) and isinstance(b[0].targets[0], ast.Name) and isinstance(b[1], ast.Expr) \
                    and isinstance(b[1].value, ast.Call) and isinstance(b[1].value.func, ast.Attribute) and b[1].value.func.attr == "append" \
                    and isinstance(b[1].value.func.value, ast.Attribute) and ast.unparse(b[1].value.func.value.value) == out \
                    and ast.unparse(b[1].value.args[0]) == b[0].targets[0].id and len(b[1].value.args) == 1:
                g, kind = parse_expr(b[0].value)
                cont = b[1].value.func.value.attr
                field = {("vertices", "pt"): "verts", ("cells", "ids"): "cells", ("faces", "ids"): "faces"}.get((cont, kind))
                if field is None: raise TranslateError(f"parse_tet_data: `{kind}` records appended to `{cont}`")
                lines += [f"match popEach {g} (fun r x => {{ r with {field} := r.{field} ++ [x] }}) {nums[s.iter.args[0].id]} (d, r) with",
                          "| none => none", "| some (d, r) =>"]
                continue
        if isinstance(s, ast.Return) and ast.unparse(s.value) == out and s is body[-1]:
            lines.append("some r"); continue
        raise TranslateError(f"parse_tet_data: statement not recognised: `{u[:70]}`")
    if out is None or not lines or lines[-1] != "some r": raise TranslateError("parse_tet_data: mesh creation / return not found")
    return "let d := file\n  let r : Raw C := Raw.empty\n  " + ("\n" + pad).join(lines)


def compile_off_reader(tree):
    """`parse_off_data` -> (Lean body of `offRecord`, Lean body of `parseOff`).
    Domain notes: the token-level file already is `strip().split()` of the non-empty lines (the two glue statements); negative counts
    are outside the domain (`readNat`); the `*_corners` bookkeeping and its counters are not part of the token-level mesh; the arity-2
    branch compares TOKEN STRINGS with min/max: outside the modelled domain (`none`)."""
    fn = T.find_def(tree, "parse_off_data")
    if len(fn.args.args) != 1: raise TranslateError("parse_off_data: expected one parameter")
    dq = fn.args.args[0].arg
    body = norm_body(fn)
    out = None
    toks, nums, ints, counters = {}, {}, {}, set()
    lines, cnt = [], {"l": 0, "n": 0, "h": 0}
    record = None
    W = r"[A-Za-z_]\w*"

    def fresh(k):
        cnt[k] += 1
        return f"{k}{cnt[k]}"
    range_args = {ast.unparse(s.iter.args[0]) for s in body if isinstance(s, ast.For) and isinstance(s.iter, ast.Call) and ast.unparse(s.iter.func) == "range" and len(s.iter.args) == 1}

    def compile_record(loop):
        """body of `for _ in range(nf)`: `rec = data.popleft(); k = int(rec[0]); if k == 3: … elif …`"""
        b = loop.body
        if not (len(b) == 3 and ast.unparse(b[0].value if isinstance(b[0], ast.Assign) else b[0]) == f"{dq}.popleft()" and isinstance(b[0].targets[0], ast.Name)):
            raise TranslateError("parse_off_data: record loop does not start with `rec = data.popleft()`")
        rec = b[0].targets[0].id
        if not (isinstance(b[1], ast.Assign) and isinstance(b[1].targets[0], ast.Name) and ast.unparse(b[1].value) == f"int({rec}[0])"):
            raise TranslateError("parse_off_data: arity is not read with `int(rec[0])`")
        kv = b[1].targets[0].id
        if not isinstance(b[2], ast.If): raise TranslateError("parse_off_data: record loop has no if-chain")

        def branch(stmts, K):
            cur, res = None, None
            for st in stmts:
                u = ast.unparse(st)
                if isinstance(st, ast.Assign) and isinstance(st.targets[0], ast.Name) and isinstance(st.value, ast.ListComp):
                    lc = st.value; g = lc.generators[0]
                    if len(lc.generators) == 1 and not g.ifs and isinstance(g.target, ast.Name) and ast.unparse(lc.elt) == f"int({g.target.id})" \
                            and isinstance(g.iter, ast.Subscript) and ast.unparse(g.iter.value) == rec and isinstance(g.iter.slice, ast.Slice) and g.iter.slice.step is None:
                        ev = lambda e: None if e is None else eval(compile(ast.Expression(e), "<slice>", "eval"), {"__builtins__": {}}, {kv: K})
                        try:
                            lo, hi = ev(g.iter.slice.lower) or 0, ev(g.iter.slice.upper)
                        except Exception:
                            raise TranslateError(f"parse_off_data: slice bounds not recognised: `{u[:60]}`")
                        cur = (st.targets[0].id, f"mapOpt readNat (slice {lo} {'none' if hi is None else '(some ' + str(hi) + ')'} l)")
                        continue
                if isinstance(st, ast.Expr) and isinstance(st.value, ast.Call) and isinstance(st.value.func, ast.Attribute) and st.value.func.attr == "append" \
                        and isinstance(st.value.func.value, ast.Attribute) and ast.unparse(st.value.func.value.value) == out and len(st.value.args) == 1:
                    cont = st.value.func.value.attr
                    if cur and ast.unparse(st.value.args[0]) == cur[0] and cont in ("faces", "cells") and res is None:
                        res = (cur[1], cont); continue
                if isinstance(st, ast.AugAssign) and isinstance(st.target, ast.Attribute) and ast.unparse(st.target.value) == out and st.target.attr.endswith("_corners"):
                    continue        # corner bookkeeping
                if isinstance(st, ast.AugAssign) and isinstance(st.target, ast.Name) and st.target.id in counters: continue
                raise TranslateError(f"parse_off_data: statement in the arity-{K} branch not recognised: `{u[:70]}`")
            if res is None: raise TranslateError(f"parse_off_data: the arity-{K} branch stores nothing")
            return (f"match {res[0]} with\n    | none => none\n    | some x => some {{ r with {res[1]} := r.{res[1]} ++ [x] }}")

        def is_string_edge_branch(stmts):
            return (len(stmts) == 2 and re.fullmatch(rf"({W}), ({W}) = \({rec}\[1\], {rec}\[2\]\)", ast.unparse(stmts[0])) is not None
                    and re.fullmatch(rf"{out}\.edges\.append\(\(min\(({W}), ({W})\), max\(({W}), ({W})\)\)\)", ast.unparse(stmts[1])) is not None)

        def chain(node):
            t = node.test
            if not (isinstance(t, ast.Compare) and len(t.ops) == 1 and isinstance(t.ops[0], ast.Eq) and ast.unparse(t.left) == kv
                    and isinstance(t.comparators[0], ast.Constant) and isinstance(t.comparators[0].value, int)):
                raise TranslateError(f"parse_off_data: branch test is not `{kv} == k`: `{ast.unparse(t)[:40]}`")
            K = t.comparators[0].value
            th = "none" if is_string_edge_branch(node.body) else branch(node.body, K)
            if len(node.orelse) == 1 and isinstance(node.orelse[0], ast.If): el = chain(node.orelse[0])
            elif not node.orelse: el = "some r"
            else: raise TranslateError("parse_off_data: trailing else branch")
            return f"if k == {K} then\n    {th}\n  else {el}"
        return "match (tokAt l 0).bind readInt with\n  | none => none\n  | some k =>\n  " + chain(b[2])
    for s in body:
        u = ast.unparse(s)
        if isinstance(s, ast.Assign) and len(s.targets) == 1:
            t, v = s.targets[0], s.value
            if isinstance(t, ast.Name) and ast.unparse(v) == "RawMeshData()": out = t.id; continue
            if re.fullmatch(rf"{dq} = \[({W})\.strip\(\)\.split\(\) for \1 in {dq}\]", u) or re.fullmatch(rf"{dq} = deque\(\[({W}) for \1 in {dq} if \1\]\)", u):
                continue        # token-level glue
            if isinstance(t, ast.Name) and ast.unparse(v) == f"{dq}.popleft()[0]":
                l, h = fresh("l"), fresh("h")
                toks[t.id] = h
                lines += ["match popLine d with", "| none => none", f"| some ({l}, d) =>", f"match tokAt {l} 0 with", "| none => none", f"| some {h} =>"]
                continue
            if isinstance(t, ast.Tuple) and all(isinstance(e, ast.Name) for e in t.elts) and isinstance(v, (ast.GeneratorExp, ast.ListComp)) and len(t.elts) == 3:
                g = v.generators[0]
                if len(v.generators) == 1 and not g.ifs and isinstance(g.target, ast.Name) and ast.unparse(v.elt) == f"int({g.target.id})" and ast.unparse(g.iter) == f"{dq}.popleft()":
                    l = fresh("l")
                    lines += ["match popLine d with", "| none => none", f"| some ({l}, d) =>", f"match three {l} with", "| none => none", "| some (t1, t2, t3) =>"]
                    for e, tk in zip(t.elts, ("t1", "t2", "t3")):
                        n = fresh("n")
                        rd = "readNat" if e.id in range_args else "readInt"
                        (nums if rd == "readNat" else ints)[e.id] = n
                        lines += [f"match {rd} {tk} with", "| none => none", f"| some {n} =>"]
                    continue
            if isinstance(t, ast.Tuple) and isinstance(v, ast.Tuple) and all(isinstance(e, ast.Name) for e in t.elts) and all(ast.unparse(e) == "0" for e in v.elts):
                counters |= {e.id for e in t.elts}; continue
            if isinstance(t, ast.Name) and ast.unparse(v) == "0": counters.add(t.id); continue
        if isinstance(s, ast.If) and not s.orelse and len(s.body) == 1 and isinstance(s.body[0], ast.Raise) and isinstance(s.test, ast.Compare) \
                and len(s.test.ops) == 1 and isinstance(s.test.ops[0], ast.NotEq) and ast.unparse(s.test.left) in toks \
                and isinstance(s.test.comparators[0], ast.Constant) and isinstance(s.test.comparators[0].value, str):
            lines.append(f"if {toks[ast.unparse(s.test.left)]} != {_word(s.test.comparators[0].value)} then none else")
            continue
        if isinstance(s, ast.For) and not s.orelse and isinstance(s.iter, ast.Call) and ast.unparse(s.iter.func) == "range" and len(s.iter.args) == 1 \
                and ast.unparse(s.iter.args[0]) in nums and isinstance(s.target, ast.Name) and s.target.id not in names_read(s.body):
            n = nums[ast.unparse(s.iter.args[0])]
            b = s.body
            if len(b) == 2 and isinstance(b[0], ast.Assign) and isinstance(b[0].targets[0], ast.Name) and isinstance(b[0].value, ast.ListComp):
                lc = b[0].value; g = lc.generators[0]; x = b[0].targets[0].id
                if len(lc.generators) == 1 and not g.ifs and isinstance(g.target, ast.Name) and ast.unparse(lc.elt) == f"float({g.target.id})" \
                        and ast.unparse(g.iter) == f"{dq}.popleft()" and ast.unparse(b[1]) in (f"{out}.vertices.append(Vec({x}))", f"{out}.vertices.append({x})"):
                    lines += [f"match popEach (fun l => (mapOpt (readNum cd) l).bind vec3) (fun r x => {{ r with verts := r.verts ++ [x] }}) {n} (d, r) with",
                              "| none => none", "| some (d, r) =>"]
                    continue
            if record is None:
                record = compile_record(s)
                lines += [f"match popFold offRecord {n} (d, r) with", "| none => none", "| some (d, r) =>"]
                continue
        if isinstance(s, ast.Return) and ast.unparse(s.value) == out and s is body[-1]:
            lines.append("some r"); continue
        raise TranslateError(f"parse_off_data: statement not recognised: `{u[:70]}`")
    if out is None or record is None or not lines or lines[-1] != "some r": raise TranslateError("parse_off_data: mesh creation / record loop / return not found")
    return record, "let d := file\n  let r : Raw C := Raw.empty\n  " + "\n  ".join(lines)


def compile_obj_reader(tree):
    """`parse_vertex` + `parse_obj_data` -> Lean bodies (parseVertex, objLine, objCorner).
    Token level: a face token without '/' is ONE item after `split('/')`, so `parse_vertex` is evaluated with `len(vals) == 1`
    (tokens with '/' are keywords at token level: `int()` of them raises = `none`).  Normals / texture coordinates are outside the
    property: the `vn` / `vt` branches, and a corner whose `tid` / `nid` is not -1, leave the modelled domain (`none`); the
    `normals` / `uv_coords` attributes and the face_corners bookkeeping are not part of the token-level mesh."""
    # ---- parse_vertex under len(vals) == 1
    pv = T.find_def(tree, "parse_vertex")
    if len(pv.args.args) != 1: raise TranslateError("parse_vertex: expected one parameter")
    a = pv.args.args[0].arg
    b = norm_body(pv)
    if not (len(b) == 5 and ast.unparse(b[0].value) == f"{a}.split('/')" and isinstance(b[0].targets[0], ast.Name) and isinstance(b[4], ast.Return)
            and isinstance(b[4].value, ast.Tuple) and len(b[4].value.elts) == 3):
        raise TranslateError("parse_vertex: expected `vals = vstr.split('/')`, three assignments and `return (vid, tid, nid)`")
    vals = b[0].targets[0].id
    comp = {}
    for st in b[1:4]:
        if not (isinstance(st, ast.Assign) and isinstance(st.targets[0], ast.Name)): raise TranslateError("parse_vertex: assignment expected")
        v = st.value
        if ast.unparse(v) == f"int({vals}[0]) - 1": comp[st.targets[0].id] = "vid"; continue
        if isinstance(v, ast.IfExp):
            # `int(vals[k]) - 1 if len(vals) > k [and vals[k]] else -1`: with len(vals) == 1 and k >= 1 the guard is false
            els = ast.unparse(v.orelse)
            test = Norm().visit(copy.deepcopy(v.test))
            first = test.values[0] if isinstance(test, ast.BoolOp) and isinstance(test.op, ast.And) else test
            m = re.fullmatch(rf"(\d+) < len\({vals}\)", ast.unparse(first))
            if els == "-1" and m and int(m.group(1)) >= 1 and ast.unparse(v.body) == f"int({vals}[{m.group(1)}]) - 1":
                comp[st.targets[0].id] = "-1"; continue
        raise TranslateError(f"parse_vertex: `{ast.unparse(st)[:70]}` not recognised")
    order = [comp.get(e.id) if isinstance(e, ast.Name) else None for e in b[4].value.elts]
    if order != ["vid", "-1", "-1"]: raise TranslateError(f"parse_vertex: returns {order}, expected (vid, tid, nid)")
    pv_txt = "match readIdx1 t with\n  | none => none\n  | some vid => some (vid, -1, -1)"
    # ---- parse_obj_data
    fn = T.find_def(tree, "parse_obj_data")
    data = fn.args.args[0].arg
    body = norm_body(fn)
    out, side, faces_var = None, {}, None
    i = 0
    while i < len(body) and isinstance(body[i], ast.Assign) and isinstance(body[i].targets[0], ast.Name) and ast.unparse(body[i].value) in ("RawMeshData()", "[]"):
        if ast.unparse(body[i].value) == "RawMeshData()": out = body[i].targets[0].id
        else: side[body[i].targets[0].id] = None
        i += 1
    if out is None or i >= len(body) or not isinstance(body[i], ast.For) or ast.unparse(body[i].iter) != data or not isinstance(body[i].target, ast.Name):
        raise TranslateError("parse_obj_data: `obj = RawMeshData()`, the side lists and `for line in data` not found")
    loop1 = body[i]
    line = loop1.target.id
    lb = loop1.body
    if not (len(lb) == 3 and ast.unparse(lb[0]) and isinstance(lb[0], ast.Assign) and ast.unparse(lb[0].value) in (f"{line}.split()", f"{line}.strip().split()")
            and isinstance(lb[1], ast.If) and ast.unparse(lb[1].test) == f"not {lb[0].targets[0].id}" and len(lb[1].body) == 1 and isinstance(lb[1].body[0], ast.Continue)
            and isinstance(lb[2], ast.If)):
        raise TranslateError("parse_obj_data: loop body is not `toks = line.split(); if not toks: continue; if toks[0] == …`")
    tk = lb[0].targets[0].id

    def flt_list(e):
        """Vec([float(v) for v in toks[a:b]]) -> lean Option (C × C × C)"""
        if isinstance(e, ast.Call) and ast.unparse(e.func) == "Vec" and len(e.args) == 1: e = e.args[0]
        if isinstance(e, ast.ListComp) and len(e.generators) == 1 and not e.generators[0].ifs and isinstance(e.generators[0].target, ast.Name):
            g = e.generators[0]
            if ast.unparse(e.elt) == f"float({g.target.id})" and isinstance(g.iter, ast.Subscript) and ast.unparse(g.iter.value) == tk and isinstance(g.iter.slice, ast.Slice) and g.iter.slice.step is None:
                lo = 0 if g.iter.slice.lower is None else ast.literal_eval(g.iter.slice.lower)
                hi = None if g.iter.slice.upper is None else ast.literal_eval(g.iter.slice.upper)
                return f"(mapOpt (readNum cd) (slice {lo} {'none' if hi is None else '(some ' + str(hi) + ')'} l)).bind vec3"
        raise TranslateError(f"parse_obj_data: vertex expression not recognised: `{ast.unparse(e)[:60]}`")

    def branch(stmts, kw):
        u = [ast.unparse(x) for x in stmts]
        if len(stmts) == 1 and isinstance(stmts[0], ast.Expr) and isinstance(stmts[0].value, ast.Call) and isinstance(stmts[0].value.func, ast.Attribute) \
                and stmts[0].value.func.attr == "append" and len(stmts[0].value.args) == 1:
            tgt, arg = ast.unparse(stmts[0].value.func.value), stmts[0].value.args[0]
            if tgt == f"{out}.vertices":
                return f"match {flt_list(arg)} with\n    | none => none\n    | some x => some ({{ s.1 with verts := s.1.verts ++ [x] }}, s.2)"
            if tgt in side:
                if isinstance(arg, ast.ListComp) and len(arg.generators) == 1 and not arg.generators[0].ifs and isinstance(arg.generators[0].target, ast.Name):
                    g = arg.generators[0]
                    if ast.unparse(arg.elt) == f"parse_vertex({g.target.id})" and isinstance(g.iter, ast.Subscript) and ast.unparse(g.iter) == f"{tk}[1:]":
                        side[tgt] = "faces"
                        return "match mapOpt parseVertex (slice 1 none l) with\n    | none => none\n    | some x => some (s.1, s.2 ++ [x])"
                if ast.unparse(arg).startswith("Vec([float("):
                    side[tgt] = "attr"
                    return "none"       # normals / texture coordinates: outside the property
        if len(stmts) == 3:
            m1 = re.fullmatch(rf"(\w+), (\w+) = \(int\({tk}\[1\]\) - 1, int\({tk}\[2\]\) - 1\)", u[0])
            if m1:
                m2 = re.fullmatch(rf"(\w+) = keyify\({m1.group(1)}, {m1.group(2)}\)", u[1])
                if m2 and u[2] == f"{out}.edges.append({m2.group(1)})":
                    return ("match (tokAt l 1).bind readIdx1 with\n    | none => none\n    | some i1 =>\n    match (tokAt l 2).bind readIdx1 with\n    | none => none\n    | some i2 =>\n"
                            "    some ({ s.1 with edges := s.1.edges ++ [keyify (i1, i2)] }, s.2)")
        raise TranslateError(f"parse_obj_data: branch `{kw}` not recognised: `{' ; '.join(u)[:80]}`")

    def chain(node):
        t = node.test
        if not (isinstance(t, ast.Compare) and ast.unparse(t.left) == f"{tk}[0]" and len(t.ops) == 1 and isinstance(t.ops[0], ast.Eq)
                and isinstance(t.comparators[0], ast.Constant) and isinstance(t.comparators[0].value, str)):
            raise TranslateError("parse_obj_data: branch test is not `toks[0] == '…'`")
        kw = t.comparators[0].value
        th = branch(node.body, kw)
        if len(node.orelse) == 1 and isinstance(node.orelse[0], ast.If): el = chain(node.orelse[0])
        elif not node.orelse: el = "some s"
        else: raise TranslateError("parse_obj_data: trailing else branch")
        return f"if t0 == {_word(kw)} then\n    {th}\n  else {el}"
    line_txt = "if l.isEmpty then some s else\n  match tokAt l 0 with\n  | none => none\n  | some t0 =>\n  " + chain(lb[2])
    fl = [k for k, v in side.items() if v == "faces"]
    if len(fl) != 1: raise TranslateError("parse_obj_data: the list collecting the `f` records was not found")
    faces_var = fl[0]
    # ---- second phase: attributes + `for iF, F in enumerate(faces)`
    rest = body[i + 1:]
    attrs, loop2, cnts = {}, None, set()
    for st in rest:
        u = ast.unparse(st)
        m = re.fullmatch(rf"(\w+) = {out}\.(\w+)\.create_attribute\('(normals|uv_coords)', float, \d\)", u)
        if m: attrs[m.group(1)] = m.group(3); continue
        if isinstance(st, ast.Assign) and isinstance(st.targets[0], ast.Name) and ast.unparse(st.value) == "0": cnts.add(st.targets[0].id); continue
        if isinstance(st, ast.For) and loop2 is None and ast.unparse(st.iter) == f"enumerate({faces_var})": loop2 = st; continue
        if isinstance(st, ast.If) and re.fullmatch(r"(\w+)\.empty\(\)", ast.unparse(st.test)) and ast.unparse(st.test).split(".")[0] in attrs \
                and len(st.body) == 1 and "delete_attribute" in ast.unparse(st.body[0]) and not st.orelse: continue
        if isinstance(st, ast.Return) and ast.unparse(st.value) == out and st is body[-1]: continue
        raise TranslateError(f"parse_obj_data: statement not recognised: `{u[:70]}`")
    if loop2 is None or not (isinstance(loop2.target, ast.Tuple) and len(loop2.target.elts) == 2): raise TranslateError("parse_obj_data: `for iF, F in enumerate(faces)` not found")
    iF, F = (e.id for e in loop2.target.elts)
    b2 = loop2.body
    if not (len(b2) == 4 and ast.unparse(b2[0]).endswith(" = []") and isinstance(b2[1], ast.For) and ast.unparse(b2[1].iter) == F):
        raise TranslateError("parse_obj_data: face loop is not `face = []; for (vid, tid, nid) in F: …; obj.faces.append(face); corners`")
    face = b2[0].targets[0].id
    if ast.unparse(b2[2]) != f"{out}.faces.append({face})": raise TranslateError("parse_obj_data: `obj.faces.append(face)` not found")
    if not (isinstance(b2[3], ast.AugAssign) and ast.unparse(b2[3].target) == f"{out}.face_corners"): raise TranslateError("parse_obj_data: corner bookkeeping not found")
    tg = b2[1].target
    if not (isinstance(tg, ast.Tuple) and len(tg.elts) == 3 and all(isinstance(e, ast.Name) for e in tg.elts)): raise TranslateError("parse_obj_data: corner pattern is not (vid, tid, nid)")
    names = [e.id for e in tg.elts]
    keep, guards = None, []
    for st in b2[1].body:
        u = ast.unparse(st)
        if re.fullmatch(rf"{face}\.append\((\w+)\)", u):
            keep = names.index(re.fullmatch(rf"{face}\.append\((\w+)\)", u).group(1)); continue
        if isinstance(st, ast.If) and not st.orelse and len(st.body) == 1 and isinstance(st.body[0], ast.Assign) and isinstance(st.body[0].targets[0], ast.Subscript) \
                and ast.unparse(st.body[0].targets[0].value) in attrs:
            m = re.fullmatch(r"(\w+) != -1", ast.unparse(st.test))
            if m and m.group(1) in names: guards.append(names.index(m.group(1))); continue
        if isinstance(st, ast.AugAssign) and isinstance(st.target, ast.Name) and st.target.id in cnts: continue
        raise TranslateError(f"parse_obj_data: statement in the corner loop not recognised: `{u[:70]}`")
    if keep != 0 or sorted(guards) != [1, 2]: raise TranslateError(f"parse_obj_data: corner loop keeps component {keep} with guards on {guards}")
    proj = ["c.1", "c.2.1", "c.2.2"]
    corner_txt = " else ".join(f"if {proj[g]} != -1 then none" for g in guards) + f" else some {proj[keep]}"
    return pv_txt, line_txt, corner_txt


def compile_medit_reader(tree):
    """`parse_field` + `import_medit` -> Lean text of fieldRecord / parseField / meditLoop / importMedit.
    Token level: a stripped line equal to a keyword is the one-token line `[kw]`; `int(<line>)` needs a one-token line; blank lines
    (ignored by the `while` loop between blocks) are already dropped.  `container.append(d)` is `pushElem` of Model/IO.lean
    (an edge record must be a pair).  The `while data:` loop is compiled to recursion on a fuel argument (> number of lines)."""
    # ---- parse_field
    pf = T.find_def(tree, "parse_field")
    ps = [a.arg for a in pf.args.args]
    if len(ps) != 4: raise TranslateError("parse_field: expected (data, container, nlines, nelem)")
    dq, cont, nl, ne = ps
    b = norm_body(pf)
    ok = len(b) == 1 and isinstance(b[0], ast.For) and ast.unparse(b[0].iter) == f"range({nl})" and isinstance(b[0].target, ast.Name) and len(b[0].body) == 3
    if ok:
        l0, l1, l2 = b[0].body
        ok = (isinstance(l0, ast.Assign) and isinstance(l0.targets[0], ast.Name) and ast.unparse(l0.value) in (f"{dq}.popleft().split()", f"{dq}.popleft().strip().split()"))
    if ok:
        ln = l0.targets[0].id
        ok = isinstance(l1, ast.Assign) and isinstance(l1.targets[0], ast.Name) and re.fullmatch(
            rf"\[int\((\w+)(\.strip\(\))?\) - 1 for \1 in {ln}\]\[:{ne}\]", ast.unparse(l1.value)) is not None
    if ok:
        ok = ast.unparse(l2) == f"{cont}.append({l1.targets[0].id})"
    if not ok: raise TranslateError("parse_field: body is not `for _ in range(nlines): line = data.popleft().split(); d = [int(u) - 1 for u in line][:nelem]; container.append(d)`")
    # ---- import_medit
    fn = T.find_def(tree, "import_medit")
    body = norm_body(fn)
    out, dqm, loop = None, None, None
    for st in body:
        u = ast.unparse(st)
        if isinstance(st, ast.Assign) and isinstance(st.targets[0], ast.Name) and ast.unparse(st.value) == "RawMeshData()": out = st.targets[0].id; continue
        if isinstance(st, ast.Assign) and isinstance(st.targets[0], ast.Name) and ast.unparse(st.value) == "deque()": continue
        if isinstance(st, ast.With) and len(st.body) == 1:
            m = re.fullmatch(r"(\w+) = deque\(\[(\w+)\.strip\(\) for \2 in (\w+)\.readlines\(\)\]\)", ast.unparse(st.body[0]))
            it = st.items[0]
            if m and isinstance(it.optional_vars, ast.Name) and it.optional_vars.id == m.group(3) and ast.unparse(it.context_expr.func) == "open":
                dqm = m.group(1); continue
        if isinstance(st, ast.While) and loop is None and dqm and ast.unparse(st.test) == dqm and not st.orelse: loop = st; continue
        if isinstance(st, ast.Return) and ast.unparse(st.value) == out and st is body[-1]: continue
        raise TranslateError(f"import_medit: statement not recognised: `{u[:70]}`")
    if loop is None or out is None: raise TranslateError("import_medit: `while data:` loop not found")
    lb = loop.body
    if not (len(lb) == 2 and isinstance(lb[0], ast.Assign) and isinstance(lb[0].targets[0], ast.Name) and ast.unparse(lb[0].value) == f"{dqm}.popleft()" and isinstance(lb[1], ast.If)):
        raise TranslateError("import_medit: loop body is not `line = data.popleft()` followed by one if/elif chain")
    line = lb[0].targets[0].id
    count = ["match popLine d with", "| none => none", "| some (l1, d) =>", "match (one l1).bind readNat with", "| none => none", "| some n1 =>"]

    def branch(stmts, kw):
        if len(stmts) == 1 and isinstance(stmts[0], ast.Break): return ["some r"]
        if len(stmts) == 2 and isinstance(stmts[0], ast.Assign) and isinstance(stmts[0].targets[0], ast.Name) and ast.unparse(stmts[0].value) == f"int({dqm}.popleft())":
            n = stmts[0].targets[0].id
            s1 = stmts[1]
            m = re.fullmatch(rf"parse_field\({dqm}, {out}\.(edges|faces|cells), {n}, (\d+)\)", ast.unparse(s1))
            if m:
                return count + [f"match parseField .{m.group(1)} n1 {m.group(2)} (d, r) with", "| none => none", "| some s => meditLoop cd fuel s"]
            if isinstance(s1, ast.For) and ast.unparse(s1.iter) == f"range({n})" and isinstance(s1.target, ast.Name) and len(s1.body) == 3:
                a0, a1, a2 = s1.body
                if isinstance(a0, ast.Assign) and isinstance(a0.targets[0], ast.Name) and ast.unparse(a0.value) in (f"{dqm}.popleft().split()", f"{dqm}.popleft().strip().split()") \
                        and isinstance(a1, ast.Assign) and isinstance(a1.targets[0], ast.Name):
                    m2 = re.fullmatch(rf"\[float\((\w+)(\.strip\(\))?\) for \1 in {a0.targets[0].id}\[:(\d+)\]\]", ast.unparse(a1.value))
                    if m2 and ast.unparse(a2) == f"{out}.vertices.append({a1.targets[0].id})":
                        return count + [f"match popEach (fun l => (mapOpt (readNum cd) (slice 0 (some {m2.group(3)}) l)).bind vec3) (fun r x => {{ r with verts := r.verts ++ [x] }}) n1 (d, r) with",
                                        "| none => none", "| some s => meditLoop cd fuel s"]
        raise TranslateError(f"import_medit: branch `{kw}` not recognised: `{' ; '.join(ast.unparse(x) for x in stmts)[:90]}`")
    out_lines, node, first = [], lb[1], True
    while True:
        t = node.test
        if not (isinstance(t, ast.Compare) and ast.unparse(t.left) == line and len(t.ops) == 1 and isinstance(t.ops[0], ast.Eq)
                and isinstance(t.comparators[0], ast.Constant) and isinstance(t.comparators[0].value, str) and len(t.comparators[0].value.split()) == 1):
            raise TranslateError(f"import_medit: branch test is not `line == \"Keyword\"`: `{ast.unparse(t)[:50]}`")
        kw = t.comparators[0].value
        br = branch(node.body, kw)
        head = f"{'if' if first else 'else if'} line == [{_word(kw)}] then"
        if len(br) == 1: out_lines.append(f"    {head} {br[0]}")
        else: out_lines += [f"    {head}"] + ["      " + x for x in br]
        first = False
        if len(node.orelse) == 1 and isinstance(node.orelse[0], ast.If): node = node.orelse[0]
        elif not node.orelse: break
        else: raise TranslateError("import_medit: trailing else branch")
    out_lines.append("    else meditLoop cd fuel (d, r)")
    txt = ("/-- `medit.py: parse_field`: one line -> `[int(u.strip()) - 1 for u in line][:nelem]` -/\n"
           "def fieldRecord (nelem : Nat) (l : Line) : Option (List Nat) :=\n  match mapOpt readInt l with\n  | none => none\n  | some is => mapOpt decr1 (is.take nelem)\n\n"
           "/-- `medit.py: parse_field(data, container, nlines, nelem)` -/\n"
           "def parseField (c : Cont) (nlines nelem : Nat) (s : RSt C) : Option (RSt C) :=\n"
           "  popFold (fun r l => match fieldRecord nelem l with\n    | none => none\n    | some x => pushElem r c x) nlines s\n\n"
           "/-- `medit.py: import_medit`: the `while data:` loop on a fuel argument (called with more fuel than lines) -/\n"
           "def meditLoop (cd : Codec C) : Nat → RSt C → Option (Raw C)\n  | 0, s => some s.2\n  | fuel + 1, (d, r) =>\n"
           "    match popLine d with\n    | none => some r\n    | some (line, d) =>\n" + "\n".join(out_lines) + "\n\n"
           "/-- `import_medit` -/\n"
           "def importMedit (cd : Codec C) (file : File) : Option (Raw C) := meditLoop cd (file.length + 1) (file, Raw.empty)\n")
    return txt


def readers():
    tree, _ = T.load("mouette/mesh/io/xyz.py")
    step = compile_xyz_reader(tree)
    tree, _ = T.load("mouette/mesh/io/tet.py")
    tet = compile_tet_reader(tree)
    tree, _ = T.load("mouette/mesh/io/off.py")
    offrec, off = compile_off_reader(tree)
    tree, _ = T.load("mouette/mesh/io/obj.py")
    objpv, objline, objcorner = compile_obj_reader(tree)
    tree, _ = T.load("mouette/mesh/io/medit.py")
    medit = compile_medit_reader(tree)
    txt = ("import Mouette.Model.IOSource\nnamespace Mouette.Generated.C04R\nopen Mouette.IO Mouette.IOS\nvariable {C : Type}\n\n"
           "/-- `xyz.py: import_xyz`: one iteration of `for v in f.readlines()` on the token line `l` -/\n"
           "def xyzStep (cd : Codec C) (r : Raw C) (l : Line) : Option (Raw C) :=\n  " + step + "\n\n"
           "/-- `import_xyz`: the loop over the lines of the file, starting from an empty RawMeshData -/\n"
           "def importXyz (cd : Codec C) (file : File) : Option (Raw C) := foldOpt (xyzStep cd) Raw.empty file\n\n"
           "/-- `tet.py: parse_tet_data`: `d` is the deque of remaining lines, `r` the RawMeshData under construction -/\n"
           "def parseTet (cd : Codec C) (file : File) : Option (Raw C) :=\n  " + tet + "\n\n"
           "/-- `off.py: parse_off_data`: one iteration of `for _ in range(nf)` on the popped record `l` -/\n"
           "def offRecord (r : Raw C) (l : Line) : Option (Raw C) :=\n  " + offrec + "\n\n"
           "/-- `off.py: parse_off_data` -/\n"
           "def parseOff (cd : Codec C) (file : File) : Option (Raw C) :=\n  " + off + "\n\n"
           "/-- `obj.py: parse_vertex` on a token without '/': (vid, tid, nid) -/\n"
           "def parseVertex (t : Tok) : Option (Nat × Int × Int) :=\n  " + objpv + "\n\n"
           "/-- `obj.py: parse_obj_data`: one iteration of `for line in data`; state = (mesh, the list `faces` of corner triples) -/\n"
           "def objLine (cd : Codec C) (s : Raw C × List (List (Nat × Int × Int))) (l : Line) : Option (Raw C × List (List (Nat × Int × Int))) :=\n  " + objline + "\n\n"
           "/-- … one corner of the second loop: `face.append(vid)`; a normal / texture index leaves the modelled domain -/\n"
           "def objCorner (c : Nat × Int × Int) : Option Nat :=\n  " + objcorner + "\n\n"
           "/-- `parse_obj_data`: the line loop, then `for iF, F in enumerate(faces)`: one face per record, in order -/\n"
           "def parseObj (cd : Codec C) (file : File) : Option (Raw C) :=\n"
           "  match foldOpt (objLine cd) (Raw.empty, []) file with\n  | none => none\n  | some (r, faces) =>\n"
           "  match mapOpt (fun F => mapOpt objCorner F) faces with\n  | none => none\n  | some fs => some { r with faces := r.faces ++ fs }\n\n"
           + medit + "\nend Mouette.Generated.C04R\n")
    return txt, {"import_medit": {"assumed": ["blank lines between blocks are dropped at token level", "an edge record must be a pair (pushElem)"]},
                 "parse_obj_data": {"assumed": ["normals / texture coordinates outside the property (vn, vt, v/vt/vn corners -> outside the domain)",
                                                 "face_corners bookkeeping outside the token-level mesh"]}, "parse_off_data": {"assumed": ["*_corners bookkeeping outside the token-level mesh", "negative counts outside the domain",
                                                 "arity-2 branch (min/max of token strings) outside the domain"]}, "import_xyz": {"assumed": ["the normals side list / attribute is outside the property"]}, "parse_tet_data": {"assumed": []}}


# ------------------------------------------------------------------------------------------------------------------
# generated file: the glue of mesh.py: load / save
# ------------------------------------------------------------------------------------------------------------------
def glue():
    """`mesh.py: load` and `save` statement by statement -> Generated/C04Glue.lean (`load`, `saveContent`)."""
    tree, _ = T.load("mouette/mesh/mesh.py")
    # ---- load(filename, dim, raw)
    fn = T.find_def(tree, "load")
    ps = [a.arg for a in fn.args.args]
    b = norm_body(fn)
    if len(b) != 3: raise TranslateError(f"load: expected three statements, found {len(b)}")
    s1, s2, s3 = b
    if not (isinstance(s1, ast.Assign) and isinstance(s1.targets[0], ast.Name) and isinstance(s1.value, ast.Call) and ast.unparse(s1.value.func) == "read_by_extension"
            and len(s1.value.args) == 1 and ast.unparse(s1.value.args[0]) == ps[0]):
        raise TranslateError(f"load: first statement is not `data = read_by_extension({ps[0]})`")
    d = s1.targets[0].id
    if not (isinstance(s3, ast.Return) and isinstance(s3.value, ast.Call) and ast.unparse(s3.value.func) == "_instanciate_raw_mesh_data" and len(s3.value.args) == 2
            and ast.unparse(s3.value.args[0]) == d and isinstance(s3.value.args[1], ast.Name) and s3.value.args[1].id in ps):
        raise TranslateError("load: last statement is not `return _instanciate_raw_mesh_data(data, dim)`")
    dimp = s3.value.args[1].id
    if not (isinstance(s2, ast.If) and not s2.orelse and len(s2.body) == 1 and isinstance(s2.body[0], ast.Return) and ast.unparse(s2.body[0].value) == d):
        raise TranslateError("load: second statement is not `if <raw>: return data`")
    t = s2.test
    if isinstance(t, ast.Name) and t.id in ps and t.id not in (ps[0], dimp): cond = "raw"
    elif isinstance(t, ast.UnaryOp) and isinstance(t.op, ast.Not) and isinstance(t.operand, ast.Name) and t.operand.id in ps and t.operand.id not in (ps[0], dimp): cond = "(!raw)"
    else: raise TranslateError(f"load: condition `{ast.unparse(t)}` is not the raw switch")
    # ---- save(mesh, filename, ignore_elements)
    fn = T.find_def(tree, "save")
    ps = [a.arg for a in fn.args.args]
    if len(ps) != 3: raise TranslateError("save: expected (mesh, filename, ignore_elements)")
    mesh, fname, ign = ps
    b = norm_body(fn)
    raw, seen_adj, seen_ign, seen_write = None, False, False, False
    for st in b:
        u = ast.unparse(st)
        if isinstance(st, ast.If) and not st.orelse and len(st.body) == 1 and ast.unparse(st.body[0]) == f"{mesh}.connectivity._compute_adjacent_cell()" \
                and f"'.geogram' in {fname}" in ast.unparse(st.test) and not seen_write:
            seen_adj = True; continue           # cell adjacency for geogram (the guard itself is not modelled)
        if isinstance(st, ast.Assign) and isinstance(st.targets[0], ast.Name) and ast.unparse(st.value) == f"RawMeshData({mesh})" and raw is None and not seen_ign:
            raw = st.targets[0].id; continue
        if isinstance(st, ast.If) and ast.unparse(st.test) == f"{ign} is not None" and not st.orelse and raw and not seen_ign and not seen_write:
            seen_ign = True; continue           # its guards are translated by the site of vlib/props/c04.py (Generated.C04Save)
        if raw and u == f"write_by_extension({raw}, {fname})" and st is b[-1] and seen_ign:
            seen_write = True; continue
        raise TranslateError(f"save: statement not recognised or out of order: `{u[:70]}`")
    if not (raw and seen_adj and seen_ign and seen_write): raise TranslateError("save: re-wrap / adjacency / ignore block / write not all found")
    txt = ("import Mouette.Generated.C04Dispatch\nimport Mouette.Generated.C04Save\nnamespace Mouette.Generated.C04G\nopen Mouette.IO Mouette.IO.Tables\n\n"
           "/-- what `load` returns: the RawMeshData itself, or the object built by `_instanciate_raw_mesh_data` (its class; `none`: no class) -/\n"
           "inductive Loaded (α : Type) where\n  | rawData (d : α)\n  | mesh (cls : Option String) (d : α)\nderiving DecidableEq, Repr\n\n"
           "/-- `mesh.py: load(filename, dim, raw)`: `read` = what `read_by_extension` returned (`none`: it raised), `dimensionality` = of the data after\n"
           "`prepare()` (first statement of `_instanciate_raw_mesh_data`) -/\n"
           "def load {α : Type} (read : Option α) (dimensionality : α → Nat) (dimArg : Option Int) (raw : Bool) : Option (Loaded α) :=\n"
           "  match read with\n  | none => none\n  | some data =>\n"
           f"    if {cond} then some (.rawData data)\n    else some (.mesh (Mouette.Generated.C04D.instantiate dimArg (dimensionality data)) data)\n\n"
           "/-- `mesh.py: save(mesh, filename, ignore_elements)`: the content handed to `write_by_extension`: the re-wrapped mesh, with the containers\n"
           "named by the guards of the `if ignore_elements is not None:` block emptied (table `Generated.C04Save.ignoreRows`) -/\n"
           "def saveContent {C : Type} (ignore : Option Ignore) (m : Raw C) : Raw C :=\n"
           "  match ignore with\n  | none => m\n  | some ig => applyIgnoreWith Mouette.Generated.C04Save.ignoreRows ig m\n\n"
           "end Mouette.Generated.C04G\n")
    return txt, {"load": {"raw_switch": cond}, "save": {"order": ["adjacency for geogram", "re-wrap", "ignore block", "write_by_extension"]}}


# ------------------------------------------------------------------------------------------------------------------
# generated file: geogram_ascii.py import_attribute
# ------------------------------------------------------------------------------------------------------------------
def attr_import():
    """`geogram_ascii.py: import_attribute(chk, attr)` -> Generated/C04Attr.lean.
    Recognised: the loop `for i in range(len(chk.data) // chk.n_data)`, the row built by the inner `for j in range(n): val.append(chk.data[n*i + j])`
    (or, equivalently, the slice `chk.data[n*i : n*(i+1)]` / `[n*i : n*i + n]`), an optional alias `n = chk.n_data`, and the two stores
    `if n == 1 and val[0] != attr.default_value: attr[i] = val[0]` / `elif n > 1: attr[i] = val`.
    The comparison with the default must be the exact `!=` (a tolerant or truthiness test is NOT the same thing: TranslateError)."""
    tree, _ = T.load("mouette/mesh/io/geogram_ascii.py")
    fn = T.find_def(tree, "import_attribute")
    ps = [a.arg for a in fn.args.args]
    if len(ps) != 2: raise TranslateError("import_attribute: expected (chk, attr)")
    chk, attr = ps
    body = norm_body(fn)
    nd = {f"{chk}.n_data"}
    while body and isinstance(body[0], ast.Assign) and isinstance(body[0].targets[0], ast.Name) and ast.unparse(body[0].value) in nd:
        nd.add(body[0].targets[0].id); body = body[1:]
    if len(body) != 1 or not isinstance(body[0], ast.For) or not isinstance(body[0].target, ast.Name) or body[0].orelse:
        raise TranslateError("import_attribute: body is not one `for i in range(…)` loop")
    loop = body[0]
    i = loop.target.id
    if not any(ast.unparse(loop.iter) == f"range(len({chk}.data) // {n})" for n in nd):
        raise TranslateError(f"import_attribute: loop bound `{ast.unparse(loop.iter)}` is not `range(len(chk.data) // chk.n_data)`")
    lb = list(loop.body)
    # the row
    val = None
    if len(lb) >= 2 and isinstance(lb[0], ast.Assign) and isinstance(lb[0].targets[0], ast.Name) and ast.unparse(lb[0].value) == "[]" \
            and isinstance(lb[1], ast.For) and isinstance(lb[1].target, ast.Name) and any(ast.unparse(lb[1].iter) == f"range({n})" for n in nd):
        val, j = lb[0].targets[0].id, lb[1].target.id
        ok = len(lb[1].body) == 1 and any(ast.unparse(lb[1].body[0]) in (f"{val}.append({chk}.data[{n} * {i} + {j}])", f"{val}.append({chk}.data[{i} * {n} + {j}])") for n in nd)
        if not ok: raise TranslateError(f"import_attribute: inner loop is not `val.append(chk.data[n * i + j])`: `{ast.unparse(lb[1].body[0])[:60]}`")
        lb = lb[2:]
    elif lb and isinstance(lb[0], ast.Assign) and isinstance(lb[0].targets[0], ast.Name):
        u = ast.unparse(lb[0].value)
        if any(u in (f"{chk}.data[{n} * {i}:{n} * ({i} + 1)]", f"{chk}.data[{n} * {i}:{n} * {i} + {n}]") for n in nd):
            val = lb[0].targets[0].id; lb = lb[1:]
    if val is None: raise TranslateError("import_attribute: the row `val` of element i is not built in a recognised way")
    if len(lb) != 1 or not isinstance(lb[0], ast.If): raise TranslateError("import_attribute: the stores are not one if/elif")
    st = lb[0]
    t = st.test
    ok = (isinstance(t, ast.BoolOp) and isinstance(t.op, ast.And) and len(t.values) == 2 and any(ast.unparse(t.values[0]) == f"{n} == 1" for n in nd)
          and ast.unparse(t.values[1]) == f"{val}[0] != {attr}.default_value" and len(st.body) == 1 and ast.unparse(st.body[0]) == f"{attr}[{i}] = {val}[0]")
    if not ok:
        raise TranslateError(f"import_attribute: scalar store is not `if n == 1 and val[0] != attr.default_value: attr[i] = val[0]` (found `if {ast.unparse(t)[:70]}`): "
                             "only the exact comparison with the default keeps every value")
    if not (len(st.orelse) == 1 and isinstance(st.orelse[0], ast.If) and not st.orelse[0].orelse and any(ast.unparse(st.orelse[0].test) == f"1 < {n}" for n in nd)
            and len(st.orelse[0].body) == 1 and ast.unparse(st.orelse[0].body[0]) == f"{attr}[{i}] = {val}"):
        raise TranslateError("import_attribute: vector store is not `elif n > 1: attr[i] = val`")
    txt = ("import Mouette.Model.IOSourceAttr\nnamespace Mouette.Generated.C04A\nopen Mouette.IOS\nvariable {V : Type} [DecidableEq V]\n\n"
           "/-- `geogram_ascii.py: import_attribute(chk, attr)`: `nData` = chk.n_data, `data` = chk.data -/\n"
           "def importAttribute (nData : Nat) (data : List V) (attr : SAttr V) : SAttr V :=\n"
           "  List.foldl (fun (attr : SAttr V) (i : Nat) =>\n"
           "    let val : List V := List.foldl (fun (val : List V) (j : Nat) => val ++ [data.getD (nData * i + j) attr.dflt]) [] (List.range nData)\n"
           "    if (nData == 1) && (val.getD 0 attr.dflt != attr.dflt) then attr.set i [val.getD 0 attr.dflt]\n"
           "    else if decide (1 < nData) then attr.set i val\n"
           "    else attr) attr (List.range (data.length / nData))\n\n"
           "end Mouette.Generated.C04A\n")
    return txt, {"import_attribute": {"row": "loop or slice", "default test": "val[0] != attr.default_value"}}


# ------------------------------------------------------------------------------------------------------------------
# generated file: the thin wrappers import_obj / import_off / import_tet / export_stl / import_stl
# ------------------------------------------------------------------------------------------------------------------
def wrappers():
    """-> Generated/C04Wrap.lean.  `open(path).readlines()` -> the token-level file is the glue; everything else is read statement by
    statement: which parser is called on the lines and returned; `export_stl`: guard, binary mode, `Binary_STL_Writer(fp).write(mesh)`;
    `import_stl`: ascii test -> `_import_stl_ascii`, otherwise the external `stl_reader.read` whose (vertices, faces) are appended."""
    out = ["import Mouette.Generated.C04Readers\nimport Mouette.Generated.C04Writers\nnamespace Mouette.Generated.C04Wrap\nopen Mouette.IO Mouette.IOS\nvariable {C : Type}\n"]
    detail = {}
    for rel, name, parser, lean, target in (("obj", "import_obj", "parse_obj_data", "importObj", "parseObj"), ("off", "import_off", "parse_off_data", "importOff", "parseOff"),
                                            ("tet", "import_tet", "parse_tet_data", "importTet", "parseTet")):
        tree, _ = T.load(f"mouette/mesh/io/{rel}.py")
        fn = T.find_def(tree, name)
        b = norm_body(fn)
        p = fn.args.args[0].arg
        ok = len(b) == 2 and isinstance(b[0], ast.With) and len(b[0].items) == 1 and isinstance(b[0].items[0].optional_vars, ast.Name) and len(b[0].body) in (1, 2) \
            and isinstance(b[1], ast.Return) and isinstance(b[1].value, ast.Name)
        if ok:
            f = b[0].items[0].optional_vars.id
            wb = [ast.unparse(x) for x in b[0].body]
            arg = f"{f}.readlines()"
            if len(wb) == 2:        # `lines = f.readlines()` first
                m = re.fullmatch(rf"(\w+) = {f}\.readlines\(\)", wb[0])
                ok = m is not None
                if ok: arg = m.group(1)
            ok = ok and ast.unparse(b[0].items[0].context_expr).replace(" ", "") == f"open({p},'r')" and wb[-1] == f"{b[1].value.id} = {parser}({arg})"
        if not ok: raise TranslateError(f"{name}: body is not `with open(path, 'r') as f: out = {parser}(f.readlines())` / `return out`")
        out.append(f"/-- `{rel}.py: {name}`: the lines of the file handed to `{parser}` -/\ndef {lean} (cd : Codec C) (file : File) : Option (Raw C) := Mouette.Generated.C04R.{target} cd file\n")
        detail[name] = parser
    tree, _ = T.load("mouette/mesh/io/stl.py")
    # export_stl
    fn = T.find_def(tree, "export_stl")
    mesh, path = (a.arg for a in fn.args.args)
    b = norm_body(fn)
    if b and isinstance(b[0], ast.If) and ast.unparse(b[0].test) == f"not hasattr({mesh}, 'faces')" and all(isinstance(x, ast.Return) and x.value is None for x in b[0].body) and not b[0].orelse:
        b = b[1:]           # a RawMeshData always has a `faces` container
    ok = len(b) == 1 and isinstance(b[0], ast.With) and isinstance(b[0].items[0].optional_vars, ast.Name) and len(b[0].body) == 2
    if ok:
        fp = b[0].items[0].optional_vars.id
        ok = ast.unparse(b[0].items[0].context_expr).replace(" ", "") == f"open({path},'wb')"
        m1 = re.fullmatch(rf"(\w+) = Binary_STL_Writer\({fp}\)", ast.unparse(b[0].body[0]))
        ok = ok and m1 is not None and ast.unparse(b[0].body[1]) == f"{m1.group(1)}.write({mesh})"
    if not ok: raise TranslateError("export_stl: body is not `with open(path, 'wb') as fp: writer = Binary_STL_Writer(fp); writer.write(mesh)`")
    out.append("/-- `stl.py: export_stl`: a fresh `Binary_STL_Writer` on the binary file, `write(mesh)` -/\n"
               "def exportStl (cd : Codec C) (m : Raw C) : Option File := Mouette.Generated.C04W.exportStl cd m\n")
    # import_stl
    fn = T.find_def(tree, "import_stl")
    path = fn.args.args[0].arg
    b = norm_body(fn)
    if len(b) == 6 and isinstance(b[0], ast.If) and not b[0].orelse:        # `if ascii: return …` followed by the binary branch without `else`
        b0 = copy.copy(b[0]); b0.orelse = b[1:]; b = [b0]
    ok = len(b) == 1 and isinstance(b[0], ast.If) and ast.unparse(b[0].test) == f"is_stl_ascii({path})" and len(b[0].body) == 1 \
        and ast.unparse(b[0].body[0]) == f"return _import_stl_ascii({path})" and len(b[0].orelse) == 5
    if ok:
        e = [ast.unparse(x) for x in b[0].orelse]
        m0 = re.fullmatch(rf"(\w+), (\w+) = stl_reader\.read\({path}\)", e[0])
        m1 = re.fullmatch(r"(\w+) = RawMeshData\(\)", e[1])
        ok = m0 is not None and m1 is not None
        if ok:
            o = m1.group(1)
            ok = e[2] == f"{o}.vertices += list({m0.group(1)})" and e[3] == f"{o}.faces += list({m0.group(2)})" and e[4] == f"return {o}"
    if not ok: raise TranslateError("import_stl: body is not `if is_stl_ascii(path): return _import_stl_ascii(path)` / `else: vertices, faces = stl_reader.read(path); …`")
    out.append("/-- `stl.py: import_stl`: `ascii` = is_stl_ascii(path), `asciiResult` = what `_import_stl_ascii` returns, `ext` = the (vertices, faces) of the\n"
               "external `stl_reader.read` (`none`: it raised) -/\n"
               "def importStl (ascii : Bool) (asciiResult : Option (Raw C)) (ext : Option (List (C × C × C) × List (List Nat))) : Option (Raw C) :=\n"
               "  if ascii then asciiResult\n  else match ext with\n    | none => none\n    | some (vs, fs) => some { verts := vs, faces := fs }\n")
    out.append("end Mouette.Generated.C04Wrap\n")
    return "\n".join(out), detail


# ------------------------------------------------------------------------------------------------------------------
# generated file: geogram_ascii.py export_attribute, is_chunk_header
# ------------------------------------------------------------------------------------------------------------------
def geo_writer():
    """`geogram_ascii.py: export_attribute(f, size, container, attr, attr_name)` statement by statement, and the chunk markers of
    `is_chunk_header` -> Generated/C04GeoW.lean.
    The attribute is seen through `AView` (Model/IOSourceGeo.lean): `attr.type`, `attr.elemsize`, the text `'{}'.format(attr[i][j])` and the
    text of `int(attr[i][j])`.  A value written between double quotes is ONE token (`quoted`); a value alone on its line is a token; anything
    else glued to a placeholder, a format spec, `str()` -> TranslateError."""
    tree, _ = T.load("mouette/mesh/io/geogram_ascii.py")
    fn = T.find_def(tree, "export_attribute")
    ps = [a.arg for a in fn.args.args]
    if len(ps) != 5: raise TranslateError("export_attribute: expected (f, size, container, attr, attr_name)")
    f, size, container, attr, aname = ps
    body = norm_body(fn)
    name = "export_attribute"

    def value(e, env):
        """a formatted value -> lean Tok expr (`quoted` decided by the caller)"""
        u = ast.unparse(e)
        if u == container: return ("str", "container")
        if u == aname: return ("str", "attrName")
        if u == f"{attr}.type.to_string()": return ("str", "typeString a.typ")
        if u == f"{attr}.type.byte_size()": return ("tok", "fmtI (byteSize a.typ)")
        if u == f"{attr}.elemsize": return ("tok", "fmtI a.dim")
        i, j = env.get("i"), env.get("j")
        if i and u == f"{attr}[{i}]": return ("tok", f"a.fmt {env['li']} 0")
        if i and u == f"int({attr}[{i}])": return ("tok", f"a.asInt {env['li']} 0")
        if i and j and u == f"{attr}[{i}][{j}]": return ("tok", f"a.fmt {env['li']} {env['lj']}")
        if i and j and u == f"int({attr}[{i}][{j}])": return ("tok", f"a.asInt {env['li']} {env['lj']}")
        raise TranslateError(f"{name}: written value `{u[:50]}` not recognised")

    def parts(e, env):
        """string expression -> list of ('lit', s) | ('val', kind, lean)"""
        if isinstance(e, ast.Constant) and isinstance(e.value, str): return [("lit", e.value)]
        if isinstance(e, ast.JoinedStr):
            out = []
            for v in e.values:
                if isinstance(v, ast.Constant): out.append(("lit", v.value))
                elif isinstance(v, ast.FormattedValue) and v.conversion == -1 and v.format_spec is None: out.append(("val",) + value(v.value, env))
                else: raise TranslateError(f"{name}: format spec / conversion in `{ast.unparse(e)[:50]}`")
            return out
        if isinstance(e, ast.Call) and isinstance(e.func, ast.Attribute) and e.func.attr == "format" and isinstance(e.func.value, ast.Constant) and not e.keywords:
            out, k = [], 0
            for lit, nm, spec, conv in string.Formatter().parse(e.func.value.value):
                if lit: out.append(("lit", lit))
                if nm is not None:
                    if nm != "" or spec or conv or k >= len(e.args): raise TranslateError(f"{name}: placeholder not plain `{{}}` in `{ast.unparse(e)[:50]}`")
                    out.append(("val",) + value(e.args[k], env)); k += 1
            if k != len(e.args): raise TranslateError(f"{name}: placeholders / arguments mismatch in `{ast.unparse(e)[:50]}`")
            return out
        raise TranslateError(f"{name}: string expression `{ast.unparse(e)[:50]}` not recognised")

    def lines_of(e, env):
        """one datum per line: each line is a literal word, a bare value, or a value between double quotes"""
        ps_ = parts(e, env)
        lines, cur = [], []
        for p in ps_:
            if p[0] == "lit":
                chunks = p[1].split("\n")
                for k, c in enumerate(chunks):
                    if k > 0: lines.append(cur); cur = []
                    if c: cur.append(("lit", c))
            else: cur.append(p)
        if cur: raise TranslateError(f"{name}: write(`{ast.unparse(e)[:40]}`) does not end a line")
        out = []
        for ln in lines:
            if len(ln) == 1 and ln[0][0] == "lit" and len(ln[0][1].split()) == 1: out.append(f"([{_word(ln[0][1].strip())}] : Line)")
            elif len(ln) == 1 and ln[0][0] == "val" and ln[0][1] == "tok": out.append(f"([{ln[0][2]}] : Line)")
            elif len(ln) == 3 and ln[0] == ("lit", '"') and ln[2] == ("lit", '"') and ln[1][0] == "val" and ln[1][1] == "str": out.append(f"([quoted ({ln[1][2]})] : Line)")
            elif not ln: raise TranslateError(f"{name}: empty line written")
            else: raise TranslateError(f"{name}: line `{ln}` is not one datum (a word, a value, or a value between double quotes)")
        return out

    def cond(t):
        u = ast.unparse(t)
        if u == f"{attr}.elemsize == 1": return "(a.dim == 1)"
        if u == f"{attr}.type == Attribute.Type.Bool": return "(a.typ == AType.bool)"
        raise TranslateError(f"{name}: condition `{u[:50]}` not recognised")

    def block(stmts, env, ind):
        pad = "  " * ind
        if not stmts: return "([] : File)"
        s, rest = stmts[0], stmts[1:]
        if isinstance(s, ast.Expr) and isinstance(s.value, ast.Call) and ast.unparse(s.value.func) == f"{f}.write" and len(s.value.args) == 1:
            return "[" + ", ".join(lines_of(s.value.args[0], env)) + f"] ++\n{pad}" + block(rest, env, ind)
        if isinstance(s, ast.If):
            return (f"(if {cond(s.test)} then\n{pad}    ({block(s.body, env, ind + 2)})\n{pad}  else\n{pad}    ({block(s.orelse, env, ind + 2)})) ++\n{pad}" + block(rest, env, ind))
        if isinstance(s, ast.For) and not s.orelse and isinstance(s.target, ast.Name):
            u = ast.unparse(s.iter)
            env2 = dict(env)
            if u == f"range({size})" and "i" not in env: env2.update(i=s.target.id, li="i"); v, l = "i", "List.range size"
            elif u == f"range({attr}.elemsize)" and "i" in env and "j" not in env: env2.update(j=s.target.id, lj="j"); v, l = "j", "List.range a.dim"
            else: raise TranslateError(f"{name}: loop `for {s.target.id} in {u[:40]}` not recognised")
            return f"List.flatMap (fun ({v} : Nat) =>\n{pad}    {block(s.body, env2, ind + 2)}) ({l}) ++\n{pad}" + block(rest, env, ind)
        raise TranslateError(f"{name}: statement not recognised: `{ast.unparse(s)[:60]}`")
    txt_attr = block(body, {}, 1)
    # ---- is_chunk_header: `"[HEAD]" in line or "[ATTS]" in line or "[ATTR]" in line`
    hb = norm_body(T.find_def(tree, "is_chunk_header"))
    line = T.find_def(tree, "is_chunk_header").args.args[0].arg
    if not (len(hb) == 1 and isinstance(hb[0], ast.Return) and isinstance(hb[0].value, ast.BoolOp) and isinstance(hb[0].value.op, ast.Or)):
        raise TranslateError("is_chunk_header: body is not `return \"…\" in line or …`")
    marks = []
    for v in hb[0].value.values:
        if not (isinstance(v, ast.Compare) and len(v.ops) == 1 and isinstance(v.ops[0], ast.In) and isinstance(v.left, ast.Constant) and isinstance(v.left.value, str)
                and ast.unparse(v.comparators[0]) == line):
            raise TranslateError(f"is_chunk_header: operand `{ast.unparse(v)[:40]}` is not `\"[…]\" in line`")
        marks.append(v.left.value)
    txt = ("import Mouette.Model.IOSourceGeo\nnamespace Mouette.Generated.C04GW\nopen Mouette.IO Mouette.IO.Geo Mouette.IOS\n\n"
           "/-- `geogram_ascii.py: export_attribute(f, size, container, attr, attr_name)` -/\n"
           "def exportAttribute (size : Nat) (container attrName : String) (a : AView) : File :=\n  " + txt_attr + "\n\n"
           "/-- `geogram_ascii.py: is_chunk_header`: the markers that start a chunk (sorted: `or` is commutative) -/\n"
           "def chunkMarkers : List String := [" + ", ".join(lean_str(m) for m in sorted(marks)) + "]\n\n"
           "end Mouette.Generated.C04GW\n")
    return txt, {"export_attribute": "ok", "is_chunk_header": sorted(marks)}
