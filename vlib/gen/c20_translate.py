"""C20 translated fragments: Python `ast` -> Lean (lean/Mouette/Generated/C20UF.lean, C20PQ.lean), re-extracted on every run
from $MOUETTE_REPO/mouette/utils/unionfind.py and priority_queue.py.

UnionFind.  Every method on the whitelist is read IMPERATIVELY and compiled to a state-passing Lean definition over
`Mouette.UFS.St` (the hand model's state record plus the dict `_indx`; vocabulary in Model/UFSource.lean):

  pure methods   (`__len__`, `__contains__`)            `St -> args -> T`
  total methods  (`add`, `__init__`)                    `St -> args -> St`
  raising ones   (`find`, `connected`, `union`,
                  `component`, `roots`)                 `St -> args -> Option (St x T)`     (`none` = the exception)

  statement forms: guard `if c: return` / `if c: raise E(..)`; `self._L.append(e)`; `self._indx[k] = e`; `self._L[i] = e`;
  `self._L[i] += e`; `self.counter += e` / `-= e` / `= self.counter + e`; local `v = e`; `if/else` (branches that only
  update state become `let s := if .. then .. else ..`, others duplicate the continuation); `while c: body` (body = state
  updates + ONE loop-carried local -> `<m>Cond`, `<m>Body`, `<m>Loop` on a fuel argument); `for v in [a, b]: body`
  (unrolled); `for v in <parameter>: self.m(v)` (foldl); calls `self.m(args)` (left-to-right, state threaded);
  `set(<elt> for v in self._elts [if c])` (a fold `<m>Gen<k>`).
  round 4: `self._siz[a] < self._siz[b]` (or `<=`) in `union` -> `sizCmp (..) (..)` with the definition `sizCmp` emitted from the
  operator found (the bridges and history theorems are proved for ANY comparison, the height bound for any size order);
  `self._elts[i]`; `components()` imperatively: `roots = self.roots()`, `dict((k, v) for i, r in enumerate(<local list>))` / the
  dict comprehension, `[[] for _ in <local list>]`, `d[k]` on a local dict (KeyError = none), `for e in self._elts:` with local
  assignments, calls and ONE local list of lists mutated by `L[i].append(x)` (IndexError = none) -> the fold `<m>For<k>Step`.
  round 5: `component_mapping()` imperatively: a local `{}` (insertion-ordered dict whose values are sets), `D.setdefault(k, set()).add(x)`
  inside the loop over `self._elts` (`dsAdd`), `for comp in D.values(): C.update({x: comp for x in comp})` (`dsUpdate`); `__setitem__`
  (`self._elts[i] = x`). A site that raises overwrites its Generated file with a stub, so that nothing of an earlier tree stays on disk.

Tolerated respellings (normalised away before compiling, so the generated text and the bridges do not change):
  renamed locals / parameters; `not a == b` = `a != b`; `not a in b` = `a not in b`; `a > b` = `b < a`; `a >= b` = `b <= a`;
  operand order of `==`/`!=` between call-free operands; `self.c = self.c + e` = `self.c += e`; `+= 1` vs `= .. + 1`;
  docstrings, comments, `pass`, type annotations; `import heapq as <any alias>` / `from heapq import heappush`.
Anything else raises TranslateError -> the site is a broken obligation -> failing-input search (props/c20.py).
"""
import ast
import copy

from .. import translate as T
from ..translate import TranslateError

UF_FILE = "mouette/utils/unionfind.py"
PQ_FILE = "mouette/utils/priority_queue.py"

FIELDS = {"_elts": "elts", "_indx": "indx", "_par": "par", "_siz": "siz", "_next": "next", "n_elts": "nElts", "n_comps": "nComps"}
LISTS = {"_elts", "_par", "_siz"}
COUNTERS = {"_next", "n_elts", "n_comps"}
LEAN_NAME = {"__len__": "len", "__contains__": "contains", "__init__": "ctor", "__getitem__": "getitem", "__setitem__": "setitem",
             "component_mapping": "componentMapping"}
EXC = {"ValueError": ".valueError", "KeyError": ".keyError", "IndexError": ".indexError", "TypeError": ".typeError"}
TY = {"nat": "Nat", "bool": "Bool", "unit": "Unit", "natlist": "List Nat", "dict": "Dict", "listlist": "List (List Nat)", "dictset": "DictS"}


# ------------------------------------------------------------------------------------------------------------------
# normalisation
# ------------------------------------------------------------------------------------------------------------------
def _callfree(n):
    return not any(isinstance(x, ast.Call) for x in ast.walk(n))


def _is_self_attr(n, name=None):
    return isinstance(n, ast.Attribute) and isinstance(n.value, ast.Name) and n.value.id == "self" and (name is None or n.attr == name)


class Norm(ast.NodeTransformer):
    def visit_UnaryOp(self, n):
        self.generic_visit(n)
        if isinstance(n.op, ast.Not) and isinstance(n.operand, ast.Compare) and len(n.operand.ops) == 1:
            c = n.operand
            flip = {ast.Eq: ast.NotEq, ast.NotEq: ast.Eq, ast.In: ast.NotIn, ast.NotIn: ast.In, ast.Is: ast.IsNot, ast.IsNot: ast.Is}
            if type(c.ops[0]) in flip:
                return ast.copy_location(ast.Compare(c.left, [flip[type(c.ops[0])]()], c.comparators), n)
        return n

    def visit_Compare(self, n):
        self.generic_visit(n)
        if len(n.ops) == 1:
            op, a, b = n.ops[0], n.left, n.comparators[0]
            if isinstance(op, (ast.Gt, ast.GtE)) and _callfree(a) and _callfree(b):
                return ast.copy_location(ast.Compare(b, [ast.Lt() if isinstance(op, ast.Gt) else ast.LtE()], [a]), n)
            if isinstance(op, (ast.Eq, ast.NotEq)) and _callfree(a) and _callfree(b) and ast.unparse(a) > ast.unparse(b):
                return ast.copy_location(ast.Compare(b, [op], [a]), n)
        return n

    def visit_Assign(self, n):
        self.generic_visit(n)
        if len(n.targets) == 1 and isinstance(n.value, ast.BinOp) and isinstance(n.value.op, (ast.Add, ast.Sub)):
            t, v = n.targets[0], n.value
            if isinstance(t, (ast.Attribute, ast.Subscript)):
                if ast.unparse(v.left) == ast.unparse(t):
                    return ast.copy_location(ast.AugAssign(t, v.op, v.right), n)
                if isinstance(v.op, ast.Add) and ast.unparse(v.right) == ast.unparse(t) and _callfree(v.left):
                    return ast.copy_location(ast.AugAssign(t, v.op, v.left), n)
        return n

    def visit_AnnAssign(self, n):
        self.generic_visit(n)
        if n.value is None: return None
        return ast.copy_location(ast.Assign([n.target], n.value), n)


def _body(fn):
    """statements without docstring / pass, normalised"""
    fn = Norm().visit(copy.deepcopy(fn))
    ast.fix_missing_locations(fn)
    out = []
    for s in fn.body:
        if isinstance(s, ast.Expr) and isinstance(s.value, ast.Constant): continue
        if isinstance(s, ast.Pass): continue
        out.append(s)
    return out


def _strip(stmts):
    return [s for s in stmts if not (isinstance(s, ast.Pass) or (isinstance(s, ast.Expr) and isinstance(s.value, ast.Constant)))]


# ------------------------------------------------------------------------------------------------------------------
# effect analysis (which methods raise / mutate), on the class as it is now
# ------------------------------------------------------------------------------------------------------------------
def _self_calls(fn):
    out = []
    for n in ast.walk(fn):
        if isinstance(n, ast.Call) and _is_self_attr(n.func):
            out.append(n.func.attr)
        if isinstance(n, ast.Compare) and any(isinstance(o, (ast.In, ast.NotIn)) for o in n.ops) and \
                any(isinstance(c, ast.Name) and c.id == "self" for c in n.comparators):
            out.append("__contains__")
        if isinstance(n, ast.Call) and isinstance(n.func, ast.Name) and n.func.id == "len" and n.args and \
                isinstance(n.args[0], ast.Name) and n.args[0].id == "self":
            out.append("__len__")
    return out


def _writes_state(fn):
    for n in ast.walk(fn):
        tg = []
        if isinstance(n, ast.Assign): tg = n.targets
        if isinstance(n, ast.AugAssign): tg = [n.target]
        for t in tg:
            base = t.value if isinstance(t, ast.Subscript) else t
            if _is_self_attr(base): return True
        if isinstance(n, ast.Call) and isinstance(n.func, ast.Attribute) and n.func.attr in ("append", "pop", "clear", "extend", "insert", "remove", "update", "setdefault") \
                and _is_self_attr(n.func.value):
            return True
    return False


def effects(cls):
    methods = {f.name: f for f in cls.body if isinstance(f, ast.FunctionDef)}
    raises = {m: any(isinstance(n, ast.Raise) for n in ast.walk(f)) for m, f in methods.items()}
    mutates = {m: _writes_state(f) for m, f in methods.items()}
    changed = True
    while changed:
        changed = False
        for m, f in methods.items():
            for c in _self_calls(f):
                if c in methods:
                    if raises[c] and not raises[m]: raises[m] = True; changed = True
                    if mutates[c] and not mutates[m]: mutates[m] = True; changed = True
    return methods, raises, mutates


# ------------------------------------------------------------------------------------------------------------------
# the compiler
# ------------------------------------------------------------------------------------------------------------------
class Unit:
    """one class being compiled: knows the kind and the Lean signature of every method compiled so far"""

    def __init__(self, cls):
        self.methods, self.raises, self.mutates = effects(cls)
        self.sig = {}        # python method name -> {kind, lean, params:[types], ret}
        self.out = []        # Lean text of the definitions, in order
        self.exc = []        # (lean method name, exception constructor)
        self.sizcmp = None   # the operator of the size comparison of `union` ("<" or "≤")

    def kind(self, m):
        if self.raises[m]: return "partial"
        if self.mutates[m]: return "total"
        return "pure"


class Meth:
    def __init__(self, unit, pyname, param_types=None, ret=None):
        self.u = unit
        self.py = pyname
        self.lean = LEAN_NAME.get(pyname, pyname)
        fn = unit.methods.get(pyname)
        if fn is None: raise TranslateError(f"method {pyname} not found")
        self.fn = fn
        a = fn.args
        if a.vararg or a.kwarg or a.kwonlyargs or a.posonlyargs: raise TranslateError(f"{pyname}: unsupported signature")
        names = [x.arg for x in a.args]
        if not names or names[0] != "self": raise TranslateError(f"{pyname}: first parameter is not self")
        self.params = names[1:]
        self.ptypes = param_types or ["nat"] * len(self.params)
        if len(self.ptypes) != len(self.params): raise TranslateError(f"{pyname}: expected {len(self.ptypes)} parameters, found {self.params}")
        self.kind = unit.kind(pyname)
        self.locals = {}
        for p, t in zip(self.params, self.ptypes): self.locals[p] = ("v_" + p, t)
        self.ret = ret
        self.ntmp = 0
        self.nloop = 0
        self.ngen = 0
        self.aux = []

    # -- helpers -------------------------------------------------------------------------------------------------
    def tmp(self):
        self.ntmp += 1
        return f"t{self.ntmp}"

    def setret(self, ty):
        if self.ret is None: self.ret = ty
        elif self.ret != ty: raise TranslateError(f"{self.py}: returns both {self.ret} and {ty}")

    def retval(self, text, ty):
        self.setret(ty)
        if self.kind == "partial": return f"some (s, {text})"
        if self.kind == "total": return "s" if ty == "unit" else f"(s, {text})"
        return text

    def wrap(self, pre, ind, inner):
        """emit the pending calls (left to right) in front of `inner`"""
        if not pre: return inner
        out = ""
        for (fn, args, tmp) in pre:
            if self.kind != "partial": raise TranslateError(f"{self.py}: calls a raising method but is not itself raising")
            if fn is None:       # a read that may raise (KeyError / IndexError) but does not touch the state
                out += f"{ind}match {args} with\n{ind}| none => none\n{ind}| some {tmp} =>\n"
            else:
                out += f"{ind}match {fn} s{''.join(' ' + a for a in args)} with\n{ind}| none => none\n{ind}| some (s, {tmp}) =>\n"
        return out + inner

    # -- expressions ---------------------------------------------------------------------------------------------
    def cexpr(self, n, pre):
        """-> (lean text, type); calls to raising/mutating methods are appended to `pre` and replaced by a temporary"""
        if isinstance(n, ast.Constant):
            if isinstance(n.value, bool): return ("true" if n.value else "false"), "bool"
            if isinstance(n.value, int) and n.value >= 0: return str(n.value), "nat"
            raise TranslateError(f"{self.py}: unsupported constant {n.value!r}")
        if isinstance(n, ast.Name):
            if n.id in self.locals: return self.locals[n.id]
            raise TranslateError(f"{self.py}: unbound name {n.id}")
        if _is_self_attr(n):
            if n.attr in COUNTERS: return f"s.{FIELDS[n.attr]}", "nat"
            raise TranslateError(f"{self.py}: attribute self.{n.attr} used as a value")
        if isinstance(n, ast.Subscript) and _is_self_attr(n.value):
            i, ti = self.cexpr(n.slice, pre)
            if ti != "nat": raise TranslateError(f"{self.py}: index of type {ti}")
            f = n.value.attr
            if f == "_par": return f"(parent s.par {i})", "nat"
            if f == "_siz": return f"(sizAt s.siz {i})", "nat"
            if f == "_indx": return f"(dget s.indx {i})", "nat"
            if f == "_elts": return f"(eltAt s.elts {i})", "nat"
            raise TranslateError(f"{self.py}: subscript of self.{f}")
        if isinstance(n, ast.Subscript) and isinstance(n.value, ast.Name) and self.locals.get(n.value.id, (None, None))[1] == "dict":
            # `d[k]` on a local dict: KeyError when absent
            k, tk = self.cexpr(n.slice, pre)
            if tk != "nat": raise TranslateError(f"{self.py}: key of type {tk}")
            t = self.tmp()
            pre.append((None, f"dlookup {self.locals[n.value.id][0]} {k}", t))
            return t, "nat"
        if isinstance(n, ast.UnaryOp) and isinstance(n.op, ast.Not):
            e, t = self.cexpr(n.operand, pre)
            if t != "bool": raise TranslateError(f"{self.py}: `not` of a {t}")
            return f"(!{e})", "bool"
        if isinstance(n, ast.BoolOp):
            parts = [self.cexpr(v, pre) for v in n.values]
            if any(t != "bool" for _, t in parts): raise TranslateError(f"{self.py}: and/or of non-booleans")
            if len(pre): raise TranslateError(f"{self.py}: call inside a short-circuit operator")
            op = " && " if isinstance(n.op, ast.And) else " || "
            return "(" + op.join(e for e, _ in parts) + ")", "bool"
        if isinstance(n, ast.BinOp) and isinstance(n.op, (ast.Add, ast.Sub)):
            a, ta = self.cexpr(n.left, pre); b, tb = self.cexpr(n.right, pre)
            if ta != "nat" or tb != "nat": raise TranslateError(f"{self.py}: arithmetic on {ta},{tb}")
            return f"({a} {'+' if isinstance(n.op, ast.Add) else '-'} {b})", "nat"
        if isinstance(n, ast.Compare) and len(n.ops) == 1:
            op, a, b = n.ops[0], n.left, n.comparators[0]
            if isinstance(op, (ast.In, ast.NotIn)):
                k, tk = self.cexpr(a, pre)
                if tk != "nat": raise TranslateError(f"{self.py}: membership test of a {tk}")
                if _is_self_attr(b, "_indx"): r = f"(dmem s.indx {k})"
                elif isinstance(b, ast.Name) and b.id == "self": r = self.call("__contains__", [k], pre)[0]
                else: raise TranslateError(f"{self.py}: membership in {ast.unparse(b)}")
                return (r if isinstance(op, ast.In) else f"(!{r})"), "bool"
            ea, ta = self.cexpr(a, pre); eb, tb = self.cexpr(b, pre)
            if ta != "nat" or tb != "nat": raise TranslateError(f"{self.py}: comparison of {ta} and {tb}")
            sym = {ast.Eq: "=", ast.NotEq: "≠", ast.Lt: "<", ast.LtE: "≤"}.get(type(op))
            if sym is None: raise TranslateError(f"{self.py}: comparison operator {type(op).__name__}")
            if self.py == "union" and sym in ("<", "≤") and all(isinstance(z, ast.Subscript) and _is_self_attr(z.value, "_siz") for z in (a, b)):
                # THE size comparison of union by size: extracted as the definition `sizCmp` (either spelling is a size order)
                if self.u.sizcmp not in (None, sym): raise TranslateError("union: two size comparisons with different operators")
                self.u.sizcmp = sym
                return f"(sizCmp {ea} {eb})", "bool"
            return f"decide ({ea} {sym} {eb})", "bool"
        if isinstance(n, ast.Call):
            if _is_self_attr(n.func):
                if n.keywords: raise TranslateError(f"{self.py}: keyword arguments")
                args = []
                for a in n.args:
                    e, t = self.cexpr(a, pre)
                    args.append((e, t))
                return self.call(n.func.attr, [e for e, _ in args], pre, [t for _, t in args])
            if isinstance(n.func, ast.Name) and n.func.id == "len" and len(n.args) == 1 and isinstance(n.args[0], ast.Name) and n.args[0].id == "self":
                return self.call("__len__", [], pre)
            if isinstance(n.func, ast.Name) and n.func.id == "set" and len(n.args) == 1 and isinstance(n.args[0], (ast.GeneratorExp, ast.ListComp)):
                e, t = self.cgen(n.args[0], pre)
                return f"(setOf {e})", "natlist"
            if isinstance(n.func, ast.Name) and n.func.id == "dict" and len(n.args) == 1 and not n.keywords and isinstance(n.args[0], (ast.GeneratorExp, ast.ListComp)):
                return self.cdict_enum(n.args[0]), "dict"
        if (isinstance(n, ast.Dict) and not n.keys) or (isinstance(n, ast.Call) and isinstance(n.func, ast.Name) and n.func.id == "dict" and not n.args and not n.keywords):
            return "([] : DictS)", "dictset"      # a local `{}`: insertion-ordered dict whose values are sets / shared set objects
        if isinstance(n, ast.DictComp) and len(n.generators) == 1:
            g = ast.GeneratorExp(ast.Tuple([n.key, n.value], ast.Load()), n.generators)
            return self.cdict_enum(g), "dict"
        if isinstance(n, ast.ListComp) and isinstance(n.elt, ast.List) and not n.elt.elts and len(n.generators) == 1:
            c = n.generators[0]
            if isinstance(c.target, ast.Name) and not c.ifs and isinstance(c.iter, ast.Name) and self.locals.get(c.iter.id, (None, None))[1] == "natlist":
                return f"({self.locals[c.iter.id][0]}.map (fun _ => ([] : List Nat)))", "listlist"
        raise TranslateError(f"{self.py}: unsupported expression {ast.unparse(n)[:80]}")

    def call(self, m, args, pre, argtypes=None):
        sg = self.u.sig.get(m)
        if sg is None: raise TranslateError(f"{self.py}: call of self.{m}, which is not a translated method (or is defined later)")
        if len(args) != len(sg["params"]) or (argtypes and argtypes != sg["params"]):
            raise TranslateError(f"{self.py}: call of {m} with {len(args)} argument(s) of types {argtypes}")
        if sg["kind"] == "pure":
            return f"({sg['lean']} s{''.join(' ' + a for a in args)})", sg["ret"]
        if sg["kind"] == "total":
            raise TranslateError(f"{self.py}: value of the state-changing call self.{m}(..) used in an expression")
        t = self.tmp()
        pre.append((sg["lean"], args, t))
        return t, sg["ret"]

    def cgen(self, g, pre):
        """`<elt> for v in self._elts [if cond]` -> auxiliary fold definition; returns the temporary holding the list"""
        if len(g.generators) != 1: raise TranslateError(f"{self.py}: nested comprehension")
        c = g.generators[0]
        if not (isinstance(c.target, ast.Name) and _is_self_attr(c.iter, "_elts") and not c.is_async and len(c.ifs) <= 1):
            raise TranslateError(f"{self.py}: comprehension is not `.. for v in self._elts [if ..]`")
        v = c.target.id
        saved = dict(self.locals)
        free = [k for k in self._names(g) if k in saved and k != v]
        self.locals[v] = ("v_" + v, "nat")
        self.ngen += 1
        name = f"{self.lean}Gen{self.ngen}"
        ipre = []
        if c.ifs:
            cond, tc = self.cexpr(c.ifs[0], ipre)
            if tc != "bool": raise TranslateError(f"{self.py}: comprehension filter of type {tc}")
        else:
            cond = None
        elt, te = self.cexpr(g.elt, ipre)
        if te != "nat": raise TranslateError(f"{self.py}: comprehension element of type {te}")
        if ipre and ("s." in cond if cond else False): raise TranslateError(f"{self.py}: state read mixed with a call in a comprehension")
        if "_elts" in self._written_fields(g): raise TranslateError(f"{self.py}: the comprehension changes the list it iterates")
        inner = f"      if {cond} then some (s, out ++ [{elt}]) else some (s, out)" if cond else f"      some (s, out ++ [{elt}])"
        kind_saved, self.kind = self.kind, "partial"
        body = self.wrap(ipre, "      ", inner)
        self.kind = kind_saved
        ps = "".join(f" ({saved[k][0]} : {TY[saved[k][1]]})" for k in free)
        pa = "".join(" " + saved[k][0] for k in free)
        self.aux.append(
            f"/-- one step of `{ast.unparse(g)}` of `{self.py}`: `none` once a call has raised -/\n"
            f"def {name}Step{ps} (acc : Option (St × List Nat)) ({self.locals[v][0]} : Nat) : Option (St × List Nat) :=\n"
            f"  match acc with\n  | none => none\n  | some (s, out) =>\n{body}\n"
            f"/-- the generator, in `_elts` order, threading the state through the calls -/\n"
            f"def {name} (s : St){ps} : Option (St × List Nat) :=\n"
            f"  s.elts.foldl ({name}Step{pa}) (some (s, []))\n")
        self.locals = saved
        t = self.tmp()
        pre.append((name, [saved[k][0] for k in free], t))
        return t, "natlist"

    def cdict_enum(self, g):
        """`dict((K, V) for I, R in enumerate(L))` (K, V among I, R; L a local list): later pairs win, as in Python"""
        if len(g.generators) != 1: raise TranslateError(f"{self.py}: nested comprehension")
        c = g.generators[0]
        it = c.iter
        if not (isinstance(it, ast.Call) and isinstance(it.func, ast.Name) and it.func.id == "enumerate" and len(it.args) == 1 and not it.keywords
                and isinstance(it.args[0], ast.Name) and self.locals.get(it.args[0].id, (None, None))[1] == "natlist" and not c.ifs
                and isinstance(c.target, ast.Tuple) and len(c.target.elts) == 2 and all(isinstance(x, ast.Name) for x in c.target.elts)
                and isinstance(g.elt, ast.Tuple) and len(g.elt.elts) == 2):
            raise TranslateError(f"{self.py}: dict(..) is not `dict((k, v) for i, r in enumerate(<local list>))`")
        iv, rv = c.target.elts[0].id, c.target.elts[1].id
        if iv == rv: raise TranslateError(f"{self.py}: enumerate target binds one name twice")

        def comp(x):
            if isinstance(x, ast.Name) and x.id == iv: return "p.1"
            if isinstance(x, ast.Name) and x.id == rv: return "p.2"
            raise TranslateError(f"{self.py}: dict(..) component {ast.unparse(x)}")
        return f"(dictOf ((enumerate {self.locals[it.args[0].id][0]}).map (fun (p : Nat × Nat) => ({comp(g.elt.elts[0])}, {comp(g.elt.elts[1])}))))"

    def cfor_elts(self, st, rest, ind):
        """`for e in self._elts: <local assignments, calls, ONE local list of lists mutated by L[i].append(x)>` -> a fold
        `<m>For<k>Step` over `s.elts` carrying (state, that list); `none` once something has raised"""
        v = st.target.id
        if "_elts" in self._written_fields(st): raise TranslateError(f"{self.py}: the loop changes the list it iterates")
        saved = dict(self.locals)
        self.locals[v] = ("v_" + v, "nat")
        body = _strip(st.body)
        carried = None
        lines = ""
        i2 = "      "
        for b in body:
            pre = []
            if isinstance(b, ast.Assign) and len(b.targets) == 1 and isinstance(b.targets[0], ast.Name):
                w = b.targets[0].id
                if w in saved: raise TranslateError(f"{self.py}: loop body reassigns the outer local {w}")
                e, t = self.cexpr(b.value, pre)
                if any(fn is not None for fn, _, _ in pre) and "s." in e: raise TranslateError(f"{self.py}: state read mixed with a call in one expression")
                self.locals[w] = ("v_" + w, t)
                lines += self.wrap(pre, i2, f"{i2}let v_{w} := {e}\n")
                continue
            c = b.value if isinstance(b, ast.Expr) else None
            if isinstance(c, ast.Call) and isinstance(c.func, ast.Attribute) and c.func.attr == "append" and len(c.args) == 1 and not c.keywords \
                    and isinstance(c.func.value, ast.Subscript) and isinstance(c.func.value.value, ast.Name) \
                    and saved.get(c.func.value.value.id, (None, None))[1] == "listlist":
                L = c.func.value.value.id
                if carried not in (None, L): raise TranslateError(f"{self.py}: two local containers mutated in one loop")
                carried = L
                i, ti = self.cexpr(c.func.value.slice, pre); x, tx = self.cexpr(c.args[0], pre)
                if ti != "nat" or tx != "nat": raise TranslateError(f"{self.py}: bucket append of types {ti},{tx}")
                lines += self.wrap(pre, i2, f"{i2}match bucketAppend v_{L} {i} {x} with\n{i2}| none => none\n{i2}| some v_{L} =>\n")
                continue
            # `D.setdefault(k, set()).add(x)` on a local dict of sets
            if isinstance(c, ast.Call) and isinstance(c.func, ast.Attribute) and c.func.attr == "add" and len(c.args) == 1 and not c.keywords \
                    and isinstance(c.func.value, ast.Call) and isinstance(c.func.value.func, ast.Attribute) and c.func.value.func.attr == "setdefault" \
                    and isinstance(c.func.value.func.value, ast.Name) and saved.get(c.func.value.func.value.id, (None, None))[1] == "dictset":
                sd = c.func.value
                if len(sd.args) != 2 or sd.keywords or not (isinstance(sd.args[1], ast.Call) and isinstance(sd.args[1].func, ast.Name) and sd.args[1].func.id == "set" and not sd.args[1].args):
                    raise TranslateError(f"{self.py}: setdefault default is not `set()`")
                L = sd.func.value.id
                if carried not in (None, L): raise TranslateError(f"{self.py}: two local containers mutated in one loop")
                carried = L
                k, tk = self.cexpr(sd.args[0], pre); x, tx = self.cexpr(c.args[0], pre)
                if tk != "nat" or tx != "nat": raise TranslateError(f"{self.py}: setdefault(..).add(..) of types {tk},{tx}")
                lines += self.wrap(pre, i2, f"{i2}let v_{L} := dsAdd v_{L} {k} {x}\n")
                continue
            raise TranslateError(f"{self.py}: unsupported statement in a loop over self._elts: {ast.unparse(b)[:80]}")
        if carried is None: raise TranslateError(f"{self.py}: the loop over self._elts mutates no local container")
        free = [k for k in self._names(st) if k in saved and k != v and k != carried]
        self.nfor = getattr(self, "nfor", 0) + 1
        name = f"{self.lean}For{self.nfor}"
        ps = "".join(f" ({saved[k][0]} : {TY[saved[k][1]]})" for k in free)
        pa = "".join(" " + saved[k][0] for k in free)
        self.aux.append(
            f"/-- one iteration of `for {v} in self._elts` of `{self.py}`: `none` once something has raised -/\n"
            f"def {name}Step{ps} (acc : Option (St × {TY[saved[carried][1]]})) (v_{v} : Nat) : Option (St × {TY[saved[carried][1]]}) :=\n"
            f"  match acc with\n  | none => none\n  | some (s, v_{carried}) =>\n{lines}{i2}some (s, v_{carried})\n")
        self.locals = saved
        if self.kind != "partial": raise TranslateError(f"{self.py}: loop with raising reads in a method not analysed as raising")
        text = (f"{ind}match s.elts.foldl ({name}Step{pa}) (some (s, v_{carried})) with\n{ind}| none => none\n{ind}| some (s, v_{carried}) =>\n")
        return text + self.cstmts(rest, ind)

    def _names(self, node):
        out = []
        for x in ast.walk(node):
            if isinstance(x, ast.Name) and x.id not in out: out.append(x.id)
        return out

    def _written_fields(self, node):
        """fields of self that the calls inside `node` may write (transitively)"""
        out = set()
        seen = set()

        def visit(fn):
            for x in ast.walk(fn):
                tg = []
                if isinstance(x, ast.Assign): tg = x.targets
                if isinstance(x, ast.AugAssign): tg = [x.target]
                for t in tg:
                    b = t.value if isinstance(t, ast.Subscript) else t
                    if _is_self_attr(b): out.add(b.attr)
                if isinstance(x, ast.Call) and isinstance(x.func, ast.Attribute) and _is_self_attr(x.func.value) and x.func.attr in ("append", "pop", "clear", "extend", "insert", "remove"):
                    out.add(x.func.value.attr)
            for c in _self_calls(fn):
                if c in self.u.methods and c not in seen:
                    seen.add(c); visit(self.u.methods[c])
        visit(node)
        return out

    # -- state updates -------------------------------------------------------------------------------------------
    def state_update(self, st, pre):
        """-> Lean text of the new state for one state-writing statement, or None"""
        if isinstance(st, ast.Expr) and isinstance(st.value, ast.Call):
            c = st.value
            if isinstance(c.func, ast.Attribute) and c.func.attr == "append" and _is_self_attr(c.func.value) and c.func.value.attr in LISTS and len(c.args) == 1:
                e, t = self.cexpr(c.args[0], pre)
                if t != "nat": raise TranslateError(f"{self.py}: append of a {t}")
                f = FIELDS[c.func.value.attr]
                return f"{{ s with {f} := s.{f} ++ [{e}] }}"
            if _is_self_attr(c.func):
                sg = self.u.sig.get(c.func.attr)
                if sg and sg["kind"] == "total" and sg["ret"] == "unit":
                    args = [self.cexpr(a, pre) for a in c.args]
                    if [t for _, t in args] != sg["params"]: raise TranslateError(f"{self.py}: call of {c.func.attr} with argument types {[t for _, t in args]}")
                    return f"{sg['lean']} s{''.join(' ' + e for e, _ in args)}"
            return None
        if isinstance(st, ast.Assign) and len(st.targets) == 1:
            t = st.targets[0]
            if isinstance(t, ast.Subscript) and _is_self_attr(t.value):
                f = t.value.attr
                i, ti = self.cexpr(t.slice, pre); v, tv = self.cexpr(st.value, pre)
                if ti != "nat" or tv != "nat": raise TranslateError(f"{self.py}: store of types {ti},{tv}")
                if f == "_indx": return f"{{ s with indx := dset s.indx {i} {v} }}"
                if f in ("_par", "_siz", "_elts"): return f"{{ s with {FIELDS[f]} := s.{FIELDS[f]}.set {i} {v} }}"
                raise TranslateError(f"{self.py}: store into self.{f}[..]")
            if _is_self_attr(t):
                if t.attr in COUNTERS:
                    v, tv = self.cexpr(st.value, pre)
                    if tv != "nat": raise TranslateError(f"{self.py}: counter set to a {tv}")
                    return f"{{ s with {FIELDS[t.attr]} := {v} }}"
                raise TranslateError(f"{self.py}: assignment to self.{t.attr}")
            return None
        if isinstance(st, ast.AugAssign) and isinstance(st.op, (ast.Add, ast.Sub)):
            t = st.target
            op = "+" if isinstance(st.op, ast.Add) else "-"
            if _is_self_attr(t) and t.attr in COUNTERS:
                v, tv = self.cexpr(st.value, pre)
                if tv != "nat": raise TranslateError(f"{self.py}: counter changed by a {tv}")
                f = FIELDS[t.attr]
                return f"{{ s with {f} := s.{f} {op} {v} }}"
            if isinstance(t, ast.Subscript) and _is_self_attr(t.value) and t.value.attr == "_siz":
                i, ti = self.cexpr(t.slice, pre); v, tv = self.cexpr(st.value, pre)
                if ti != "nat" or tv != "nat": raise TranslateError(f"{self.py}: size update of types {ti},{tv}")
                return f"{{ s with siz := s.siz.set {i} ((sizAt s.siz {i}) {op} {v}) }}"
            if _is_self_attr(t) or (isinstance(t, ast.Subscript) and _is_self_attr(t.value)):
                raise TranslateError(f"{self.py}: unsupported in-place update {ast.unparse(st)}")
        return None

    def is_state_only(self, stmts):
        """straight-line block: state updates, local assignments, nested state-only ifs; no return/raise/loop, no raising call"""
        for st in stmts:
            for x in ast.walk(st):
                if isinstance(x, (ast.Return, ast.Raise, ast.While, ast.For, ast.Break, ast.Continue, ast.GeneratorExp, ast.ListComp)): return False
                if isinstance(x, ast.Call) and _is_self_attr(x.func) and self.u.raises.get(x.func.attr, True): return False
        return True

    def sblock(self, stmts, tail="s"):
        """state-only block as ONE Lean expression `(let ..; let ..; <tail>)`; locals bound inside stay inside"""
        saved = dict(self.locals)
        parts = []
        for st in _strip(stmts):
            pre = []
            if isinstance(st, ast.If):
                c, tc = self.cexpr(st.test, pre)
                if tc != "bool": raise TranslateError(f"{self.py}: condition of type {tc}")
                self._no_escape(st, saved)
                parts.append(f"let s := if {c} then {self.sblock(st.body)} else {self.sblock(st.orelse)}")
            elif isinstance(st, ast.Assign) and len(st.targets) == 1 and isinstance(st.targets[0], ast.Name):
                e, t = self.cexpr(st.value, pre)
                self.locals[st.targets[0].id] = ("v_" + st.targets[0].id, t)
                parts.append(f"let v_{st.targets[0].id} := {e}")
            else:
                up = self.state_update(st, pre)
                if up is None: raise TranslateError(f"{self.py}: unsupported statement {ast.unparse(st)[:80]}")
                parts.append(f"let s := {up}")
            if pre: raise TranslateError(f"{self.py}: raising call inside a state-only block")
        text = "(" + "; ".join(parts + [tail_text(tail, self.locals)]) + ")" if parts else tail_text(tail, self.locals)
        self.locals = saved
        return text

    def _assigned(self, stmts):
        out = []
        for st in stmts:
            for x in ast.walk(st):
                if isinstance(x, ast.Name) and isinstance(x.ctx, ast.Store) and x.id not in out: out.append(x.id)
        return out

    def _no_escape(self, ifst, outer_locals):
        for v in self._assigned(ifst.body + ifst.orelse):
            if v in outer_locals: raise TranslateError(f"{self.py}: local {v} reassigned inside a branch")
            self._branch_locals = getattr(self, "_branch_locals", set()) | {v}

    # -- statements (continuation style) -------------------------------------------------------------------------
    def cstmts(self, stmts, ind):
        stmts = _strip(stmts)
        if not stmts:
            return ind + self.retval("()", "unit")
        st, rest = stmts[0], stmts[1:]
        pre = []
        if isinstance(st, ast.Return):
            if st.value is None: return ind + self.retval("()", "unit")
            e, t = self.cexpr(st.value, pre)
            if pre and "s." in e: raise TranslateError(f"{self.py}: state read mixed with a call in one expression")
            return self.wrap(pre, ind, ind + self.retval(e, t))
        if isinstance(st, ast.Raise):
            if self.kind != "partial": raise TranslateError(f"{self.py}: raise in a method not analysed as raising")
            exc = st.exc.func.id if isinstance(st.exc, ast.Call) and isinstance(st.exc.func, ast.Name) else (st.exc.id if isinstance(st.exc, ast.Name) else None)
            self.u.exc.append((self.lean, EXC.get(exc, ".other")))
            return ind + "none"
        if isinstance(st, ast.If):
            c, tc = self.cexpr(st.test, pre)
            if tc != "bool": raise TranslateError(f"{self.py}: condition of type {tc}")
            if pre and "s." in c: raise TranslateError(f"{self.py}: state read mixed with a call in one condition")
            if self.is_state_only(st.body) and self.is_state_only(st.orelse):
                self._no_escape(st, self.locals)
                text = f"{ind}let s := if {c} then {self.sblock(st.body)} else {self.sblock(st.orelse)}\n" + self.cstmts(rest, ind)
            else:
                saved = dict(self.locals)
                a = self.cstmts(st.body + rest, ind + "  ")
                self.locals = dict(saved)
                b = self.cstmts(st.orelse + rest, ind + "  ")
                self.locals = saved
                text = f"{ind}if {c} then\n{a}\n{ind}else\n{b}"
            return self.wrap(pre, ind, text)
        if isinstance(st, ast.While):
            return self.cwhile(st, rest, ind)
        if isinstance(st, ast.For):
            return self.cfor(st, rest, ind)
        if isinstance(st, ast.Assign) and len(st.targets) == 1 and isinstance(st.targets[0], ast.Name):
            v = st.targets[0].id
            if v in getattr(self, "_branch_locals", set()): raise TranslateError(f"{self.py}: local {v} is also bound inside a branch")
            e, t = self.cexpr(st.value, pre)
            if pre and "s." in e: raise TranslateError(f"{self.py}: state read mixed with a call in one expression")
            self.locals[v] = ("v_" + v, t)
            return self.wrap(pre, ind, f"{ind}let v_{v} := {e}\n" + self.cstmts(rest, ind))
        if isinstance(st, ast.Expr) and isinstance(st.value, ast.Call) and _is_self_attr(st.value.func) and \
                self.u.sig.get(st.value.func.attr, {}).get("kind") == "partial":
            e, t = self.cexpr(st.value, pre)       # result dropped
            return self.wrap(pre, ind, self.cstmts(rest, ind))
        up = self.state_update(st, pre)
        if up is not None:
            if pre: raise TranslateError(f"{self.py}: raising call inside a state update")
            return f"{ind}let s := {up}\n" + self.cstmts(rest, ind)
        raise TranslateError(f"{self.py}: unsupported statement {ast.unparse(st)[:80]}")

    def cwhile(self, st, rest, ind):
        if st.orelse: raise TranslateError(f"{self.py}: while/else")
        if not self.is_state_only(st.body): raise TranslateError(f"{self.py}: loop body is not straight-line state updates")
        carried = [v for v in self._assigned(st.body) if v in self.locals]
        if len(carried) != 1: raise TranslateError(f"{self.py}: expected exactly one loop-carried local, found {carried}")
        p = carried[0]
        if self.locals[p][1] != "nat": raise TranslateError(f"{self.py}: loop-carried local of type {self.locals[p][1]}")
        used = [k for k in self._names(st) if k in self.locals and k != p]
        self.nloop += 1
        base = self.lean + ("" if self.nloop == 1 else str(self.nloop))
        pre = []
        cond, tc = self.cexpr(st.test, pre)
        if pre or tc != "bool": raise TranslateError(f"{self.py}: loop condition with a call / of type {tc}")
        body = self.sblock(st.body, tail=("pair", p))
        ps = "".join(f" ({self.locals[k][0]} : {TY[self.locals[k][1]]})" for k in used)
        pa = "".join(" " + self.locals[k][0] for k in used)
        lp = self.locals[p][0]
        self.aux.append(
            f"/-- `while {ast.unparse(st.test)}` of `{self.py}`: the condition, in terms of the state and the loop-carried local -/\n"
            f"def {base}Cond (s : St){ps} ({lp} : Nat) : Bool := {cond}\n"
            f"/-- its body: new state and new value of the loop-carried local -/\n"
            f"def {base}Body (s : St){ps} ({lp} : Nat) : St × Nat := {body}\n"
            f"/-- the loop, on a fuel argument -/\n"
            f"def {base}Loop{ps} : Nat → St → Nat → St × Nat\n"
            f"  | 0, s, {lp} => (s, {lp})\n"
            f"  | fuel + 1, s, {lp} =>\n"
            f"    if {base}Cond s{pa} {lp} then {base}Loop{pa} fuel ({base}Body s{pa} {lp}).1 ({base}Body s{pa} {lp}).2 else (s, {lp})\n")
        text = (f"{ind}let r := {base}Loop{pa} s.par.length s {lp}\n{ind}let s := r.1\n{ind}let {lp} := r.2\n")
        return text + self.cstmts(rest, ind)

    def cfor(self, st, rest, ind):
        if st.orelse or not isinstance(st.target, ast.Name): raise TranslateError(f"{self.py}: unsupported for loop")
        v = st.target.id
        if isinstance(st.iter, (ast.List, ast.Tuple)):
            # literal container: unrolled
            out = []
            for e in st.iter.elts:
                out.append(ast.Assign([ast.Name(v, ast.Store())], e))
                out += copy.deepcopy(st.body)
            for o in out: ast.fix_missing_locations(o)
            for x in self._assigned(st.body):
                if x != v and x in self.locals: raise TranslateError(f"{self.py}: for body reassigns {x}")
            return self.cstmts(out + rest, ind)
        if isinstance(st.iter, ast.Name) and self.locals.get(st.iter.id, (None, None))[1] == "natlist" and self.is_state_only(st.body):
            saved = dict(self.locals)
            self.locals[v] = ("v_" + v, "nat")
            body = self.sblock(st.body)
            self.locals = saved
            return f"{ind}let s := {self.locals[st.iter.id][0]}.foldl (fun (s : St) (v_{v} : Nat) => {body}) s\n" + self.cstmts(rest, ind)
        if _is_self_attr(st.iter, "_elts"):
            return self.cfor_elts(st, rest, ind)
        it = st.iter
        if isinstance(it, ast.Call) and not it.args and not it.keywords and isinstance(it.func, ast.Attribute) and it.func.attr == "values" \
                and isinstance(it.func.value, ast.Name) and self.locals.get(it.func.value.id, (None, None))[1] == "dictset":
            # `for comp in D.values(): C.update({x: comp for x in comp})`: every member of each value is mapped to that value (a pure fold)
            D = it.func.value.id
            body = _strip(st.body)
            c = body[0].value if len(body) == 1 and isinstance(body[0], ast.Expr) else None
            ok = isinstance(c, ast.Call) and isinstance(c.func, ast.Attribute) and c.func.attr == "update" and len(c.args) == 1 and not c.keywords \
                and isinstance(c.func.value, ast.Name) and self.locals.get(c.func.value.id, (None, None))[1] == "dictset" and c.func.value.id != D
            if ok:
                C, dc = c.func.value.id, c.args[0]
                ok = isinstance(dc, ast.DictComp) and len(dc.generators) == 1 and not dc.generators[0].ifs \
                    and isinstance(dc.generators[0].target, ast.Name) and isinstance(dc.generators[0].iter, ast.Name) and dc.generators[0].iter.id == v \
                    and isinstance(dc.key, ast.Name) and dc.key.id == dc.generators[0].target.id and isinstance(dc.value, ast.Name) and dc.value.id == v \
                    and dc.generators[0].target.id != v
            if not ok: raise TranslateError(f"{self.py}: loop over {D}.values() is not `C.update({{x: comp for x in comp}})`")
            x = dc.generators[0].target.id
            lc = self.locals[C][0]
            return (f"{ind}let {lc} := (dsValues {self.locals[D][0]}).foldl (fun ({lc} : DictS) (v_{v} : List Nat) => "
                    f"dsUpdate {lc} (v_{v}.map (fun v_{x} => (v_{x}, v_{v})))) {lc}\n") + self.cstmts(rest, ind)
        raise TranslateError(f"{self.py}: for loop over {ast.unparse(st.iter)[:40]}")

    # -- whole method --------------------------------------------------------------------------------------------
    def compile(self, body=None, doc=None):
        body = _body(self.fn) if body is None else body
        text = self.cstmts(body, "  ")
        ret = self.ret or "unit"
        ps = "".join(f" ({self.locals[p][0]} : {TY[t]})" for p, t in zip(self.params, self.ptypes))
        if self.kind == "partial": rt = f"Option (St × {TY[ret]})"
        elif self.kind == "total": rt = "St" if ret == "unit" else f"St × {TY[ret]}"
        else: rt = TY[ret]
        doc = doc or f"`UnionFind.{self.py}`"
        if self.py == "union":
            if self.u.sizcmp is None: raise TranslateError("union: no comparison `self._siz[a] < self._siz[b]` (or `<=`) found")
            self.aux.insert(0, f"/-- the size comparison of `union`, as the source spells it (`true`: the first root goes under the second) -/\n"
                               f"def sizCmp (a b : Nat) : Bool := decide (a {self.u.sizcmp} b)\n")
        d = "".join(self.aux) + f"/-- {doc} -/\ndef {self.lean} (s : St){ps} : {rt} :=\n{text}\n"
        self.u.out.append(d)
        self.u.sig[self.py] = {"kind": self.kind, "lean": self.lean, "params": list(self.ptypes), "ret": ret}
        return {"kind": self.kind, "returns": ret}


def tail_text(tail, locals_):
    if tail == "s": return "s"
    return f"(s, {locals_[tail[1]][0]})"


# ------------------------------------------------------------------------------------------------------------------
# shapes (alpha-normalised statement lists) for the methods built on dicts of sets / lists of lists
# ------------------------------------------------------------------------------------------------------------------
class Alpha(ast.NodeTransformer):
    def __init__(self, keep):
        self.map, self.keep = {}, keep

    def visit_Name(self, n):
        if n.id in self.keep: return n
        if n.id not in self.map: self.map[n.id] = f"v{len(self.map)}"
        return ast.copy_location(ast.Name(self.map[n.id], n.ctx), n)


def shape(fn):
    """the body as a list of statement strings after normalisation and renaming of every local (first-occurrence order)"""
    body = _body(fn)
    al = Alpha({"self", "set", "dict", "enumerate", "list", "len", "range", "sorted", "tuple"})
    return [ast.unparse(al.visit(s)).replace("\n", " ; ") for s in body]


def lean_str(s):
    return '"' + s.replace("\\", "\\\\").replace('"', '\\"') + '"'


# ------------------------------------------------------------------------------------------------------------------
# sites
# ------------------------------------------------------------------------------------------------------------------
UF_HEADER = "import Mouette.Model.UFSource\n"
UF_NS = "namespace Mouette.Generated.C20\nopen Mouette.UF Mouette.UFS\n\n"
UF_END = "\nend Mouette.Generated.C20\n"


def _uf_class():
    tree, _ = T.load(UF_FILE)
    cls = [n for n in tree.body if isinstance(n, ast.ClassDef) and n.name == "UnionFind"]
    if len(cls) != 1: raise TranslateError("class UnionFind not found")
    return cls[0]


def _init_split(unit):
    """`__init__`: the leading attribute initialisations, the `if elements is None: elements = []` idiom, the loop"""
    fn = unit.methods.get("__init__")
    if fn is None: raise TranslateError("__init__ not found")
    params = [a.arg for a in fn.args.args]
    if len(params) != 2: raise TranslateError(f"__init__ signature changed: {params}")
    ep = params[1]
    dflt = fn.args.defaults
    if len(dflt) != 1 or not (isinstance(dflt[0], ast.Constant) and dflt[0].value is None):
        raise TranslateError("__init__: default of the container parameter is not None")
    body = _body(fn)
    fields, i = [], 0
    while i < len(body) and isinstance(body[i], ast.Assign) and len(body[i].targets) == 1 and _is_self_attr(body[i].targets[0]):
        t, v = body[i].targets[0].attr, body[i].value
        if t not in FIELDS: raise TranslateError(f"__init__ creates an unknown attribute self.{t}")
        if t in COUNTERS:
            if not (isinstance(v, ast.Constant) and isinstance(v.value, int) and not isinstance(v.value, bool) and v.value >= 0):
                raise TranslateError(f"__init__: counter {t} initialised with {ast.unparse(v)}")
            val = str(v.value)
        elif t in LISTS:
            if not (isinstance(v, ast.List) and not v.elts): raise TranslateError(f"__init__: {t} initialised with {ast.unparse(v)}")
            val = "[]"
        else:
            if not ((isinstance(v, ast.Dict) and not v.keys) or (isinstance(v, ast.Call) and isinstance(v.func, ast.Name) and v.func.id == "dict" and not v.args and not v.keywords)):
                raise TranslateError(f"__init__: {t} initialised with {ast.unparse(v)}")
            val = "[]"
        if t in [f for f, _ in fields]: raise TranslateError(f"__init__ assigns self.{t} twice")
        fields.append((t, val)); i += 1
    if sorted(f for f, _ in fields) != sorted(FIELDS): raise TranslateError(f"__init__ does not create exactly the attributes {sorted(FIELDS)}: {[f for f, _ in fields]}")
    rest = body[i:]
    if not rest or not (isinstance(rest[0], ast.If) and ast.unparse(rest[0].test) == f"{ep} is None" and len(rest[0].body) == 1 and not rest[0].orelse
                        and ast.unparse(rest[0].body[0]) == f"{ep} = []"):
        raise TranslateError("__init__: `if elements is None: elements = []` not found after the attribute initialisations")
    return fields, rest[1:]


def site_unionfind():
    cls = _uf_class()
    # attributes in the class body would be shared between instances: none may shadow a field
    for n in cls.body:
        if isinstance(n, (ast.Assign, ast.AnnAssign, ast.AugAssign)):
            raise TranslateError(f"class-body assignment in UnionFind: {ast.unparse(n)[:60]}")
    unit = Unit(cls)
    det = {}
    fields, loop = _init_split(unit)
    out = UF_NS
    out += "/-- `UnionFind.__init__`: the attributes assigned on `self` (every one of them, hence instance state) -/\n"
    out += "def initAttrs : List (String × AttrHome) := [" + ", ".join(f"({lean_str(f)}, .instance)" for f, _ in fields) + "]\n"
    out += "/-- … and their initial values -/\n"
    out += "def init : St := { " + ", ".join(f"{FIELDS[f]} := {v}" for f, v in fields) + " }\n\n"
    unit.out.append("")
    det["__len__"] = Meth(unit, "__len__").compile()
    det["__contains__"] = Meth(unit, "__contains__").compile()
    det["add"] = Meth(unit, "add").compile()
    # the constructor: init, then the loop over the container
    m = Meth(unit, "__init__", ["natlist"])
    m.kind = "total"
    det["__init__"] = m.compile(body=loop, doc="`UnionFind.__init__` after the attribute initialisations (applied to `init`): the loop over the container")
    det["find"] = Meth(unit, "find").compile()
    det["connected"] = Meth(unit, "connected").compile()
    det["union"] = Meth(unit, "union").compile()
    det["component"] = Meth(unit, "component").compile()
    det["roots"] = Meth(unit, "roots", []).compile()
    det["components"] = Meth(unit, "components", []).compile()
    det["__getitem__"] = Meth(unit, "__getitem__").compile()
    det["__setitem__"] = Meth(unit, "__setitem__").compile()
    det["component_mapping"] = Meth(unit, "component_mapping", []).compile()
    for name, d in det.items():
        want = {"__len__": ("pure", "nat"), "__contains__": ("pure", "bool"), "add": ("total", "unit"), "__init__": ("total", "unit"),
                "find": ("partial", "nat"), "connected": ("partial", "bool"), "union": ("partial", "unit"),
                "component": ("partial", "natlist"), "roots": ("partial", "natlist"),
                "components": ("partial", "listlist"), "__getitem__": ("partial", "nat"), "__setitem__": ("partial", "unit"),
                "component_mapping": ("partial", "dictset")}[name]
        if (d["kind"], d["returns"]) != want:
            raise TranslateError(f"{name}: analysed as {d['kind']} returning {d['returns']}, expected {want[0]} returning {want[1]}")
    out += "\n".join(x for x in unit.out if x)
    out += "\n/-- which exception each `raise` statement raises (method, exception), in source order -/\n"
    out += "def raisesTable : List (String × PyExc) := [" + ", ".join(f"({lean_str(m)}, {e})" for m, e in unit.exc) + "]\n"
    out += UF_END
    _, sha = T.write_generated("C20UF", out, header=UF_HEADER)
    return {"sha": sha, "methods": det, "raises": unit.exc, "init": fields, "size_comparison": unit.sizcmp}


# ---- priority queue ----------------------------------------------------------------------------------------------
PQ_HEADER = "import Mouette.Model.UFSource\nimport Mouette.Model.BinHeap\n"
PQ_NS = "namespace Mouette.Generated.C20PQ\nopen Mouette.PQ Mouette.UFS\n\n"
PQ_END = "\nend Mouette.Generated.C20PQ\n"


def _heapq_names(tree):
    """local names bound to the heapq module / to heapq.heappush / heapq.heappop"""
    mod, fns = set(), {}
    for n in tree.body:
        if isinstance(n, ast.Import):
            for a in n.names:
                if a.name == "heapq": mod.add(a.asname or "heapq")
        if isinstance(n, ast.ImportFrom) and n.module == "heapq":
            for a in n.names: fns[a.asname or a.name] = a.name
    return mod, fns


def _hq_call(node, mod, fns):
    """`hq.heappush(self.data, e)` -> ('heappush', [args])"""
    if not isinstance(node, ast.Call) or node.keywords: return None
    f = node.func
    if isinstance(f, ast.Attribute) and isinstance(f.value, ast.Name) and f.value.id in mod: return f.attr, node.args
    if isinstance(f, ast.Name) and f.id in fns: return fns[f.id], node.args
    return None


def site_priority_queue():
    tree, _ = T.load(PQ_FILE)
    mod, fns = _heapq_names(tree)
    classes = {n.name: n for n in tree.body if isinstance(n, ast.ClassDef)}
    if "PriorityItem" not in classes or "PriorityQueue" not in classes: raise TranslateError("PriorityItem / PriorityQueue not found")
    item, pq = classes["PriorityItem"], classes["PriorityQueue"]
    # --- PriorityItem: dataclass fields
    deco = [ast.unparse(d) for d in item.decorator_list]
    if deco != ["dataclass"]: raise TranslateError(f"PriorityItem decorators: {deco}")
    flds = []
    for n in item.body:
        if isinstance(n, ast.AnnAssign) and isinstance(n.target, ast.Name):
            cmp_ = True
            if n.value is not None:
                v = n.value
                if not (isinstance(v, ast.Call) and isinstance(v.func, ast.Name) and v.func.id == "field"): raise TranslateError(f"PriorityItem.{n.target.id}: default {ast.unparse(v)}")
                for k in v.keywords:
                    if k.arg == "compare":
                        if not isinstance(k.value, ast.Constant) or not isinstance(k.value.value, bool): raise TranslateError("compare= is not a literal")
                        cmp_ = k.value.value
                    else: raise TranslateError(f"PriorityItem.{n.target.id}: field({k.arg}=..)")
            flds.append((n.target.id, cmp_))
        elif isinstance(n, ast.Assign): raise TranslateError("PriorityItem: un-annotated class attribute")
    if sorted(f for f, _ in flds) != ["priority", "x"]: raise TranslateError(f"PriorityItem fields: {flds}")
    proj = {"x": "1", "priority": "2"}
    # --- __lt__
    lt = [f for f in item.body if isinstance(f, ast.FunctionDef) and f.name == "__lt__"]
    others = [f.name for f in item.body if isinstance(f, ast.FunctionDef) and f.name in ("__le__", "__gt__", "__ge__", "__eq__")]
    if others: raise TranslateError(f"PriorityItem defines {others}")
    if len(lt) != 1: raise TranslateError("PriorityItem.__lt__ not found")
    a = [x.arg for x in lt[0].args.args]
    if len(a) != 2: raise TranslateError("__lt__ signature")
    b = _body(lt[0])
    if len(b) != 1 or not isinstance(b[0], ast.Return) or not isinstance(b[0].value, ast.Compare) or len(b[0].value.ops) != 1:
        raise TranslateError(f"__lt__ is not a single `return <a> <op> <b>`")
    cmpn = b[0].value

    def side(n):
        if isinstance(n, ast.Attribute) and isinstance(n.value, ast.Name) and n.value.id in a and n.attr in proj:
            who = "a" if n.value.id == a[0] else "b"
            if n.attr == "x": raise TranslateError("__lt__ compares the element x")
            return f"{who}.{proj[n.attr]}"
        raise TranslateError(f"__lt__ operand {ast.unparse(n)}")
    opn = {ast.Lt: "Prio.lt", ast.LtE: "Prio.le"}.get(type(cmpn.ops[0]))
    if opn is None: raise TranslateError(f"__lt__ operator {type(cmpn.ops[0]).__name__}")
    lt_text = f"{opn} {side(cmpn.left)} {side(cmpn.comparators[0])}"
    # --- PriorityQueue: where `data` lives
    class_attrs = []
    for n in pq.body:
        if isinstance(n, ast.Assign): class_attrs += [t.id for t in n.targets if isinstance(t, ast.Name)]
        if isinstance(n, ast.AnnAssign) and isinstance(n.target, ast.Name) and n.value is not None: class_attrs.append(n.target.id)
    meths = {f.name: f for f in pq.body if isinstance(f, ast.FunctionDef)}
    if "__init__" not in meths: init_b = []
    else: init_b = _body(meths["__init__"])
    inst_attrs = {}
    for s in init_b:
        if isinstance(s, ast.Assign) and len(s.targets) == 1 and _is_self_attr(s.targets[0]):
            inst_attrs[s.targets[0].attr] = s.value
        else: raise TranslateError(f"PriorityQueue.__init__: unsupported statement {ast.unparse(s)[:60]}")
    if "data" in inst_attrs:
        v = inst_attrs["data"]
        if not ((isinstance(v, ast.List) and not v.elts) or (isinstance(v, ast.Call) and isinstance(v.func, ast.Name) and v.func.id == "list" and not v.args)):
            raise TranslateError(f"__init__: self.data = {ast.unparse(v)}")
        home = ".instance"
    elif "data" in class_attrs: home = ".classBody"
    else: raise TranslateError("attribute data is created neither in __init__ nor in the class body")
    # every other method may only read self.data / mutate it in place through heapq (never rebind it)
    for name, f in meths.items():
        if name == "__init__": continue
        for n in ast.walk(f):
            if isinstance(n, (ast.Assign, ast.AugAssign)):
                for t in (n.targets if isinstance(n, ast.Assign) else [n.target]):
                    if _is_self_attr(t): raise TranslateError(f"{name} rebinds self.{t.attr}")

    def data(n):
        return _is_self_attr(n, "data")

    def single_return(name, nparams):
        f = meths.get(name)
        if f is None: raise TranslateError(f"PriorityQueue.{name} not found")
        if len(f.args.args) != 1 + nparams: raise TranslateError(f"{name} signature")
        b_ = _body(f)
        if len(b_) != 1 or not isinstance(b_[0], ast.Return) or b_[0].value is None: raise TranslateError(f"{name} is not a single return statement")
        return b_[0].value
    # empty
    e = single_return("empty", 0)
    ok = isinstance(e, ast.Compare) and len(e.ops) == 1 and isinstance(e.ops[0], ast.Eq)
    if ok:
        l, r = e.left, e.comparators[0]
        if isinstance(l, ast.Constant): l, r = r, l
        ok = isinstance(l, ast.Call) and isinstance(l.func, ast.Name) and l.func.id == "len" and len(l.args) == 1 and data(l.args[0]) and isinstance(r, ast.Constant) and r.value == 0 and not isinstance(r.value, bool)
    if ok: empty_text = "decide (d.length = 0)"
    elif isinstance(e, ast.UnaryOp) and isinstance(e.op, ast.Not) and data(e.operand): empty_text = "d.isEmpty"
    else: raise TranslateError(f"empty returns {ast.unparse(e)}")
    # front (a property)
    f = meths.get("front")
    if f is None or [ast.unparse(d) for d in f.decorator_list] != ["property"]: raise TranslateError("front is not a property")
    e = single_return("front", 0)
    if not (isinstance(e, ast.Subscript) and data(e.value) and isinstance(e.slice, ast.Constant) and e.slice.value == 0 and not isinstance(e.slice.value, bool)):
        raise TranslateError(f"front returns {ast.unparse(e)}")
    # get / pop
    def popper(name, seen=()):
        e_ = single_return(name, 0)
        h = _hq_call(e_, mod, fns)
        if h and h[0] == "heappop" and len(h[1]) == 1 and data(h[1][0]): return "BinHeap.heappop d"
        if isinstance(e_, ast.Call) and _is_self_attr(e_.func) and not e_.args and e_.func.attr in ("get", "pop") and e_.func.attr != name and e_.func.attr not in seen:
            return f"{e_.func.attr}_ d"
        raise TranslateError(f"{name} returns {ast.unparse(e_)}")
    get_text, pop_text = popper("get"), popper("pop")
    if "get_ d" in get_text and "pop_ d" in pop_text: raise TranslateError("get and pop call each other")
    # push
    f = meths.get("push")
    if f is None or len(f.args.args) != 3: raise TranslateError("push signature")
    px, pw = f.args.args[1].arg, f.args.args[2].arg
    b_ = _body(f)
    env = {}
    for s in b_[:-1]:
        if isinstance(s, ast.Assign) and len(s.targets) == 1 and isinstance(s.targets[0], ast.Name): env[s.targets[0].id] = s.value
        else: raise TranslateError(f"push: unsupported statement {ast.unparse(s)[:60]}")
    last = b_[-1] if b_ else None
    h = _hq_call(last.value, mod, fns) if isinstance(last, ast.Expr) else None
    if not (h and h[0] == "heappush" and len(h[1]) == 2 and data(h[1][0])): raise TranslateError("push does not end with heappush(self.data, <item>)")
    it = h[1][1]
    if isinstance(it, ast.Name) and it.id in env: it = env[it.id]
    if not (isinstance(it, ast.Call) and isinstance(it.func, ast.Name) and it.func.id == "PriorityItem"): raise TranslateError(f"pushed value is {ast.unparse(it)}")
    bound = {}
    for (fname, _), arg in zip(flds, it.args): bound[fname] = arg
    for k in it.keywords: bound[k.arg] = k.value
    if sorted(bound) != ["priority", "x"] or len(it.args) + len(it.keywords) != 2: raise TranslateError(f"PriorityItem(..) arguments: {ast.unparse(it)}")

    def argname(n):
        if isinstance(n, ast.Name) and n.id == px: return "x"
        if isinstance(n, ast.Name) and n.id == pw: return "w"
        raise TranslateError(f"PriorityItem argument {ast.unparse(n)}")
    ix, ip = argname(bound["x"]), argname(bound["priority"])
    if (ix, ip) != ("x", "w"):
        raise TranslateError(f"push builds PriorityItem(x={ix}, priority={ip}): the element and the priority are exchanged")
    out = PQ_NS
    out += "/-- `PriorityItem`: dataclass fields in declaration order with their `compare` flag; an item is modelled as the pair `(x, priority)` -/\n"
    out += "def itemFields : List (String × Bool) := [" + ", ".join(f"({lean_str(n)}, {'true' if c else 'false'})" for n, c in flds) + "]\n"
    out += f"/-- `PriorityItem.__lt__`: `{ast.unparse(cmpn)}` -/\n"
    out += f"def itemLt (a b : BinHeap.Item) : Bool := {lt_text}\n"
    out += "/-- where `PriorityQueue.data` is created -/\n"
    out += f"def dataHome : AttrHome := {home}\n"
    out += "/-- its initial value -/\ndef initData : List BinHeap.Item := []\n"
    out += f"/-- `push(x, w)`: `{ast.unparse(it)}` handed to `heappush(self.data, ·)` -/\n"
    out += f"def push (d : List BinHeap.Item) (x : Nat) (w : Prio) : List BinHeap.Item := BinHeap.heappush d ({ix}, {ip})\n"
    if "pop_ d" in get_text:
        out += f"def pop_ (d : List BinHeap.Item) : Option (BinHeap.Item × List BinHeap.Item) := {pop_text}\n"
        out += f"def get_ (d : List BinHeap.Item) : Option (BinHeap.Item × List BinHeap.Item) := {get_text}\n"
    else:
        out += f"/-- `get()` -/\ndef get_ (d : List BinHeap.Item) : Option (BinHeap.Item × List BinHeap.Item) := {get_text}\n"
        out += f"/-- `pop()` -/\ndef pop_ (d : List BinHeap.Item) : Option (BinHeap.Item × List BinHeap.Item) := {pop_text}\n"
    out += "/-- `front`: `self.data[0]` (`none` = IndexError) -/\n"
    out += "def front (d : List BinHeap.Item) : Option BinHeap.Item := d[0]?\n"
    out += f"/-- `empty()`: `{ast.unparse(single_return('empty', 0))}` -/\n"
    out += f"def empty (d : List BinHeap.Item) : Bool := {empty_text}\n"
    out += PQ_END
    _, sha = T.write_generated("C20PQ", out, header=PQ_HEADER)
    return {"sha": sha, "fields": flds, "lt": lt_text, "data": home, "push": f"({ix}, {ip})", "get": get_text, "pop": pop_text, "empty": empty_text}


def _stubbed(gen_name, header, ns, fn):
    """run a site; when it raises, overwrite Generated/<gen_name>.lean with a STUB (no definitions) so that no definition extracted from
    an earlier tree stays on disk: the bridges then fail to build against the stub and the build log talks about this tree only"""
    def run():
        try:
            return fn()
        except Exception as e:
            msg = str(e).replace("-/", "- /").replace("/-", "/ -")
            T.write_generated(gen_name, f"namespace {ns}\n/- TRANSLATION FAILED on the current source tree: {type(e).__name__}: {msg}\n"
                                        f"   (stub: the definitions the bridge theorems need are deliberately absent) -/\n"
                                        f"def translationFailed : Unit := ()\nend {ns}\n", header=header)
            raise
    return run


def translate():
    return [
        T.site("unionfind.py: UnionFind.__init__/__len__/__contains__/__getitem__/__setitem__/add/find/connected/union (+ its size comparison)/"
               "component/roots/components/component_mapping (state-passing definitions), raise table",
               _stubbed("C20UF", UF_HEADER, "Mouette.Generated.C20", site_unionfind)),
        T.site("priority_queue.py: PriorityItem fields + __lt__, PriorityQueue.data home, push/get/pop/front/empty over heapq",
               _stubbed("C20PQ", PQ_HEADER, "Mouette.Generated.C20PQ", site_priority_queue)),
    ]
