"""Generators for C18 (surface frame fields): triangulated oriented manifold surfaces, closed or bordered,
genus 0-1, smooth or with sharp creases (feature edges), planar ones for the flat-connection clause.
Everything derives from the `random.Random` handed in; coordinates are dyadic (k/64)."""
import math

from . import mesh as G

dy = G.dy


def _jit(rng, V, amp):
    return [[dy(c + rng.uniform(-amp, amp)) for c in v] for v in V]


def fold_grid(rng, nu, nv, slope=None):
    """height field z = slope*|x - x0|: a crease (dihedral deviation > 60 deg) along the grid line i0; bordered disk."""
    i0 = rng.randint(1, nu - 2)
    slope = slope or rng.choice([2.0, 2.5, 3.0])
    V = []
    for i in range(nu):
        for j in range(nv):
            x = float(i)
            y = dy(j + rng.uniform(-0.2, 0.2)) if 0 < j < nv - 1 else float(j)
            if i != i0:
                x = dy(i + rng.uniform(-0.2, 0.2))
            V.append([x, y, dy(slope * abs(x - i0))])
    F = []
    for i in range(nu - 1):
        for j in range(nv - 1):
            a, b, c, d = i * nv + j, (i + 1) * nv + j, (i + 1) * nv + j + 1, i * nv + j + 1
            if rng.random() < 0.5: F += [[a, b, c], [a, c, d]]
            else: F += [[a, b, d], [b, c, d]]
    return V, F


def cube(rng, k, open_top=False):
    """cube surface, every side a k x k grid of quads split in triangles: closed genus 0 with 12 crease lines
    (or an open box: bordered, with creases)."""
    idx = {}
    V = []

    def vid(p):
        if p not in idx:
            idx[p] = len(V); V.append([float(p[0]), float(p[1]), float(p[2])])
        return idx[p]
    F = []
    sides = []
    # (origin, du, dv) with outward normal du x dv
    K = k
    sides = [((0, 0, 0), (0, 1, 0), (1, 0, 0)),   # z=0, normal -z
             ((0, 0, K), (1, 0, 0), (0, 1, 0)),   # z=K, normal +z
             ((0, 0, 0), (1, 0, 0), (0, 0, 1)),   # y=0, normal -y
             ((0, K, 0), (0, 0, 1), (1, 0, 0)),   # y=K, normal +y
             ((0, 0, 0), (0, 0, 1), (0, 1, 0)),   # x=0, normal -x
             ((K, 0, 0), (0, 1, 0), (0, 0, 1))]   # x=K, normal +x
    if open_top:
        sides.pop(1)
    for o, du, dv in sides:
        for i in range(K):
            for j in range(K):
                def P(a, b):
                    return vid(tuple(o[t] + a * du[t] + b * dv[t] for t in range(3)))
                a, b, c, d = P(i, j), P(i + 1, j), P(i + 1, j + 1), P(i, j + 1)
                if rng.random() < 0.5: F += [[a, b, c], [a, c, d]]
                else: F += [[a, b, d], [b, c, d]]
    return V, F


def sphere(rng, level, sym=False):
    V, F = G.sphere_like(rng, level)
    if not sym:
        V = _jit(rng, V, 0.08)
    return V, F


def torus(rng, nu, nv):
    V, F = G.torus(rng, nu, nv, tri=True)
    return _jit(rng, V, 0.05), F


def families(tier):
    fams = ["grid", "grid", "flatgrid", "delaunay", "annulus", "holes", "sphere", "torus", "fold", "cube", "box",
            "strip", "tiny", "sphere-sym", "cube-sym"]
    return fams


def make_surface(rng, fam, big=False):
    s = 7 if big else 5
    if fam == "grid":
        V, F = G.grid(rng, rng.randint(3, s + 1), rng.randint(3, s + 1), tri=True)
    elif fam == "flatgrid":
        V, F = G.grid(rng, rng.randint(3, s), rng.randint(3, s + 1), tri=True, flat=True)
    elif fam == "delaunay":
        V, F = G.delaunay_disk(rng, rng.randint(6, 30 if big else 18))
        if any(len(f) != 3 for f in F):
            V, F = G.grid(rng, 3, 4, tri=True)
    elif fam == "annulus":
        V, F = G.annulus(rng, rng.randint(4, s + 3), rng.randint(2, 4), tri=True)
        V = _jit(rng, V, 0.04)
    elif fam == "holes":
        V, F = G.grid(rng, rng.randint(4, s + 1), rng.randint(4, s + 1), tri=True)
        V, F = G.remove_faces(rng, V, F, rng.randint(1, 3))
    elif fam == "sphere":
        V, F = sphere(rng, rng.choice([0, 1, 1, 2] if big else [0, 1, 1]))
    elif fam == "sphere-sym":
        V, F = sphere(rng, 1, sym=True)
    elif fam == "torus":
        V, F = torus(rng, rng.randint(3, s), rng.randint(3, s + 1))
    elif fam == "fold":
        V, F = fold_grid(rng, rng.randint(3, s), rng.randint(3, s + 1))
    elif fam == "cube":
        V, F = cube(rng, rng.randint(2, 3 if not big else 4)); V = _jit(rng, V, 0.06)
    elif fam == "cube-sym":
        V, F = cube(rng, 3)
    elif fam == "box":
        V, F = cube(rng, rng.randint(2, 3), open_top=True); V = _jit(rng, V, 0.06)
    elif fam == "strip":
        V, F = G.grid(rng, 2, rng.randint(2, 6), tri=True)
    else:  # tiny
        if rng.random() < 0.4:
            V, F = [[0.0, 0.0, 0.0], [1.0, 0.0, 0.0], [0.25, 1.0, 0.125]], [[0, 1, 2]]
        else:
            V, F = G.grid(rng, 2, 2, tri=True)
    V = [[float(c) for c in v] for v in V]
    F = [list(map(int, f)) for f in F]
    # random face rotation / order / numbering (oriented manifoldness preserved)
    F = G.rotate_faces(rng, F)
    F = G.shuffle_faces(rng, F)
    if rng.random() < 0.7:
        V, F, _ = G.renumber(rng, V, F)
    st = G.surface_stats(len(V), F)
    assert st["manifold"] and st["unused"] == 0 and all(len(f) == 3 for f in F), (fam, st)
    return V, F, st


def metamorphic(rng, V, F):
    """a renumbered + face-rotated (+ face-reordered) copy; returns (V2, F2, vperm old->new, fperm old->new)"""
    V2, F2, perm = G.renumber(rng, V, F)
    F2 = G.rotate_faces(rng, F2)
    order = list(range(len(F2)))
    rng.shuffle(order)                 # new position k holds old face order[k]
    F3 = [F2[o] for o in order]
    fperm = [0] * len(F2)
    for k, o in enumerate(order): fperm[o] = k
    return V2, F3, perm, fperm
