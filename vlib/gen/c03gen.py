"""Generators specific to C03 (on top of vlib/gen/mesh.py): edge-manifold conforming tetrahedral meshes with
cavities / removed cells / several components, and the query samples of a case. Plain data, one PRNG."""
import itertools

from . import mesh as G


def tri_keys(c):
    return [tuple(sorted(c[:i] + c[i + 1:])) for i in range(4)]


def face_cells(C):
    d = {}
    for ic, c in enumerate(C):
        for k in tri_keys(c):
            d.setdefault(k, []).append(ic)
    return d


def edge_manifold(C):
    """every triangle in <= 2 cells and, around every edge, the incident cells form ONE fan or ONE cycle
    (connected through faces that contain the edge)."""
    fc = face_cells(C)
    if any(len(v) > 2 for v in fc.values()): return False
    inc = {}
    for ic, c in enumerate(C):
        for a, b in itertools.combinations(sorted(c), 2):
            inc.setdefault((a, b), []).append(ic)
    for (a, b), cs in inc.items():
        if len(cs) == 1: continue
        adj = {c: set() for c in cs}
        for k, v in fc.items():
            if a in k and b in k and len(v) == 2:
                adj[v[0]].add(v[1]); adj[v[1]].add(v[0])
        seen, todo = {cs[0]}, [cs[0]]
        while todo:
            x = todo.pop()
            for y in adj[x]:
                if y not in seen: seen.add(y); todo.append(y)
        if len(seen) != len(cs): return False
        if any(len(adj[c]) > 2 for c in cs): return False
    return True


def edge_fans(C):
    """undirected edge -> number of face-connected groups of cells around it (1 = one fan or one cycle)"""
    fc = face_cells(C)
    inc = {}
    for ic, c in enumerate(C):
        for a, b in itertools.combinations(sorted(c), 2):
            inc.setdefault((a, b), []).append(ic)
    out = {}
    for (a, b), cs in inc.items():
        adj = {c: set() for c in cs}
        for k, v in fc.items():
            if a in k and b in k and len(v) == 2:
                adj[v[0]].add(v[1]); adj[v[1]].add(v[0])
        seen, n = set(), 0
        for c0 in cs:
            if c0 in seen: continue
            n += 1; seen.add(c0); todo = [c0]
            while todo:
                x = todo.pop()
                for y in adj[x]:
                    if y not in seen: seen.add(y); todo.append(y)
        out[(a, b)] = n
    return out


def glue_along_edge(rng, max_cells=12):
    """two conforming pieces identified along ONE edge (and nothing else): conforming as a simplicial complex,
    every triangle in <= 2 cells, but the cells around the common edge form two fans (non-manifold edge)."""
    for _ in range(20):
        A = G.random_tets(rng, max_cells=max_cells, orient="positive")
        B = G.random_tets(rng, max_cells=6, orient="positive")
        off = len(A["V"])
        ea = sorted(rng.choice(A["C"]))[:2] if rng.random() < 0.5 else rng.sample(rng.choice(A["C"]), 2)
        eb = rng.sample(rng.choice(B["C"]), 2)
        ren = {eb[0] + off: ea[0], eb[1] + off: ea[1]}
        V = A["V"] + [[x + 40.0, y + 3.0, z] for x, y, z in B["V"]]
        C = A["C"] + [[ren.get(v + off, v + off) for v in c] for c in B["C"]]
        V, C = compact(V, C)
        if any(G.tet_sign(V, c) == 0 for c in C): continue
        if any(len(v) > 2 for v in face_cells(C).values()): continue
        if all(n == 1 for n in edge_fans(C).values()): continue
        C = [c if G.tet_sign(V, c) > 0 else [c[1], c[0], c[2], c[3]] for c in C]
        return {"V": V, "C": C, "tag": A["tag"].split("/")[0] + "/positive+edge-glued"}
    return edge_touching_pair()


def conforming(V, C):
    return all(len(c) == 4 and len(set(c)) == 4 and all(0 <= v < len(V) for v in c) for c in C) and edge_manifold(C) \
        and all(G.tet_sign(V, c) != 0 for c in C)


def compact(V, C):
    used = sorted({v for c in C for v in c})
    m = {o: n for n, o in enumerate(used)}
    return [V[o] for o in used], [[m[v] for v in c] for c in C]


def remove_cells(rng, V, C, k):
    C = [list(c) for c in C]
    for _ in range(4 * k):
        if k == 0 or len(C) <= 1: break
        i = rng.randrange(len(C))
        D = C[:i] + C[i + 1:]
        if edge_manifold(D):
            C = D; k -= 1
    return compact(V, C)


def random_volume(rng, max_cells=40):
    """conforming, edge-manifold, non-degenerate tetrahedral mesh; orientation positive / negative / mixed"""
    orient = rng.choice(["positive", "positive", "positive", "negative", "mixed"])
    base = G.random_tets(rng, max_cells=max_cells, orient=orient)
    V, C, tag = base["V"], base["C"], base["tag"]
    r = rng.random()
    if r < 0.30 and len(C) > 3:
        V, C = remove_cells(rng, V, C, rng.randint(1, max(1, len(C) // 4))); tag += "+holes"
    elif r < 0.40:
        # second component, or a second piece touching the first in exactly one vertex (still edge-manifold)
        other = G.random_tets(rng, max_cells=6, orient=orient)
        off = len(V)
        V2 = [[x + 50.0, y, z] for x, y, z in other["V"]]
        C2 = [[v + off for v in c] for c in other["C"]]
        if rng.random() < 0.5:
            # glue vertex off+0 onto vertex 0 by renaming (geometry of the second piece is then re-signed)
            C2 = [[0 if v == off else v for v in c] for c in C2]
            V3, C3 = compact(V + V2, C + C2)
            if all(G.tet_sign(V3, c) != 0 for c in C3) and edge_manifold(C3):
                V, C = V3, C3; tag += "+vertex-glued"
                if orient != "mixed":
                    want = 1 if orient == "positive" else -1
                    C = [c if G.tet_sign(V, c) == want else [c[1], c[0], c[2], c[3]] for c in C]
        else:
            V, C = V + V2, C + C2; tag += "+2comp"
    assert conforming(V, C), tag
    return {"V": V, "C": C, "tag": tag}


def edge_touching_pair():
    """two tetrahedra sharing exactly one edge (conforming as a complex, NOT edge-manifold)"""
    V = [[0, 0, 0], [0, 0, 1], [1, 0, 0], [0, 1, 0], [-1, 0, 0], [0, -1, 0]]
    C = [[0, 1, 2, 3], [0, 1, 4, 5]]
    V = [[float(x) for x in v] for v in V]
    C = [c if G.tet_sign(V, c) > 0 else [c[1], c[0], c[2], c[3]] for c in C]
    return {"V": V, "C": C, "tag": "pair/positive+edge-glued"}


def query_samples(rng, V, C, n=12):
    fc = face_cells(C)
    nF = len(fc)
    pairs, cf, cv = [], [], []
    adj = [v for v in fc.values() if len(v) == 2]
    for _ in range(n):
        if adj and rng.random() < 0.5:
            a, b = rng.choice(adj)
            pairs.append([a, b] if rng.random() < 0.5 else [b, a])
        else:
            pairs.append([rng.randrange(len(C)), rng.randrange(len(C))])
        cf.append([rng.randrange(len(C)), rng.randrange(nF)])
        c = rng.randrange(len(C))
        cv.append([c, rng.choice(C[c]) if rng.random() < 0.6 else rng.randrange(len(V))])
    return pairs, cf, cv


# ------------------------------------------------------------------------------------------------
# round 3: input representations, declared elements, in-place relabelling, hexahedra
# ------------------------------------------------------------------------------------------------
REPRS = ["list", "tuple", "nprow64", "nprow32", "from_arrays", "intcoords"]


def declared_elements(rng, C, k=3):
    """some triangles / sides of the cells declared by the user before the cells (arbitrary rotation and orientation)"""
    tris = [list(t) for t in face_cells(C).keys()]
    faces = []
    for t in rng.sample(tris, min(k, len(tris))):
        rng.shuffle(t); faces.append(list(t))
    edges, seen = [], set()
    for t in rng.sample(tris, min(k, len(tris))):
        e = rng.sample(t, 2)
        if tuple(sorted(e)) in seen: continue          # a declared edge is declared once (duplicates are C02's business)
        seen.add(tuple(sorted(e))); edges.append([e[0], e[1]])
    return faces, edges


def random_swaps(rng, C, k=2):
    """(cell, i, j): exchange the i-th and j-th vertex of a cell (changes the cell's orientation and its local numbering)"""
    out = []
    for _ in range(k):
        i, j = rng.sample(range(4), 2)
        out.append([rng.randrange(len(C)), i, j])
    return out


def apply_swaps(C, swaps):
    C = [list(c) for c in C]
    for ci, i, j in swaps:
        C[ci][i], C[ci][j] = C[ci][j], C[ci][i]
    return C


def hex_grid(rng, nx, ny, nz):
    """hexahedral grid; a cell is (bottom quad v1..v4, top quad v5..v8) as in mouette's hexahedron facet table"""
    idx = lambda i, j, k: (i * (ny + 1) + j) * (nz + 1) + k
    V = [[float(i), float(j), float(k)] for i in range(nx + 1) for j in range(ny + 1) for k in range(nz + 1)]
    C = []
    for i in range(nx):
        for j in range(ny):
            for k in range(nz):
                C.append([idx(i, j, k), idx(i + 1, j, k), idx(i + 1, j + 1, k), idx(i, j + 1, k),
                          idx(i, j, k + 1), idx(i + 1, j, k + 1), idx(i + 1, j + 1, k + 1), idx(i, j + 1, k + 1)])
    rng.shuffle(C)
    if rng.random() < 0.5:
        perm = list(range(len(V))); rng.shuffle(perm)
        NV = [None] * len(V)
        for o, n in enumerate(perm): NV[n] = V[o]
        V = NV; C = [[perm[v] for v in c] for c in C]
    return {"V": V, "C": C, "tag": "hexgrid"}


HEX_FACES = [(0, 1, 2, 3), (4, 5, 6, 7), (0, 3, 7, 4), (0, 1, 5, 4), (1, 2, 6, 5), (2, 3, 7, 6)]


def hex_face_cells(C):
    d = {}
    for ic, c in enumerate(C):
        for f in HEX_FACES:
            d.setdefault(tuple(sorted(c[i] for i in f)), []).append(ic)
    return d
