"""C18, round 4: IMPERATIVE translation of the frame-field methods (Python `ast` -> lean/Mouette/Generated/C18Src.lean), re-done from
$MOUETTE_REPO on every run.  The BODIES are read statement by statement and compiled to Lean definitions over the vocabulary of
`Model/FrameFieldSrc.lean` (vectors = lists of Gaussian rationals, matrix blocks, `Num` = the numeric oracles abs / spsolve /
inverse_power_method, which stay parameters).  Bridge theorems `Generated.C18S.f = FFS.fM` live in `Props/C18Source.lean`.

What is compiled (statement order, loops, guards, index expressions, which container is written, resets, defaults):

  base.py      FrameField.normalize          -> normalize          (loop over an index range touching var[i] only -> mapRange lo hi f)
               FrameField.run                -> run                (two guarded steps on the flags)
               FrameField._check_init        -> checkInitRaises
  faces2d.py   FrameField2DFaces.initialize  -> initializeFaces    (call sequence + flag)
               _initialize_variables         -> initVariablesFaces (zeros; nested loops; None-skip; write var[T] = (c/abs(c))**E)
               FrameField2DFaces.optimize    -> optimizeFaces      (fixed flags, partition, blocks, solve, smoothing loop, normalize;
                                                                   eigen branch)
               flag_singularities            -> flagEdgeRotFaces / flagSingulsFaces (re-use+clear, border skip, matching, argmin,
                                                                   holonomy sum with its sign test, threshold guard, scale)
               export_as_mesh                -> exportEdgesFaces   (index structure of the exported poly-line)
  vertex2d.py  FrameField2DVertices.initialize -> initializeVerts
               _initialize_variables         -> initVariablesVerts (both branches, cancellation guards, feature normalisation)
               FrameField2DVertices.optimize -> optimizeVerts
               flag_singularities            -> flagEdgeRotVerts / flagSingulsVerts
               export_as_mesh                -> exportEdgesVerts

Local names are kept (prefixed `v_`) so that renaming a local only alpha-renames the generated term; before compiling the tree is
normalised: `a > b` -> `b < a`, `a >= b` -> `b <= a`, `not a == b` -> `a != b`, `x = x + e` -> `x += e`, `x is not None`,
docstrings / `self.log(..)` / `pass` dropped, keyword arguments sorted, `AnnAssign` -> `Assign`.
Anything not recognised raises TranslateError: the site is then a broken obligation (never silently skipped)."""
import ast
import copy
from fractions import Fraction

from .. import translate as T
from ..translate import TranslateError

BASE = "mouette/processing/framefield/base.py"
FACES = "mouette/processing/framefield/faces2d.py"
VERTS = "mouette/processing/framefield/vertex2d.py"


# ----------------------------------------------------------------------------------------------------------------
# normalisation
# ----------------------------------------------------------------------------------------------------------------
class Norm(ast.NodeTransformer):
    def visit_UnaryOp(self, n):
        self.generic_visit(n)
        if isinstance(n.op, ast.Not) and isinstance(n.operand, ast.Compare) and len(n.operand.ops) == 1:
            c = n.operand
            flip = {ast.Eq: ast.NotEq, ast.NotEq: ast.Eq, ast.In: ast.NotIn, ast.NotIn: ast.In, ast.Is: ast.IsNot, ast.IsNot: ast.Is,
                    ast.Lt: ast.GtE, ast.GtE: ast.Lt, ast.Gt: ast.LtE, ast.LtE: ast.Gt}
            if type(c.ops[0]) in flip:
                return self.visit(ast.copy_location(ast.Compare(c.left, [flip[type(c.ops[0])]()], c.comparators), n))
        return n

    def visit_Compare(self, n):
        self.generic_visit(n)
        if len(n.ops) == 1:
            op, a, b = n.ops[0], n.left, n.comparators[0]
            if isinstance(op, (ast.Gt, ast.GtE)):
                return ast.copy_location(ast.Compare(b, [ast.Lt() if isinstance(op, ast.Gt) else ast.LtE()], [a]), n)
            if isinstance(op, (ast.Eq, ast.NotEq)) and isinstance(a, ast.Constant) and not isinstance(b, ast.Constant):
                return ast.copy_location(ast.Compare(b, [op], [a]), n)
        return n

    def visit_Assign(self, n):
        self.generic_visit(n)
        if len(n.targets) == 1 and isinstance(n.value, ast.BinOp) and isinstance(n.value.op, (ast.Add, ast.Sub, ast.Div, ast.Mult)):
            t, v = n.targets[0], n.value
            if ast.unparse(v.left) == ast.unparse(t):
                return ast.copy_location(ast.AugAssign(t, v.op, v.right), n)
            if isinstance(v.op, ast.Add) and ast.unparse(v.right) == ast.unparse(t):
                return ast.copy_location(ast.AugAssign(t, v.op, v.left), n)
        return n

    def visit_AnnAssign(self, n):
        self.generic_visit(n)
        if n.value is None: return None
        return ast.copy_location(ast.Assign([n.target], n.value), n)

    def visit_Call(self, n):
        self.generic_visit(n)
        n.keywords = sorted(n.keywords, key=lambda k: k.arg or "")
        return n


def _is_skip(s):
    if isinstance(s, ast.Pass): return True
    if isinstance(s, ast.Expr) and isinstance(s.value, ast.Constant): return True
    if isinstance(s, ast.Expr) and isinstance(s.value, ast.Call) and U(s.value.func) in ("self.log", "print"): return True
    return False


def U(n):
    return ast.unparse(n).replace(" ", "") if n is not None else ""


def strip(stmts):
    return [s for s in stmts if not _is_skip(s)]


def load_fn(rel, qual):
    tree, _ = T.load(rel)
    fn = copy.deepcopy(T.find_def(tree, qual))
    fn = Norm().visit(fn)
    ast.fix_missing_locations(fn)
    return fn


def ratlit(node):
    if isinstance(node, ast.Constant) and isinstance(node.value, (int, float)) and not isinstance(node.value, bool):
        fr = Fraction(repr(node.value))
        return f"(({fr.numerator} : Rat) / {fr.denominator})"
    raise TranslateError(f"not a numeric literal: {U(node)[:80]}")


def natlit(node):
    if isinstance(node, ast.Constant) and isinstance(node.value, int) and not isinstance(node.value, bool) and node.value >= 0:
        return str(node.value)
    raise TranslateError(f"not a natural literal: {U(node)[:80]}")


def names_loaded(node):
    out = set()
    for x in ast.walk(node):
        if isinstance(x, ast.Name) and isinstance(x.ctx, ast.Load): out.add(x.id)
        if isinstance(x, ast.Attribute) and U(x) == "self.var": out.add("self.var")
        if isinstance(x, ast.Call) and U(x.func) == "self.normalize": out.add("self.var")
    return out


def names_stored(stmts):
    out = set()
    for s in stmts:
        for x in ast.walk(s):
            if isinstance(x, ast.Name) and isinstance(x.ctx, ast.Store): out.add(x.id)
            if isinstance(x, (ast.Assign, ast.AugAssign)):
                for t in (x.targets if isinstance(x, ast.Assign) else [x.target]):
                    if isinstance(t, ast.Subscript) and isinstance(t.value, ast.Name): out.add(t.value.id)
                    if U(t) == "self.var" or (isinstance(t, ast.Subscript) and U(t.value) == "self.var"): out.add("self.var")
            if isinstance(x, ast.Call) and isinstance(x.func, ast.Attribute) and x.func.attr == "append" and isinstance(x.func.value, ast.Name):
                out.add(x.func.value.id)
            if isinstance(x, ast.Call) and U(x.func) == "self.normalize": out.add("self.var")
    return out


# ----------------------------------------------------------------------------------------------------------------
# the compiler for `optimize`
# ----------------------------------------------------------------------------------------------------------------
class Opt:
    """compiles the body of `optimize` (faces / vertices).  env: python local -> (lean term, type);
    types: mat (n x n operator), dmat (block), vec, idx, flags, rat, nat, solver, optnat"""

    def __init__(self, kind):
        self.kind = kind          # "faces" | "verts"
        self.notes = {}
        if kind == "faces":
            self.atoms = {
                "operators.laplacian_triangles(self.mesh,connection=self.conn,cotan=self.use_cotan,order=self.order)": ("P.lap", "mat"),
                "operators.area_weight_matrix_faces(self.mesh)": ("P.area", "mat"),
            }
            self.ids = "self.mesh.id_faces"
        else:
            self.atoms = {
                "operators.laplacian(self.mesh,connection=self.conn,cotan=self.use_cotan,order=self.order)": ("P.lap", "mat"),
                "operators.area_weight_matrix(self.mesh)": ("P.area", "mat"),
            }
            self.ids = "self.mesh.id_vertices"
        self.atoms["len(self.feat.feature_vertices)"] = ("P.nFeatV", "nat")
        self.atoms["self.n_smooth"] = ("P.nSmooth", "nat")

    # ---- expressions -------------------------------------------------------------------------------------------
    def E(self, n, env):
        u = U(n)
        if u in self.atoms:
            return self.atoms[u]
        if u == "self.var":
            return ("var", "vec")
        if isinstance(n, ast.Name):
            if n.id in env: return env[n.id]
            raise TranslateError(f"optimize: unknown name {n.id}")
        if isinstance(n, ast.Constant) and isinstance(n.value, int) and not isinstance(n.value, bool):
            return (str(n.value), "nat")
        if isinstance(n, ast.Call):
            f = n.func
            if isinstance(f, ast.Attribute) and f.attr in ("tocsc", "tocsr") and not n.args and not n.keywords:
                return self.E(f.value, env)
            if isinstance(f, ast.Attribute) and f.attr == "astype" and len(n.args) == 1 and U(n.args[0]) == "complex":
                return self.E(f.value, env)
            if isinstance(f, ast.Attribute) and f.attr == "dot" and len(n.args) == 1 and not n.keywords:
                m, mt = self.E(f.value, env); x, xt = self.E(n.args[0], env)
                if xt != "vec": raise TranslateError("optimize: .dot() of a non-vector")
                if mt == "dmat": return (f"(dot {m} {x})", "vec")
                if mt == "mat": return (f"(dot (full P.n {m}) {x})", "vec")
                raise TranslateError("optimize: .dot() on a non-matrix")
            if U(f) in ("linalg.spsolve", "sp.linalg.spsolve", "scipy.sparse.linalg.spsolve") and len(n.args) == 2 and not n.keywords:
                m, mt = self.E(n.args[0], env); b, bt = self.E(n.args[1], env)
                if bt != "vec": raise TranslateError("optimize: spsolve right-hand side is not a vector")
                if mt == "dmat": return (f"(N.spsolve {m} {b})", "vec")
                if mt == "mat": return (f"(N.spsolve (full P.n {m}) {b})", "vec")
                raise TranslateError("optimize: spsolve on a non-matrix")
            if U(f) in ("sp.linalg.factorized", "linalg.factorized") and len(n.args) == 1 and not n.keywords:
                m, mt = self.E(n.args[0], env)
                if mt == "mat": return (f"(N.spsolve (full P.n {m}))", "solver")
                if mt == "dmat": return (f"(N.spsolve {m})", "solver")
                raise TranslateError("optimize: factorized on a non-matrix")
            if U(f) in ("optimize.inverse_power_method", "inverse_power_method") and not n.keywords and len(n.args) in (1, 2):
                m, mt = self.E(n.args[0], env)
                if mt != "mat": raise TranslateError("optimize: inverse_power_method on a block")
                if len(n.args) == 1: return (f"(N.ipm P.n {m} none)", "vec")
                a, at = self.E(n.args[1], env)
                if at != "mat": raise TranslateError("optimize: inverse_power_method mass is not an operator")
                return (f"(N.ipm P.n {m} (some {a}))", "vec")
            if isinstance(f, ast.Name) and f.id in env and env[f.id][1] == "solver" and len(n.args) == 1 and not n.keywords:
                b, bt = self.E(n.args[0], env)
                if bt != "vec": raise TranslateError("optimize: solver applied to a non-vector")
                return (f"({env[f.id][0]} {b})", "vec")
            if U(f) == "len" and len(n.args) == 1:
                x, xt = self.E(n.args[0], env)
                if xt == "idx": return (f"{x}.length", "nat")
            raise TranslateError(f"optimize: call not recognised: {u[:100]}")
        if isinstance(n, ast.BoolOp) and isinstance(n.op, ast.Or) and len(n.values) == 2 and U(n.values[0]) == "self.smooth_attach_weight" \
                and isinstance(n.values[1], ast.Call) and U(n.values[1].func) == "self._compute_attach_weight" and len(n.values[1].args) == 1:
            a, at = self.E(n.values[1].args[0], env)
            if a != "P.area" and env.get(U(n.values[1].args[0]), ("", ""))[0] != "v_" + U(n.values[1].args[0]):
                raise TranslateError("optimize: attach weight computed from something else than the area matrix")
            if at != "mat": raise TranslateError("optimize: attach weight computed from a block")
            self.notes["alpha"] = "self.smooth_attach_weight or self._compute_attach_weight(<area matrix>)"
            return ("P.alpha", "rat")
        if isinstance(n, ast.Subscript):
            # M[rows,:][:,cols]   |   self.var[idx]
            if U(n.value) == "self.var":
                i, it = self.E(n.slice, env)
                if it != "idx": raise TranslateError("optimize: self.var[..] with a non-index-list")
                return (f"(gather var {i})", "vec")
            inner = n.value
            if isinstance(inner, ast.Subscript) and isinstance(n.slice, ast.Tuple) and len(n.slice.elts) == 2 and U(n.slice.elts[0]) == ":" \
                    and isinstance(inner.slice, ast.Tuple) and len(inner.slice.elts) == 2 and U(inner.slice.elts[1]) == ":":
                m, mt = self.E(inner.value, env)
                r, rt = self.E(inner.slice.elts[0], env); c, ct = self.E(n.slice.elts[1], env)
                if mt != "mat" or rt != "idx" or ct != "idx": raise TranslateError("optimize: block extraction not of the form M[rows,:][:,cols]")
                return (f"(sub {m} {r} {c})", "dmat")
            raise TranslateError(f"optimize: subscript not recognised: {u[:100]}")
        if isinstance(n, ast.UnaryOp) and isinstance(n.op, ast.USub):
            x, xt = self.E(n.operand, env)
            if xt == "vec": return (f"(vneg {x})", "vec")
            raise TranslateError("optimize: unary minus on a non-vector")
        if isinstance(n, ast.BinOp):
            a, at = self.E(n.left, env); b, bt = self.E(n.right, env)
            if isinstance(n.op, ast.Sub):
                if at == bt == "vec": return (f"(vsub {a} {b})", "vec")
                if at == bt == "dmat": return (f"(dsub {a} {b})", "dmat")
                if at == bt == "mat": return (f"(msub {a} {b})", "mat")
            if isinstance(n.op, ast.Mult) and at == "rat":
                if bt == "vec": return (f"(vsmul {a} {b})", "vec")
                if bt == "dmat": return (f"(dsmul {a} {b})", "dmat")
                if bt == "mat": return (f"(msmul {a} {b})", "mat")
            raise TranslateError(f"optimize: arithmetic not recognised: {u[:100]}")
        raise TranslateError(f"optimize: expression not recognised: {u[:100]}")

    def C(self, n, env):
        """conditions -> Lean Prop / Bool text"""
        if isinstance(n, ast.Compare) and len(n.ops) == 1:
            a, b, op = n.left, n.comparators[0], n.ops[0]
            if isinstance(op, ast.Lt):
                x, xt = self.E(a, env); y, yt = self.E(b, env)
                if xt == yt == "nat": return f"{x} < {y}"
            if isinstance(op, ast.Eq):
                x, xt = self.E(a, env); y, yt = self.E(b, env)
                if xt == yt == "nat": return f"{x} = {y}"
            if isinstance(op, ast.NotEq):
                x, xt = self.E(a, env); y, yt = self.E(b, env)
                if xt == yt == "nat" and y == "0": return f"0 < {x}"
        raise TranslateError(f"optimize: condition not recognised: {U(n)[:100]}")

    def elem_cond(self, n, env, var):
        """condition on the loop element `var` of the partition loop -> Lean Bool"""
        if isinstance(n, ast.Subscript) and isinstance(n.value, ast.Name) and n.value.id in env and env[n.value.id][1] == "flags" \
                and isinstance(n.slice, ast.Name) and n.slice.id == var:
            return f"{env[n.value.id][0]}.getD v_{var} false"
        if isinstance(n, ast.Compare) and len(n.ops) == 1 and isinstance(n.ops[0], ast.In) and isinstance(n.left, ast.Name) and n.left.id == var \
                and U(n.comparators[0]) == "self.feat.feature_vertices":
            return f"P.featV.contains v_{var}"
        raise TranslateError(f"optimize: membership test of the partition loop not recognised: {U(n)[:100]}")

    # ---- statements --------------------------------------------------------------------------------------------
    def block(self, stmts, env, ind, tail_ok):
        """compile a statement list into Lean `let` lines; returns lines (the value of the block is `var`).
        tail_ok: an early `return` is allowed here (nothing but skipped statements follows the enclosing construct)"""
        env = dict(env)
        out = []
        p = " " * ind
        stmts = strip(stmts)
        i = 0
        while i < len(stmts):
            s = stmts[i]
            rest = stmts[i + 1:]
            i += 1
            if isinstance(s, ast.Expr) and isinstance(s.value, ast.Call) and U(s.value.func) == "self._check_init" and not s.value.args:
                self.notes["check_init"] = True; continue
            if isinstance(s, ast.Expr) and isinstance(s.value, ast.Call) and U(s.value.func) == "self.normalize" and not s.value.args:
                out.append(f"{p}let var := normalize N var"); continue
            if isinstance(s, ast.Assign) and len(s.targets) == 1:
                t = s.targets[0]
                if U(t) == "self.smoothed" and isinstance(s.value, ast.Constant) and s.value.value is True:
                    self.notes["sets_smoothed"] = True; continue
                if isinstance(t, ast.Tuple) and isinstance(s.value, ast.Tuple) and len(t.elts) == len(s.value.elts) \
                        and all(isinstance(e, ast.Name) for e in t.elts) and all(isinstance(v, ast.List) and not v.elts for v in s.value.elts):
                    for e in t.elts:
                        out.append(f"{p}let v_{e.id} : List Nat := []"); env[e.id] = (f"v_{e.id}", "idx")
                    continue
                if isinstance(t, ast.Name) and isinstance(s.value, ast.List) and not s.value.elts:
                    out.append(f"{p}let v_{t.id} : List Nat := []"); env[t.id] = (f"v_{t.id}", "idx"); continue
                if isinstance(t, ast.Name) and isinstance(s.value, ast.Call) and U(s.value.func) == "self.mesh.faces.create_attribute" \
                        and self.kind == "faces" and len(s.value.args) == 2 and U(s.value.args[1]) == "bool" and not s.value.keywords \
                        and isinstance(s.value.args[0], ast.Constant):
                    # create_attribute overrides an existing attribute: every call starts from all-False
                    out.append(f"{p}let v_{t.id} := List.replicate P.n false"); env[t.id] = (f"v_{t.id}", "flags"); continue
                if isinstance(t, ast.Name):
                    x, xt = self.E(s.value, env)
                    out.append(f"{p}let v_{t.id} := {x}"); env[t.id] = (f"v_{t.id}", xt); continue
                if U(t) == "self.var":
                    x, xt = self.E(s.value, env)
                    if xt != "vec": raise TranslateError("optimize: self.var assigned a non-vector")
                    out.append(f"{p}let var := {x}"); continue
                if isinstance(t, ast.Subscript) and U(t.value) == "self.var":
                    ix, it = self.E(t.slice, env); x, xt = self.E(s.value, env)
                    if it != "idx" or xt != "vec": raise TranslateError("optimize: self.var[..] = .. not of the form var[indexlist] = vector")
                    out.append(f"{p}let var := scatter var {ix} {x}"); continue
                raise TranslateError(f"optimize: assignment not recognised: {U(s)[:100]}")
            if isinstance(s, ast.If):
                body, orelse = strip(s.body), strip(s.orelse)
                if body and isinstance(body[-1], ast.Return) and body[-1].value is None and not orelse:
                    if len(body) != 1: raise TranslateError("optimize: statements before an early return")
                    if not tail_ok: raise TranslateError("optimize: early return in a position where statements follow")
                    c = self.C(s.test, env)
                    out.append(f"{p}if {c} then var else")
                    continue
                live = set()
                for r in rest: live |= names_loaded(r)
                leak = (names_stored(body) | names_stored(orelse)) & live - {"self.var"}
                if leak:
                    raise TranslateError(f"optimize: locals {sorted(leak)} assigned in a branch are used after it")
                c = self.C(s.test, env)
                only_skips_after = all(isinstance(r, ast.Assign) and U(r.targets[0]) == "self.smoothed" for r in rest)
                if orelse:
                    out.append(f"{p}let var := if {c} then")
                    out.append(f"{p}    (")
                    out += self.block(body, env, ind + 6, tail_ok and only_skips_after)
                    out.append(f"{p}      var)")
                    out.append(f"{p}  else")
                    out.append(f"{p}    (")
                    out += self.block(orelse, env, ind + 6, tail_ok and only_skips_after)
                    out.append(f"{p}      var)")
                else:
                    out.append(f"{p}let var := if {c} then")
                    out.append(f"{p}    (")
                    out += self.block(body, env, ind + 6, False)
                    out.append(f"{p}      var)")
                    out.append(f"{p}  else var")
                continue
            if isinstance(s, ast.For):
                out += self.loop(s, env, ind, rest)
                continue
            raise TranslateError(f"optimize: statement not recognised: {U(s)[:100]}")
        return out

    def loop(self, s, env, ind, rest):
        p = " " * ind
        body = strip(s.body)
        if s.orelse: raise TranslateError("optimize: for/else")
        it = U(s.iter)
        # (a) smoothing loop
        if isinstance(s.iter, ast.Call) and U(s.iter.func) == "range" and len(s.iter.args) == 1:
            cnt, ct = self.E(s.iter.args[0], env)
            if ct != "nat": raise TranslateError("optimize: range() bound is not a count")
            if isinstance(s.target, ast.Name) and s.target.id in {x for b in body for x in names_loaded(b)}:
                raise TranslateError("optimize: the smoothing loop uses its counter")
            # loop-carried state must be `var` only: no other local is read before it is written, nor used afterwards
            written, carried = set(), set()
            for b in body:
                for nm in names_loaded(b):
                    if nm in names_stored(body) and nm not in written and nm != "self.var": carried.add(nm)
                written |= names_stored([b])
            live = set()
            for r in rest: live |= names_loaded(r)
            carried |= (names_stored(body) & live) - {"self.var"}
            if carried: raise TranslateError(f"optimize: locals {sorted(carried)} are carried around the smoothing loop")
            out = [f"{p}let var := iter (fun var =>"]
            out += self.block(body, env, ind + 4, False)
            out.append(f"{p}    var) {cnt} var")
            return out
        # (b) fixed flags from the feature edges
        if it == "self.feat.feature_edges" and isinstance(s.target, ast.Name) and self.kind == "faces":
            ie = s.target.id
            if len(body) < 2: raise TranslateError("optimize: loop over feature edges too short")
            h0, h1 = body[0], body[1]
            ok0 = isinstance(h0, ast.Assign) and isinstance(h0.targets[0], ast.Tuple) and len(h0.targets[0].elts) == 2 \
                and U(h0.value) == f"self.mesh.edges[{ie}]"
            if not ok0: raise TranslateError("optimize: first statement of the feature-edge loop is not `u,v = self.mesh.edges[ie]`")
            u, v = (U(e) for e in h0.targets[0].elts)
            ok1 = isinstance(h1, ast.Assign) and isinstance(h1.targets[0], ast.Tuple) and len(h1.targets[0].elts) == 2 \
                and U(h1.value) == f"self.mesh.connectivity.edge_to_faces({u},{v})"
            if not ok1: raise TranslateError("optimize: second statement of the feature-edge loop is not `T1,T2 = ...edge_to_faces(u,v)`")
            t1, t2 = (U(e) for e in h1.targets[0].elts)
            env2 = dict(env); env2[t1] = (f"v_{t1}", "optnat"); env2[t2] = (f"v_{t2}", "optnat")
            targets = set()
            lines = [f"{p}    let v_{t1} := it.1", f"{p}    let v_{t2} := it.2"]
            for b in body[2:]:
                # if T is not None: fixed[T] = True
                okb = isinstance(b, ast.If) and not b.orelse and isinstance(b.test, ast.Compare) and isinstance(b.test.ops[0], ast.IsNot) \
                    and U(b.test.comparators[0]) == "None" and isinstance(b.test.left, ast.Name) and b.test.left.id in (t1, t2)
                bb = strip(b.body) if okb else []
                okb = okb and len(bb) == 1 and isinstance(bb[0], ast.Assign) and isinstance(bb[0].targets[0], ast.Subscript) \
                    and isinstance(bb[0].targets[0].value, ast.Name) and env.get(bb[0].targets[0].value.id, ("", ""))[1] == "flags" \
                    and U(bb[0].targets[0].slice) == b.test.left.id and isinstance(bb[0].value, ast.Constant) and bb[0].value.value is True
                if not okb: raise TranslateError(f"optimize: statement of the feature-edge loop not recognised: {U(b)[:100]}")
                fl = bb[0].targets[0].value.id
                targets.add(fl)
                lines.append(f"{p}    let v_{fl} := setSome v_{fl} v_{b.test.left.id}")
            if len(targets) != 1: raise TranslateError("optimize: the feature-edge loop does not write exactly one flag container")
            fl = targets.pop()
            return [f"{p}let v_{fl} := P.featAdj.foldl (fun v_{fl} it =>"] + lines + [f"{p}    v_{fl}) v_{fl}"]
        # (c) partition loop
        if it == self.ids and isinstance(s.target, ast.Name) and len(body) == 1 and isinstance(body[0], ast.If):
            v = s.target.id
            iff = body[0]
            a, b = strip(iff.body), strip(iff.orelse)

            def app(x):
                ok = len(x) == 1 and isinstance(x[0], ast.Expr) and isinstance(x[0].value, ast.Call) and isinstance(x[0].value.func, ast.Attribute) \
                    and x[0].value.func.attr == "append" and isinstance(x[0].value.func.value, ast.Name) and len(x[0].value.args) == 1 \
                    and U(x[0].value.args[0]) == v and env.get(x[0].value.func.value.id, ("", ""))[1] == "idx"
                if not ok: raise TranslateError("optimize: branch of the partition loop is not `<list>.append(<element>)`")
                return x[0].value.func.value.id
            la, lb = app(a), app(b)
            if la == lb: raise TranslateError("optimize: both branches of the partition loop append to the same list")
            test = iff.test
            neg = False
            if isinstance(test, ast.UnaryOp) and isinstance(test.op, ast.Not):
                test, neg = test.operand, True
            if isinstance(test, ast.Compare) and isinstance(test.ops[0], ast.NotIn):
                test = ast.Compare(test.left, [ast.In()], test.comparators); neg = not neg
            c = self.elem_cond(test, env, v)
            pos, negl = (lb, la) if neg else (la, lb)
            return [f"{p}let v_{pos} := v_{pos} ++ (List.range P.n).filter (fun v_{v} => {c})",
                    f"{p}let v_{negl} := v_{negl} ++ (List.range P.n).filter (fun v_{v} => !({c}))"]
        raise TranslateError(f"optimize: loop not recognised: for {U(s.target)} in {it[:80]}")


def gen_optimize(kind):
    rel, cls, name = (FACES, "FrameField2DFaces", "optimizeFaces") if kind == "faces" else (VERTS, "FrameField2DVertices", "optimizeVerts")
    fn = load_fn(rel, f"{cls}.optimize")
    if [a.arg for a in fn.args.args] != ["self"] or fn.args.vararg or fn.args.kwarg:
        raise TranslateError("optimize takes arguments")
    o = Opt(kind)
    lines = o.block(fn.body, {}, 2, True)
    if not o.notes.get("check_init"):
        raise TranslateError(f"{cls}.optimize does not start with self._check_init()")
    txt = f"/-- `{cls}.optimize` ({rel}) -/\ndef {name} (N : Num) (P : OptIn) (var : Vec) : Vec :=\n" + "\n".join(lines) + "\n  var\n"
    txt += f"/-- does `{cls}.optimize` set `self.smoothed` itself? -/\ndef {name}SetsSmoothed : Bool := {'true' if o.notes.get('sets_smoothed') else 'false'}\n"
    return txt, {"lines": len(lines), "sets_smoothed": bool(o.notes.get("sets_smoothed"))}


# ----------------------------------------------------------------------------------------------------------------
# base.py: normalize, run, _check_init
# ----------------------------------------------------------------------------------------------------------------
def gen_normalize():
    fn = load_fn(BASE, "FrameField.normalize")
    body = strip(fn.body)
    guards_none = False
    if body and isinstance(body[0], ast.If) and U(body[0].test) == "self.varisNone" and len(strip(body[0].body)) == 1 \
            and isinstance(strip(body[0].body)[0], ast.Return) and not body[0].orelse:
        guards_none = True; body = body[1:]
    if len(body) != 1 or not isinstance(body[0], ast.For):
        raise TranslateError("normalize: body is not one loop")
    loop = body[0]
    if not (isinstance(loop.target, ast.Name) and isinstance(loop.iter, ast.Call) and U(loop.iter.func) == "range" and not loop.orelse):
        raise TranslateError("normalize: loop is not `for i in range(..)`")
    i = loop.target.id

    def bound(n):
        if U(n) in ("self.var.size", "len(self.var)", "self.var.shape[0]"): return "var.length"
        if isinstance(n, ast.Constant): return natlit(n)
        if isinstance(n, ast.BinOp) and isinstance(n.op, (ast.Sub, ast.Add)):
            return f"({bound(n.left)} {'-' if isinstance(n.op, ast.Sub) else '+'} {bound(n.right)})"
        raise TranslateError(f"normalize: loop bound not recognised: {U(n)}")
    a = loop.iter.args
    if len(a) == 1: lo, hi = "0", bound(a[0])
    elif len(a) == 2: lo, hi = bound(a[0]), bound(a[1])
    else: raise TranslateError("normalize: range() with a step")
    lb = strip(loop.body)
    if len(lb) != 1 or not isinstance(lb[0], ast.If) or lb[0].orelse:
        raise TranslateError("normalize: loop body is not one guarded statement")
    g = lb[0]
    elt = f"self.var[{i}]"
    t = g.test
    if not (isinstance(t, ast.Compare) and len(t.ops) == 1 and isinstance(t.ops[0], (ast.Lt, ast.LtE)) and U(t.comparators[0]) == f"abs({elt})"):
        raise TranslateError(f"normalize: guard is not `abs(var[i]) > THR`: {U(t)}")
    rel = "<" if isinstance(t.ops[0], ast.Lt) else "≤"
    thr = ratlit(t.left)
    gb = strip(g.body)
    ok = len(gb) == 1 and isinstance(gb[0], ast.AugAssign) and isinstance(gb[0].op, ast.Div) and U(gb[0].target) == elt and U(gb[0].value) == f"abs({elt})"
    if not ok:
        raise TranslateError("normalize: guarded statement is not `var[i] /= abs(var[i])`")
    txt = (f"/-- `FrameField.normalize` ({BASE}): `if self.var is None: return` present? -/\n"
           f"def normalizeGuardsNone : Bool := {'true' if guards_none else 'false'}\n"
           f"/-- `FrameField.normalize`: the loop (its body reads and writes `var[i]` only) -/\n"
           f"def normalize (N : Num) (var : Vec) : Vec :=\n"
           f"  mapRange {lo} {hi} (fun z => if {thr} {rel} N.abs z then cdivR z (N.abs z) else z) var\n")
    return txt, {"lo": lo, "hi": hi, "thr": thr, "rel": rel, "guards_none": guards_none}


def gen_run():
    fn = load_fn(BASE, "FrameField.run")
    body = strip(fn.body)
    lines = []
    for s in body:
        ok = isinstance(s, ast.If) and not s.orelse and isinstance(s.test, ast.UnaryOp) and isinstance(s.test.op, ast.Not) \
            and U(s.test.operand) in ("self.initialized", "self.smoothed")
        if not ok: raise TranslateError(f"run: statement is not `if not self.<flag>:` : {U(s)[:80]}")
        flag = U(s.test.operand)[5:]
        inner = []
        for b in strip(s.body):
            if isinstance(b, ast.Expr) and isinstance(b.value, ast.Call) and not b.value.args and U(b.value.func) in ("self.initialize", "self.optimize"):
                f = "init" if U(b.value.func) == "self.initialize" else "opt"
                inner.append(f"let s := {{ s with data := {f} s.data }}")
            elif isinstance(b, ast.Assign) and U(b.targets[0]) in ("self.initialized", "self.smoothed") and isinstance(b.value, ast.Constant) and isinstance(b.value.value, bool):
                inner.append(f"let s := {{ s with {U(b.targets[0])[5:]} := {'true' if b.value.value else 'false'} }}")
            else:
                raise TranslateError(f"run: statement not recognised: {U(b)[:80]}")
        lines.append(f"  let s := if !s.{flag} then ({'; '.join(inner)}; s) else s")
    init = load_fn(BASE, "FrameField.__init__")
    flags = {}
    for s in ast.walk(init):
        if isinstance(s, ast.Assign) and U(s.targets[0]) in ("self.initialized", "self.smoothed") and isinstance(s.value, ast.Constant):
            flags[U(s.targets[0])[5:]] = s.value.value
    if set(flags) != {"initialized", "smoothed"}:
        raise TranslateError("FrameField.__init__ does not set initialized / smoothed")
    ci = load_fn(BASE, "FrameField._check_init")
    cb = strip(ci.body)
    ok = len(cb) == 1 and isinstance(cb[0], ast.If) and not cb[0].orelse and U(cb[0].test) == "notself.initialized" \
        and len(strip(cb[0].body)) == 1 and isinstance(strip(cb[0].body)[0], ast.Raise)
    if not ok: raise TranslateError("_check_init is not `if not self.initialized: raise ..`")
    txt = (f"/-- `FrameField.__init__` ({BASE}): the flags of a new object -/\n"
           f"def fresh {{α : Type}} (d : α) : FFH.St α := {{ initialized := {'true' if flags['initialized'] else 'false'}, smoothed := {'true' if flags['smoothed'] else 'false'}, data := d }}\n"
           f"/-- `FrameField.run` -/\n"
           f"def run {{α : Type}} (init opt : α → α) (s : FFH.St α) : FFH.St α :=\n" + "\n".join(lines) + "\n  s\n"
           f"/-- `FrameField._check_init`: does it raise? -/\n"
           f"def checkInitRaises (initialized : Bool) : Bool := !initialized\n")
    return txt, {"steps": len(lines)}


def gen_initialize(kind):
    rel, cls, name = (FACES, "FrameField2DFaces", "initializeFaces") if kind == "faces" else (VERTS, "FrameField2DVertices", "initializeVerts")
    fn = load_fn(rel, f"{cls}.initialize")
    lines = []
    for s in strip(fn.body):
        if isinstance(s, ast.Expr) and isinstance(s.value, ast.Call) and not s.value.args and U(s.value.func) in ("self._initialize_attributes", "self._initialize_variables"):
            f = "attrs" if U(s.value.func).endswith("attributes") else "vars"
            lines.append(f"  let s := {{ s with data := {f} s.data }}")
        elif isinstance(s, ast.If) and not s.orelse and U(s.test) == "self.cad_correction" and len(strip(s.body)) == 1 \
                and U(strip(s.body)[0]) == "self._modify_parallel_transport()" and kind == "verts":
            lines.append("  let s := if cad then { s with data := mpt s.data } else s")
        elif isinstance(s, ast.Assign) and U(s.targets[0]) == "self.initialized" and isinstance(s.value, ast.Constant) and isinstance(s.value.value, bool):
            lines.append(f"  let s := {{ s with initialized := {'true' if s.value.value else 'false'} }}")
        else:
            raise TranslateError(f"{cls}.initialize: statement not recognised: {U(s)[:80]}")
    extra = " (cad : Bool) (mpt : α → α)" if kind == "verts" else ""
    txt = (f"/-- `{cls}.initialize` ({rel}) -/\n"
           f"def {name} {{α : Type}} (attrs vars : α → α){extra} (s : FFH.St α) : FFH.St α :=\n" + "\n".join(lines) + "\n  s\n")
    return txt, {"steps": len(lines)}


# ----------------------------------------------------------------------------------------------------------------
# faces2d.py: _initialize_variables
# ----------------------------------------------------------------------------------------------------------------
def gen_init_faces():
    fn = load_fn(FACES, "_BaseFrameField2DFaces._initialize_variables")
    body = strip(fn.body)
    if len(body) != 2: raise TranslateError("faces _initialize_variables: expected `self.var = zeros(..)` and one loop")
    z, loop = body
    if not (isinstance(z, ast.Assign) and U(z.targets[0]) == "self.var" and U(z.value) in ("np.zeros(len(self.mesh.faces),dtype=complex)",)):
        raise TranslateError("faces _initialize_variables: self.var is not np.zeros(len(self.mesh.faces), dtype=complex)")
    if not (isinstance(loop, ast.For) and U(loop.iter) == "self.feat.feature_edges" and isinstance(loop.target, ast.Name) and not loop.orelse):
        raise TranslateError("faces _initialize_variables: outer loop is not over self.feat.feature_edges")
    e = loop.target.id
    lb = strip(loop.body)
    if len(lb) != 3: raise TranslateError("faces _initialize_variables: outer loop body is not (ends, edge vector, inner loop)")
    h0, h1, inner = lb
    if not (isinstance(h0, ast.Assign) and isinstance(h0.targets[0], ast.Tuple) and len(h0.targets[0].elts) == 2 and U(h0.value) == f"self.mesh.edges[{e}]"):
        raise TranslateError("faces _initialize_variables: `e1,e2 = self.mesh.edges[e]` not found")
    e1, e2 = (U(x) for x in h0.targets[0].elts)
    if not (isinstance(h1, ast.Assign) and isinstance(h1.targets[0], ast.Name)):
        raise TranslateError("faces _initialize_variables: edge vector not found")
    ev = h1.targets[0].id
    if U(h1.value) == f"self.mesh.vertices[{e2}]-self.mesh.vertices[{e1}]": sign = ""
    elif U(h1.value) == f"self.mesh.vertices[{e1}]-self.mesh.vertices[{e2}]": sign = "cneg "
    else: raise TranslateError(f"faces _initialize_variables: edge vector is not a difference of the two ends: {U(h1.value)}")
    if not (isinstance(inner, ast.For) and isinstance(inner.target, ast.Name) and not inner.orelse
            and U(inner.iter) == f"self.mesh.connectivity.edge_to_faces({e1},{e2})"):
        raise TranslateError("faces _initialize_variables: inner loop is not over edge_to_faces(e1,e2)")
    Tn = inner.target.id
    ib = strip(inner.body)
    if len(ib) != 4: raise TranslateError("faces _initialize_variables: inner loop body is not (None-skip, basis, projection, write)")
    sk, bs, pc, wr = ib
    if not (isinstance(sk, ast.If) and U(sk.test) == f"{Tn}isNone" and len(strip(sk.body)) == 1 and isinstance(strip(sk.body)[0], ast.Continue) and not sk.orelse):
        raise TranslateError("faces _initialize_variables: `if T is None: continue` not found")
    if not (isinstance(bs, ast.Assign) and isinstance(bs.targets[0], ast.Tuple) and len(bs.targets[0].elts) == 2 and U(bs.value) == f"self.conn.base({Tn})"):
        raise TranslateError("faces _initialize_variables: `X,Y = self.conn.base(T)` not found")
    X, Y = (U(x) for x in bs.targets[0].elts)
    if not (isinstance(pc, ast.Assign) and isinstance(pc.targets[0], ast.Name)):
        raise TranslateError("faces _initialize_variables: projection not found")
    c = pc.targets[0].id
    forms = {f"complex({ev}.dot({X}),{ev}.dot({Y}))", f"complex({X}.dot({ev}),{Y}.dot({ev}))", f"complex(geom.dot({ev},{X}),geom.dot({ev},{Y}))"}
    if U(pc.value) not in forms:
        raise TranslateError(f"faces _initialize_variables: projection is not complex(edge.X, edge.Y): {U(pc.value)}")
    if not (isinstance(wr, ast.Assign) and U(wr.targets[0]) == f"self.var[{Tn}]"):
        raise TranslateError("faces _initialize_variables: write is not self.var[T] = ..")
    v = wr.value
    if not (isinstance(v, ast.BinOp) and isinstance(v.op, ast.Pow) and U(v.left) == f"{c}/abs({c})"):
        raise TranslateError(f"faces _initialize_variables: written value is not (c/abs(c))**E: {U(v)}")
    if U(v.right) in ("self.order", "order"): expo = "order"
    else: expo = natlit(v.right)
    txt = (f"/-- `_BaseFrameField2DFaces._initialize_variables` ({FACES}); `proj e T` is `complex(edge.dot(X), edge.dot(Y))` for the edge\n"
           f"vector `vertices[e2] - vertices[e1]` of feature edge `e` in the basis of face `T` -/\n"
           f"def initVariablesFaces (N : Num) (order n : Nat) (proj : Nat → Nat → Cpx) (featEdges : List FeatEdge) : Vec :=\n"
           f"  let var := List.replicate n czero\n"
           f"  let var := featEdges.foldl (fun var v_{e} =>\n"
           f"    let var := v_{e}.adj.foldl (fun var v_{Tn} =>\n"
           f"      match v_{Tn} with\n"
           f"      | none => var\n"
           f"      | some v_{Tn} =>\n"
           f"        let v_{c} := {sign}(proj v_{e}.id v_{Tn})\n"
           f"        let var := var.set v_{Tn} (cpow (cdivR v_{c} (N.abs v_{c})) {expo})\n"
           f"        var) var\n"
           f"    var) var\n"
           f"  var\n")
    return txt, {"exponent": expo, "edge_sign": sign or "+"}


def write_stub(name, recs):
    """a site of this file was not recognised: replace lean/Mouette/Generated/<name>.lean by a stub naming the broken sites, so that
    everything bridged to it fails to build against THIS tree (and the build log never talks about an earlier tree)"""
    bad = [r for r in recs if not r["ok"]]
    lines = "\n".join(f"  * {r['site']}: {str(r['detail'])[:300]}".replace("-/", "- /").replace("/-", "/ -") for r in bad)
    body = (f"/- TRANSLATION FAILED for the current source tree; the definitions of this file are deliberately absent.\n{lines}\n-/\n"
            f"namespace Mouette.Generated.Stub\ndef {name}TranslationFailed : Bool := true\nend Mouette.Generated.Stub\n")
    T.write_generated(name, body)


def run():
    parts, recs = [], []

    def wrap(name, fn):
        def g():
            txt, info = fn()
            parts.append(txt)
            return {k: str(v) for k, v in info.items()}
        recs.append(T.site(name, g))
    wrap("base.FrameField.normalize (imperative)", gen_normalize)
    wrap("base.FrameField.run / __init__ / _check_init (imperative)", gen_run)
    wrap("faces2d.FrameField2DFaces.initialize (imperative)", lambda: gen_initialize("faces"))
    wrap("vertex2d.FrameField2DVertices.initialize (imperative)", lambda: gen_initialize("verts"))
    wrap("faces2d._initialize_variables (imperative)", gen_init_faces)
    wrap("faces2d.FrameField2DFaces.optimize (imperative)", lambda: gen_optimize("faces"))
    wrap("vertex2d.FrameField2DVertices.optimize (imperative)", lambda: gen_optimize("verts"))
    for extra in EXTRA_SITES:
        wrap(*extra)
    if all(r["ok"] for r in recs):
        body = ("import Mouette.Model.FrameFieldSrc\nimport Mouette.Generated.C18Hist\nimport Mouette.Generated.C18Vertex\nset_option linter.unusedVariables false\nnamespace Mouette.Generated.C18S\n"
                "open Mouette.FF Mouette.FFS Mouette.Generated\n\n" + "\n".join(parts) + "\nend Mouette.Generated.C18S\n")
        _, sha = T.write_generated("C18Src", body)
        for r in recs: r["detail"] = f"{r['detail']} [file sha {sha}]"
    if not all(r["ok"] for r in recs):
        write_stub("C18Src", recs)          # never leave the file of an earlier tree on disk
    return recs


# ----------------------------------------------------------------------------------------------------------------
# faces2d.py: flag_singularities
# ----------------------------------------------------------------------------------------------------------------
def _reuse(st, var, container):
    """`if C.has_attribute(n): x = C.get_attribute(n); [x.clear()] else: x = C.create_attribute(..)` -> cleared?"""
    if not (isinstance(st, ast.If) and isinstance(st.test, ast.Call) and U(st.test.func) == f"{container}.has_attribute"):
        raise TranslateError(f"flag_singularities: expected the re-use test of `{var}` on {container}")
    b, o = strip(st.body), strip(st.orelse)
    if not (b and isinstance(b[0], ast.Assign) and U(b[0].targets[0]) == var and isinstance(b[0].value, ast.Call) and U(b[0].value.func) == f"{container}.get_attribute"
            and U(b[0].value.args[0]) == U(st.test.args[0])):
        raise TranslateError(f"flag_singularities: re-use branch of `{var}` is not get_attribute of the tested name")
    if not (len(o) == 1 and isinstance(o[0], ast.Assign) and U(o[0].targets[0]) == var and isinstance(o[0].value, ast.Call)
            and U(o[0].value.func) == f"{container}.create_attribute" and U(o[0].value.args[0]) == U(st.test.args[0])):
        raise TranslateError(f"flag_singularities: else branch of `{var}` is not create_attribute of the tested name")
    rest = b[1:]
    if not rest: return False
    if len(rest) == 1 and U(rest[0]) == f"{var}.clear()": return True
    raise TranslateError(f"flag_singularities: unexpected statements in the re-use branch of `{var}`")


def gen_flag_faces():
    from . import c18htranslate as TRH
    from .c18vtranslate import expr as vexpr, names as vnames
    m = TRH.site_faces_flag()          # shapes of a1, a2, u2, angles, argmin, store, start of the sum, write guard (raises otherwise)
    fn = load_fn(FACES, "_BaseFrameField2DFaces.flag_singularities")
    body = strip(fn.body)
    if len(body) != 6:
        raise TranslateError(f"faces flag_singularities: expected 6 top-level statements (check, threshold, re-use, edge loop, re-use, vertex loop), found {len(body)}")
    chk, zt, ru1, eloop, ru2, vloop = body
    if U(chk) != "self._check_init()": raise TranslateError("faces flag_singularities does not start with self._check_init()")
    if not (isinstance(zt, ast.Assign) and U(zt.targets[0]) == "ZERO_THRESHOLD"): raise TranslateError("ZERO_THRESHOLD assignment not in second position")
    thr = ratlit(zt.value)
    c1 = _reuse(ru1, "edge_rot", "self.mesh.edges")
    c2 = _reuse(ru2, "singuls", "self.mesh.vertices")
    # ---- edge loop
    if not (isinstance(eloop, ast.For) and U(eloop.iter) == "enumerate(self.mesh.edges)" and isinstance(eloop.target, ast.Tuple)
            and len(eloop.target.elts) == 2 and isinstance(eloop.target.elts[1], ast.Tuple) and len(eloop.target.elts[1].elts) == 2):
        raise TranslateError("faces flag_singularities: edge loop is not `for ie,(A,B) in enumerate(self.mesh.edges)`")
    ie = U(eloop.target.elts[0]); A, B = (U(x) for x in eloop.target.elts[1].elts)
    eb = strip(eloop.body)
    kinds = [U(s.targets[0]) if isinstance(s, ast.Assign) else type(s).__name__ for s in eb]
    want = ["(T1,T2)", "If", "(f1,f2)", "E", "(X1,Y1)", "(X2,Y2)", "a1", "a2", "u2", "angles", "abs_angles", "i_angle", f"edge_rot[{ie}]"]
    if kinds != want:
        raise TranslateError(f"faces flag_singularities: statements of the edge loop are {kinds}, expected {want}")
    if U(eb[0].value) != f"self.mesh.connectivity.edge_to_faces({A},{B})": raise TranslateError("T1,T2 is not edge_to_faces(A,B)")
    fv = U(eb[2].value)
    if fv == "(self.var[T1],self.var[T2])": f1, f2 = "v_T1", "v_T2"
    elif fv == "(self.var[T2],self.var[T1])": f1, f2 = "v_T2", "v_T1"
    else: raise TranslateError(f"f1,f2 is not self.var[T1], self.var[T2]: {fv}")
    ev = U(eb[3].value)
    if ev == f"self.mesh.vertices[{B}]-self.mesh.vertices[{A}]": esign = ""
    else: raise TranslateError(f"E is not vertices[B] - vertices[A]: {ev}")
    bx = {}
    for s, (x, y) in ((eb[4], ("X1", "Y1")), (eb[5], ("X2", "Y2"))):
        v = U(s.value)
        if v == "self.conn.base(T1)": bx[x] = "v_T1"
        elif v == "self.conn.base(T2)": bx[x] = "v_T2"
        else: raise TranslateError(f"{x},{y} is not self.conn.base(T1|T2): {v}")
    if U(eb[10].value) != "[abs(_a)for_ainangles]": raise TranslateError(f"abs_angles is not [abs(_a) for _a in angles]: {U(eb[10].value)}")
    args = f"(C18V.rootPhase (P.theta {f2}) P.order 0) (P.ang it.1 {bx['X2']}) (C18V.rootPhase (P.theta {f1}) P.order k) (P.ang it.1 {bx['X1']})"
    # ---- vertex loop
    if not (isinstance(vloop, ast.For) and U(vloop.iter) == "self.mesh.id_vertices" and isinstance(vloop.target, ast.Name)):
        raise TranslateError("faces flag_singularities: vertex loop is not `for v in self.mesh.id_vertices`")
    v = vloop.target.id
    vb = strip(vloop.body)
    if len(vb) != 3: raise TranslateError("faces flag_singularities: vertex loop body is not (start, inner loop, guarded write)")
    st, inner, wr = vb
    if not (isinstance(st, ast.Assign) and isinstance(st.targets[0], ast.Name) and U(st.value) == f"self.defect[{v}]"):
        raise TranslateError("faces flag_singularities: the sum does not start from self.defect[v]")
    ang = st.targets[0].id
    if not (isinstance(inner, ast.For) and isinstance(inner.target, ast.Name) and U(inner.iter) == f"self.mesh.connectivity.vertex_to_edges({v})"):
        raise TranslateError("faces flag_singularities: inner loop is not over vertex_to_edges(v)")
    e = inner.target.id
    ib = strip(inner.body)
    if not (len(ib) == 2 and isinstance(ib[0], ast.Assign) and isinstance(ib[0].targets[0], ast.Name)
            and U(ib[0].value) == f"self.mesh.connectivity.other_edge_end({e},{v})"):
        raise TranslateError("faces flag_singularities: `u = other_edge_end(e,v)` not found")
    u = ib[0].targets[0].id
    au = ib[1]
    if not (isinstance(au, ast.AugAssign) and isinstance(au.op, (ast.Add, ast.Sub)) and U(au.target) == ang and isinstance(au.value, ast.IfExp)):
        raise TranslateError("faces flag_singularities: `angle += edge_rot[e] if u<v else -edge_rot[e]` not found")
    t = au.value.test
    if not (isinstance(t, ast.Compare) and len(t.ops) == 1 and isinstance(t.ops[0], (ast.Lt, ast.LtE)) and {U(t.left), U(t.comparators[0])} == {u, v}):
        raise TranslateError(f"faces flag_singularities: sign test is not a comparison of u and v: {U(t)}")
    rel = "<" if isinstance(t.ops[0], ast.Lt) else "≤"
    cond = f"v_{U(t.left)} {rel} v_{U(t.comparators[0])}"

    def term(n):
        if U(n) == f"edge_rot[{e}]": return f"FFH.lookup v_edge_rot v_{e}"
        if U(n) == f"-edge_rot[{e}]": return f"-(FFH.lookup v_edge_rot v_{e})"
        raise TranslateError(f"faces flag_singularities: branch of the sign expression is not ±edge_rot[e]: {U(n)}")
    op = "+" if isinstance(au.op, ast.Add) else "-"
    upd = f"v_{ang} {op} (if {cond} then {term(au.value.body)} else {term(au.value.orelse)})"
    if not (isinstance(wr, ast.If) and not wr.orelse and isinstance(wr.test, ast.Compare) and isinstance(wr.test.ops[0], (ast.Lt, ast.LtE))
            and U(wr.test.left) == "ZERO_THRESHOLD" and U(wr.test.comparators[0]) == f"abs({ang})"):
        raise TranslateError(f"faces flag_singularities: write guard is not abs(angle) > ZERO_THRESHOLD: {U(wr.test)}")
    grel = "<" if isinstance(wr.test.ops[0], ast.Lt) else "≤"
    wb = strip(wr.body)
    if not (len(wb) == 1 and isinstance(wb[0], ast.Assign) and U(wb[0].targets[0]) == f"singuls[{v}]"):
        raise TranslateError("faces flag_singularities: guarded statement is not singuls[v] = ..")
    val = vexpr(wb[0].value, vnames({ang: f"v_{ang}"}))
    b = lambda x: "true" if x else "false"
    txt = (f"/-- `_BaseFrameField2DFaces.flag_singularities` ({FACES}), first half: the `angles` edge attribute (re-used and cleared, or created),\n"
           f"then one write per INTERIOR edge (`T1 is None or T2 is None` skipped): the candidate of least absolute value.\n"
           f"`theta T` = phase of `var[T]`, `ang ie T` = `atan2(Y_T.E, X_T.E)` for `E = vertices[B] - vertices[A]`; all in turns -/\n"
           f"def flagEdgeRotFaces (P : FlagFacesIn) (old : Option FFH.Attr) : FFH.Attr :=\n"
           f"  let v_edge_rot := FFH.flagInto {b(c1)} old []\n"
           f"  let v_edge_rot := (List.zip (List.range P.edges.length) P.edges).foldl (fun v_edge_rot it =>\n"
           f"      match it.2.1, it.2.2 with\n"
           f"      | some v_T1, some v_T2 =>\n"
           f"        let v_angles := (List.range P.order).map (fun k => C18V.angleDiff (C18H.faceMatchFst {args}) (C18H.faceMatchSnd {args}))\n"
           f"        v_edge_rot ++ [(it.1, argminAbs v_angles)]\n"
           f"      | _, _ => v_edge_rot) v_edge_rot\n"
           f"  v_edge_rot\n"
           f"/-- second half: the `singuls` vertex attribute (re-used and cleared, or created); per vertex the sum starts from the angle defect,\n"
           f"runs over `vertex_to_edges(v)` with the sign test on `other_edge_end(e,v)`, and is stored (scaled) when above the threshold -/\n"
           f"def flagSingulsFaces (P : FlagFacesIn) (v_edge_rot : FFH.Attr) (old : Option FFH.Attr) : FFH.Attr :=\n"
           f"  let v_singuls := FFH.flagInto {b(c2)} old []\n"
           f"  let v_singuls := (List.range P.nV).foldl (fun v_singuls v_{v} =>\n"
           f"      let v_{ang} := P.defect v_{v}\n"
           f"      let v_{ang} := (P.vertexEdges v_{v}).foldl (fun v_{ang} v_{e} =>\n"
           f"          let v_{u} := P.otherEnd v_{e} v_{v}\n"
           f"          let v_{ang} := {upd}\n"
           f"          v_{ang}) v_{ang}\n"
           f"      if P.thrTurns {grel} rabs v_{ang} then v_singuls ++ [(v_{v}, {val})] else v_singuls) v_singuls\n"
           f"  v_singuls\n"
           f"/-- `ZERO_THRESHOLD` (radians) -/\n"
           f"def zeroThresholdFaces : Rat := {thr}\n")
    return txt, {"cleared": (c1, c2), "f1": f1, "f2": f2, "bases": bx, "sign": upd, "guard": grel, "value": val, "fst": m["fst"], "snd": m["snd"]}


EXTRA_SITES = [("faces2d.flag_singularities (imperative: both loops)", gen_flag_faces)]

# ----------------------------------------------------------------------------------------------------------------
# vertex2d.py: _initialize_variables (whole body)
# ----------------------------------------------------------------------------------------------------------------
def _expo(n):
    return "order" if U(n) in ("self.order", "order") else natlit(n)


def _vinit_loop(loop, guarded_expected):
    """one `for e in self.feat.feature_edges:` loop of the vertex-based _initialize_variables -> Lean lines of the fold body"""
    if not (isinstance(loop, ast.For) and U(loop.iter) == "self.feat.feature_edges" and isinstance(loop.target, ast.Name) and not loop.orelse):
        raise TranslateError("vertex _initialize_variables: loop is not over self.feat.feature_edges")
    e = loop.target.id
    body = strip(loop.body)
    if not (body and isinstance(body[0], ast.Assign) and isinstance(body[0].targets[0], ast.Tuple) and len(body[0].targets[0].elts) == 2
            and U(body[0].value) == f"self.mesh.edges[{e}]"):
        raise TranslateError("vertex _initialize_variables: `A,B = self.mesh.edges[e]` not found")
    A, B = (U(x) for x in body[0].targets[0].elts)
    ends = {A: "it.a", B: "it.b"}
    env = {}          # local -> (lean, kind)
    lines = [f"let v_{A} := it.a", f"let v_{B} := it.b"]
    edge_sign = {}

    def val(n):
        """complex value expressions"""
        if isinstance(n, ast.Name) and n.id in env and env[n.id][1] == "cpx": return env[n.id][0]
        if isinstance(n, ast.BinOp) and isinstance(n.op, ast.Pow):
            b = n.left
            if isinstance(b, ast.BinOp) and isinstance(b.op, ast.Div) and isinstance(b.left, ast.Name) and U(b.right) == f"abs({b.left.id})" \
                    and b.left.id in env and env[b.left.id][1] == "cpx":
                x = env[b.left.id][0]
                return f"(cpow (cdivR {x} (N.abs {x})) {_expo(n.right)})"
            if isinstance(b, ast.Call) and U(b.func) == "cmath.rect" and len(b.args) == 2 and U(b.args[0]) in ("1", "1.0", "1.") \
                    and isinstance(b.args[1], ast.Call) and U(b.args[1].func) == "self.conn.transport" and len(b.args[1].args) == 2 \
                    and all(U(a) in ends for a in b.args[1].args):
                p, q = (U(a) for a in b.args[1].args)
                return f"(cpow (rect v_{p} v_{q}) {_expo(n.right)})"
        raise TranslateError(f"vertex _initialize_variables: value not recognised: {U(n)[:100]}")
    for s in body[1:]:
        if isinstance(s, ast.Assign) and isinstance(s.targets[0], ast.Name) and U(s.value) in (f"self.mesh.vertices[{B}]-self.mesh.vertices[{A}]", f"self.mesh.vertices[{A}]-self.mesh.vertices[{B}]"):
            edge_sign[s.targets[0].id] = "" if U(s.value).startswith(f"self.mesh.vertices[{B}]") else "cneg "
            continue
        if isinstance(s, ast.Assign) and isinstance(s.targets[0], ast.Tuple) and len(s.targets[0].elts) == 2 and isinstance(s.value, ast.Call) \
                and U(s.value.func) == "self.conn.project" and len(s.value.args) == 2 and U(s.value.args[0]) in edge_sign and U(s.value.args[1]) in ends:
            x, y = (U(t) for t in s.targets[0].elts)
            env[x] = ((U(s.value.args[0]), U(s.value.args[1])), "px"); env[y] = ((U(s.value.args[0]), U(s.value.args[1])), "py")
            continue
        if isinstance(s, ast.Assign) and isinstance(s.targets[0], ast.Name) and isinstance(s.value, ast.Call) and U(s.value.func) == "complex" and len(s.value.args) == 2:
            a, b = (U(t) for t in s.value.args)
            if not (a in env and b in env and env[a][1] == "px" and env[b][1] == "py" and env[a][0] == env[b][0]):
                raise TranslateError(f"vertex _initialize_variables: complex(..) is not built from one projection: {U(s)}")
            ed, X = env[a][0]
            nm = s.targets[0].id
            lines.append(f"let v_{nm} := {edge_sign[ed]}(proj it.id v_{X})"); env[nm] = (f"v_{nm}", "cpx")
            continue
        if isinstance(s, ast.Assign) and isinstance(s.targets[0], ast.Name):
            nm = s.targets[0].id
            lines.append(f"let v_{nm} := {val(s.value)}"); env[nm] = (f"v_{nm}", "cpx")
            continue
        if isinstance(s, ast.AugAssign) and isinstance(s.op, ast.Add) and isinstance(s.target, ast.Subscript) and U(s.target.value) == "self.var" and U(s.target.slice) in ends:
            X = U(s.target.slice); w = val(s.value)
            lines.append(f"let var := var.set v_{X} (cadd (var.getD v_{X} czero) {w})")
            continue
        if isinstance(s, ast.If) and not s.orelse and isinstance(s.test, ast.Compare) and len(s.test.ops) == 1 and isinstance(s.test.ops[0], (ast.Lt, ast.LtE)):
            thr = ratlit(s.test.left)
            rel = "<" if isinstance(s.test.ops[0], ast.Lt) else "≤"
            b = strip(s.body)
            ok = len(b) == 1 and isinstance(b[0], ast.AugAssign) and isinstance(b[0].op, ast.Add) and isinstance(b[0].target, ast.Subscript) \
                and U(b[0].target.value) == "self.var" and U(b[0].target.slice) in ends
            if not ok: raise TranslateError(f"vertex _initialize_variables: guarded statement is not `self.var[X] += w`: {U(s)[:100]}")
            X = U(b[0].target.slice); w = val(b[0].value)
            c = s.test.comparators[0]
            if not (isinstance(c, ast.Call) and U(c.func) == "abs" and isinstance(c.args[0], ast.BinOp) and isinstance(c.args[0].op, ast.Add)
                    and {U(c.args[0].left), U(c.args[0].right)} == {f"self.var[{X}]", U(b[0].value)}):
                raise TranslateError(f"vertex _initialize_variables: guard is not abs(self.var[X] + w) > THR for the X, w of the guarded statement: {U(s.test)}")
            lines.append(f"let var := if {thr} {rel} N.abs (cadd (var.getD v_{X} czero) {w}) then var.set v_{X} (cadd (var.getD v_{X} czero) {w}) else var")
            continue
        raise TranslateError(f"vertex _initialize_variables: statement not recognised: {U(s)[:100]}")
    return lines


def gen_init_verts():
    fn = load_fn(VERTS, "_BaseFrameField2DVertices._initialize_variables")
    body = strip(fn.body)
    if len(body) != 2 or not isinstance(body[0], ast.If) or not isinstance(body[1], ast.For):
        raise TranslateError("vertex _initialize_variables: body is not (if/else over the accumulation, normalisation loop)")
    br, nl = body
    t = br.test
    ok = isinstance(t, ast.BoolOp) and isinstance(t.op, ast.And) and len(t.values) == 2 and U(t.values[0]) == "self.smooth_normals"
    if ok and U(t.values[1]) == "self.order%2!=1": cond = "smoothNormals && (order % 2 != 1)"
    elif ok and U(t.values[1]) == "self.order%2==0": cond = "smoothNormals && (order % 2 == 0)"
    else: raise TranslateError(f"vertex _initialize_variables: branch condition not recognised: {U(t)}")
    th, el = strip(br.body), strip(br.orelse)
    if len(th) != 1 or len(el) != 1: raise TranslateError("vertex _initialize_variables: each branch must be one loop")
    l1, l2 = _vinit_loop(th[0], True), _vinit_loop(el[0], False)
    if not (U(nl.iter) == "self.feat.feature_vertices" and isinstance(nl.target, ast.Name) and not nl.orelse):
        raise TranslateError("vertex _initialize_variables: last loop is not over self.feat.feature_vertices")
    A = nl.target.id
    nb = strip(nl.body)
    elt = f"self.var[{A}]"
    ok = len(nb) == 1 and isinstance(nb[0], ast.If) and not nb[0].orelse and isinstance(nb[0].test, ast.Compare) and isinstance(nb[0].test.ops[0], (ast.Lt, ast.LtE)) \
        and U(nb[0].test.comparators[0]) == f"abs({elt})"
    gb = strip(nb[0].body) if ok else []
    ok = ok and len(gb) == 1 and isinstance(gb[0], ast.AugAssign) and isinstance(gb[0].op, ast.Div) and U(gb[0].target) == elt and U(gb[0].value) == f"abs({elt})"
    if not ok: raise TranslateError("vertex _initialize_variables: normalisation loop is not `if abs(var[A]) > T: var[A] /= abs(var[A])`")
    thr = ratlit(nb[0].test.left); rel = "<" if isinstance(nb[0].test.ops[0], ast.Lt) else "≤"
    ind = "          "
    txt = (f"/-- `_BaseFrameField2DVertices._initialize_variables` ({VERTS}), whole body. `proj e X` = `complex(*conn.project(vertices[B]-vertices[A], X))`\n"
           f"for feature edge `e = (A,B)`, `rect P Q` = `cmath.rect(1, conn.transport(P,Q))` -/\n"
           f"def initVariablesVerts (N : Num) (order : Nat) (smoothNormals : Bool) (proj : Nat → Nat → Cpx) (rect : Nat → Nat → Cpx)\n"
           f"    (featEdges : List VFeatEdge) (featV : List Nat) (var : Vec) : Vec :=\n"
           f"  let var := if {cond} then\n"
           f"      (featEdges.foldl (fun var it =>\n" + "\n".join(ind + l for l in l1) + f"\n{ind}var) var)\n"
           f"    else\n"
           f"      (featEdges.foldl (fun var it =>\n" + "\n".join(ind + l for l in l2) + f"\n{ind}var) var)\n"
           f"  let var := featV.foldl (fun var v_{A} =>\n"
           f"      if {thr} {rel} N.abs (var.getD v_{A} czero) then var.set v_{A} (cdivR (var.getD v_{A} czero) (N.abs (var.getD v_{A} czero))) else var) var\n"
           f"  var\n")
    return txt, {"cond": cond, "guarded_steps": len(l1), "plain_steps": len(l2), "feature_threshold": thr}


EXTRA_SITES.append(("vertex2d._initialize_variables (imperative: whole body)", gen_init_verts))

# ----------------------------------------------------------------------------------------------------------------
# vertex2d.py: flag_singularities (whole body)
# ----------------------------------------------------------------------------------------------------------------
def gen_flag_verts():
    from . import c18vtranslate as TRV
    m = TRV.site_vertex_flag()       # shapes of aA/aB, uB, the comprehension, argmin, the three stores, half-edge list, curvature, selection
    fn = load_fn(VERTS, "_BaseFrameField2DVertices.flag_singularities")
    body = strip(fn.body)
    if len(body) != 8:
        raise TranslateError(f"vertex flag_singularities: expected 8 top-level statements, found {len(body)}")
    if U(body[0]) != "self._check_init()": raise TranslateError("vertex flag_singularities does not start with self._check_init()")
    pre = {U(x.targets[0]): x for x in body[1:4] if isinstance(x, ast.Assign)}
    if set(pre) != {"curvature", "ZERO_THRESHOLD", "edge_rot"}:
        raise TranslateError(f"vertex flag_singularities: statements 2-4 are not curvature / ZERO_THRESHOLD / edge_rot: {sorted(pre)}")
    if U(pre["curvature"].value) != "attributes.parallel_transport_curvature(self.mesh,self.conn,persistent=False)":
        raise TranslateError(f"curvature is not parallel_transport_curvature(self.mesh, self.conn, persistent=False): {U(pre['curvature'].value)}")
    if U(pre["edge_rot"].value) not in ("dict()", "{}"): raise TranslateError("edge_rot is not an empty dict")
    thr = ratlit(pre["ZERO_THRESHOLD"].value)
    ru1, eloop, ru2, floop = body[4:]
    c1 = _reuse(ru1, "edge_rot_attr", "self.mesh.edges")
    c2 = _reuse(ru2, "singuls", "self.mesh.faces")
    if not (isinstance(eloop, ast.For) and U(eloop.iter) == "enumerate(self.mesh.edges)" and isinstance(eloop.target, ast.Tuple)
            and len(eloop.target.elts) == 2 and isinstance(eloop.target.elts[1], ast.Tuple) and len(eloop.target.elts[1].elts) == 2):
        raise TranslateError("vertex flag_singularities: edge loop is not `for ie,(A,B) in enumerate(self.mesh.edges)`")
    ie = U(eloop.target.elts[0]); A, B = (U(x) for x in eloop.target.elts[1].elts)
    if (A, B) != ("A", "B"): raise TranslateError("vertex flag_singularities: the edge loop does not name the ends A, B")
    eb = strip(eloop.body)
    kinds = [U(x.targets[0]) if isinstance(x, ast.Assign) else type(x).__name__ for x in eb]
    head, stores = kinds[:6], kinds[6:]
    if head[:3] != ["(fA,fB)", "(aA,aB)", "uB"] or sorted(head[3:5]) != ["abs_angles", "angles"] or head[5] != "i_angle" \
            or sorted(stores) != sorted(["edge_rot[A,B]", "edge_rot[B,A]", f"edge_rot_attr[{ie}]"]):
        raise TranslateError(f"vertex flag_singularities: statements of the edge loop are {kinds}")
    fv = U(eb[0].value)
    if fv == "(self.var[A],self.var[B])": fA, fB = "v_A", "v_B"
    elif fv == "(self.var[B],self.var[A])": fA, fB = "v_B", "v_A"
    else: raise TranslateError(f"fA,fB is not self.var[A], self.var[B]: {fv}")
    aa = [x for x in eb if isinstance(x, ast.Assign) and U(x.targets[0]) == "abs_angles"][0]
    an = [x for x in eb if isinstance(x, ast.Assign) and U(x.targets[0]) == "angles"][0]
    lc = an.value
    want_abs = f"[abs({U(lc.elt)})for{U(lc.generators[0].target)}in{U(lc.generators[0].iter)}]"
    if U(aa.value) not in (want_abs, "[abs(_a)for_ainangles]"):
        raise TranslateError(f"abs_angles is not the list of absolute values of `angles`: {U(aa.value)[:120]}")
    args = f"(C18V.rootPhase (P.theta {fB}) P.order 0) v_aB (C18V.rootPhase (P.theta {fA}) P.order k) v_aA"
    sg = lambda x: "v_r" if x == 1 else "-(v_r)"
    store_lines = []
    for k in stores:
        if k == "edge_rot[A,B]": store_lines.append(f"let v_edge_rot := dset v_edge_rot v_A v_B ({sg(m['sAB'])})")
        elif k == "edge_rot[B,A]": store_lines.append(f"let v_edge_rot := dset v_edge_rot v_B v_A ({sg(m['sBA'])})")
        else: store_lines.append(f"let v_edge_rot_attr := v_edge_rot_attr ++ [(it.1, {sg(m['sAttr'])})]")
    # face loop
    if not (isinstance(floop, ast.For) and U(floop.iter) == "enumerate(self.mesh.faces)" and isinstance(floop.target, ast.Tuple)
            and isinstance(floop.target.elts[1], ast.Tuple) and len(floop.target.elts[1].elts) == 3):
        raise TranslateError("vertex flag_singularities: face loop is not `for id_face,(A,B,C) in enumerate(self.mesh.faces)`")
    idf = U(floop.target.elts[0]); tn = [U(x) for x in floop.target.elts[1].elts]
    fb = strip(floop.body)
    fk = [type(x).__name__ for x in fb]
    if fk != ["Assign", "For", "AugAssign", "If"]:
        raise TranslateError(f"vertex flag_singularities: statements of the face loop are {fk}, expected start / half-edge loop / curvature / selection")
    if U(fb[2].value) != f"curvature[{idf}]": raise TranslateError("the curvature term is not curvature[id_face]")
    pairs = ", ".join(f"(v_{tn[i]}, v_{tn[j]})" for i, j in m["pairs"])
    b = lambda x: "true" if x else "false"
    txt = (f"/-- `_BaseFrameField2DVertices.flag_singularities` ({VERTS}), first half: the dict `edge_rot` (keys = directed vertex pairs) and the\n"
           f"`angles` edge attribute (re-used and cleared, or created); per edge `(ie, A, B)` of `enumerate(mesh.edges)` the matched rotation is\n"
           f"stored at `(A,B)`, `(B,A)` and in the attribute with the signs the source states. Angles in turns -/\n"
           f"def flagEdgeRotVerts (P : FlagVertsIn) (old : Option FFH.Attr) : Dict × FFH.Attr :=\n"
           f"  let v_edge_rot : Dict := fun _ _ => 0\n"
           f"  let v_edge_rot_attr := FFH.flagInto {b(c1)} old []\n"
           f"  P.edges.foldl (fun st it =>\n"
           f"      let v_edge_rot := st.1\n"
           f"      let v_edge_rot_attr := st.2\n"
           f"      let v_A := it.2.1\n"
           f"      let v_B := it.2.2\n"
           f"      let v_aA := P.tr v_A v_B\n"
           f"      let v_aB := P.tr v_B v_A\n"
           f"      let v_r := argminAbs ((List.range P.order).map (fun k => C18V.angleDiff (C18V.matchFst {args}) (C18V.matchSnd {args})))\n"
           + "".join(f"      {l}\n" for l in store_lines) +
           f"      (v_edge_rot, v_edge_rot_attr)) (v_edge_rot, v_edge_rot_attr)\n"
           f"/-- second half: the `singuls` face attribute (re-used and cleared, or created); per face `(id, A, B, C)` the sum starts from 0, adds\n"
           f"`edge_rot[(u,v)]` over the half-edges the source lists, then the curvature of the face; `+1` above the threshold, `-1` below its negative -/\n"
           f"def flagSingulsVerts (P : FlagVertsIn) (v_edge_rot : Dict) (old : Option FFH.Attr) : FFH.Attr :=\n"
           f"  let v_singuls := FFH.flagInto {b(c2)} old []\n"
           f"  P.faces.foldl (fun v_singuls it =>\n"
           f"      let v_{tn[0]} := it.2.1\n"
           f"      let v_{tn[1]} := it.2.2.1\n"
           f"      let v_{tn[2]} := it.2.2.2\n"
           f"      let v_angle : Rat := 0\n"
           f"      let v_angle := [{pairs}].foldl (fun v_angle uv => v_angle + v_edge_rot uv.1 uv.2) v_angle\n"
           f"      let v_angle := v_angle {'+' if m['csign'] == 1 else '-'} P.curv it.1\n"
           f"      if P.thrTurns < v_angle then v_singuls ++ [(it.1, 1)]\n"
           f"      else if v_angle < -P.thrTurns then v_singuls ++ [(it.1, -1)]\n"
           f"      else v_singuls) v_singuls\n"
           f"/-- `ZERO_THRESHOLD` (radians) of the vertex-based field -/\n"
           f"def zeroThresholdVerts : Rat := {thr}\n")
    return txt, {"cleared": (c1, c2), "fA": fA, "fB": fB, "stores": stores, "pairs": m["pairs"], "csign": m["csign"]}


EXTRA_SITES.append(("vertex2d.flag_singularities (imperative: whole body)", gen_flag_verts))
