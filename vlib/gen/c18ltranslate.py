"""C18, round 6: IMPERATIVE translation of the operator assembly and of the connection (whole bodies), appended to
lean/Mouette/Generated/C18Src.lean through `c18stranslate.EXTRA_SITES`:

  operators/laplacian_op.py   laplacian            -> laplacianTriplets   (the (row, col, coeff) triplets, in the order the arrays are filled)
                              laplacian_triangles  -> nablaRows, laplacianTrianglesWeighted (rows of Nabla; which product is returned)
  processing/connection.py    SurfaceConnectionFaces._initialize    -> connFacesTriple (the triple handed to face_basis), connFacesTransport
                              SurfaceConnectionVertices._initialize -> connVertsFirst (basis edge), connVertsTransport
  framefield/faces2d.py, vertex2d.py   export_as_mesh -> exportFaces / exportVerts (vertex and edge lists of the exported poly-line, as indices)

Angles are in TURNS (`pi` = 1/2); `U x` is the unit complex number of phase `x` turns (`cmath.rect(1, 2*pi*x)`), a parameter.
Same normalisation as c18stranslate (Norm); unknown shapes raise TranslateError."""
import ast

from ..translate import TranslateError
from . import c18stranslate as S
from .c18stranslate import U, strip, load_fn, ratlit, natlit, FACES, VERTS
from .c18vtranslate import expr as vexpr, names as vnames

LAP = "mouette/operators/laplacian_op.py"
CONN = "mouette/processing/connection.py"


def _one(l, what):
    if len(l) != 1: raise TranslateError(f"{what}: found {len(l)}")
    return l[0]


# ----------------------------------------------------------------------------------------------------------------
# laplacian (vertices)
# ----------------------------------------------------------------------------------------------------------------
def gen_laplacian():
    fn = load_fn(LAP, "laplacian")
    params = [a.arg for a in fn.args.args]
    if params != ["mesh", "cotan", "connection", "order"]: raise TranslateError(f"laplacian: parameters are {params}")
    body = strip(fn.body)
    loop = _one([s for s in body if isinstance(s, ast.For)], "laplacian: top-level loop")
    if not (U(loop.iter) == "enumerate(mesh.faces)" and isinstance(loop.target, ast.Tuple) and isinstance(loop.target.elts[1], ast.Tuple)
            and len(loop.target.elts[1].elts) == 3):
        raise TranslateError("laplacian: loop is not `for iT,(p,q,r) in enumerate(mesh.faces)`")
    iT = U(loop.target.elts[0]); tri = [U(x) for x in loop.target.elts[1].elts]
    # what precedes the loop: the cot lookup (has_attribute / get_attribute / cotangent), the arrays and the counter
    cnt = _one([s for s in body if isinstance(s, ast.Assign) and isinstance(s.targets[0], ast.Name) and isinstance(s.value, ast.Constant)
                and s.value.value == 0 and not isinstance(s.value.value, bool)], "laplacian: counter initialisation")
    C = cnt.targets[0].id
    arrs = {}
    for s in body:
        if isinstance(s, ast.Assign) and isinstance(s.targets[0], ast.Name) and isinstance(s.value, ast.Call) and U(s.value.func) == "np.zeros":
            arrs[s.targets[0].id] = s
    ret = body[-1]
    mk = _one([s for s in body if isinstance(s, ast.Assign) and isinstance(s.value, ast.Call) and U(s.value.func) == "sp.csc_matrix"], "laplacian: csc_matrix")
    a0 = mk.value.args[0]
    if not (isinstance(a0, ast.Tuple) and len(a0.elts) == 2 and isinstance(a0.elts[1], ast.Tuple) and len(a0.elts[1].elts) == 2):
        raise TranslateError("laplacian: matrix is not csc_matrix((coeffs,(rows,cols)))")
    COE, ROW, COL = U(a0.elts[0]), U(a0.elts[1].elts[0]), U(a0.elts[1].elts[1])
    if not {COE, ROW, COL} <= set(arrs): raise TranslateError("laplacian: the arrays of the matrix are not the np.zeros arrays")
    if not (isinstance(ret, ast.Return) and U(ret.value) == U(mk.targets[0])): raise TranslateError("laplacian: does not return the assembled matrix")
    lb = strip(loop.body)
    if len(lb) != 2 or not isinstance(lb[0], ast.If) or not isinstance(lb[1], ast.For):
        raise TranslateError("laplacian: face loop body is not (weights, half-edge loop)")
    wsel, inner = lb
    if U(wsel.test) != "cotan": raise TranslateError("laplacian: weight selection is not `if cotan`")
    wt, we = strip(wsel.body), strip(wsel.orelse)
    if not (len(wt) == 1 and len(we) == 1 and isinstance(wt[0], ast.Assign) and isinstance(we[0], ast.Assign)
            and isinstance(wt[0].targets[0], ast.Tuple) and U(wt[0].targets[0]) == U(we[0].targets[0]) and len(wt[0].targets[0].elts) == 3):
        raise TranslateError("laplacian: weights are not assigned as a triple in both branches")
    wn = [U(x) for x in wt[0].targets[0].elts]
    g = wt[0].value
    if not (isinstance(g, ast.GeneratorExp) and len(g.generators) == 1 and isinstance(g.generators[0].iter, ast.Tuple)
            and [U(x) for x in g.generators[0].iter.elts] == tri and isinstance(g.elt, ast.BinOp) and isinstance(g.elt.op, ast.Div)
            and U(g.elt.left) == f"cot[mesh.connectivity.vertex_to_corner_in_face({U(g.generators[0].target)},{iT})]"):
        raise TranslateError(f"laplacian: cotan weights are not (cot[vertex_to_corner_in_face(_v,iT)]/D for _v in (p,q,r)): {U(g)[:120]}")
    div = ratlit(g.elt.right)
    if not (isinstance(we[0].value, ast.Tuple) and len(we[0].value.elts) == 3): raise TranslateError("laplacian: uniform weights are not a triple")
    uni = [ratlit(x) for x in we[0].value.elts]
    if not (isinstance(inner.iter, ast.List) and len(inner.iter.elts) == 3 and isinstance(inner.target, ast.Tuple) and len(inner.target.elts) == 3):
        raise TranslateError("laplacian: inner loop is not over three (i, j, weight) triples")
    I, J, W = (U(x) for x in inner.target.elts)
    halfs = []
    for t in inner.iter.elts:
        x = [U(y) for y in t.elts]
        if not (len(x) == 3 and x[0] in tri and x[1] in tri and x[2] in wn): raise TranslateError(f"laplacian: half-edge triple not recognised: {x}")
        halfs.append(x)

    def trip(s):
        """rows[_c], cols[_c], coeffs[_c], _c = r, c, val, _c+1"""
        ok = isinstance(s, ast.Assign) and isinstance(s.targets[0], ast.Tuple) and isinstance(s.value, ast.Tuple) and len(s.targets[0].elts) == 4 \
            and [U(x) for x in s.targets[0].elts] == [f"{ROW}[{C}]", f"{COL}[{C}]", f"{COE}[{C}]", C] and U(s.value.elts[3]) in (f"{C}+1", f"1+{C}")
        if not ok: raise TranslateError(f"laplacian: statement is not `rows[_c], cols[_c], coeffs[_c], _c = r, c, val, _c+1`: {U(s)[:100]}")
        r, c, v = s.value.elts[:3]
        if U(r) not in (I, J) or U(c) not in (I, J): raise TranslateError("laplacian: row / column is not i or j")
        return f"(v_{U(r)}, v_{U(c)}, {val(v)})"
    env = {}

    def val(v):
        if U(v) == W: return f"ofReal v_{W}"
        if U(v) == f"-{W}": return f"cneg (ofReal v_{W})"
        # -v * cmath.rect(1., <phase>)
        if isinstance(v, ast.BinOp) and isinstance(v.op, ast.Mult) and U(v.left) == f"-{W}" and isinstance(v.right, ast.Call) and U(v.right.func) == "cmath.rect" \
                and len(v.right.args) == 2 and U(v.right.args[0]) in ("1", "1.0", "1."):
            ph = vexpr(v.right.args[1], vnames(dict(env, order="(order : Rat)")))
            return f"cneg (csmul v_{W} (U {ph}))"
        raise TranslateError(f"laplacian: coefficient not recognised: {U(v)[:100]}")
    ib = strip(inner.body)
    if len(ib) != 3 or not isinstance(ib[2], ast.If): raise TranslateError("laplacian: inner loop body is not (diag i, diag j, connection branch)")
    d1, d2 = trip(ib[0]), trip(ib[1])
    br = ib[2]
    if U(br.test) != "connectionisnotNone": raise TranslateError(f"laplacian: branch is not `if connection is not None`: {U(br.test)}")
    cb, sb = strip(br.body), strip(br.orelse)
    if not (len(cb) == 3 and isinstance(cb[0], ast.Assign) and isinstance(cb[0].targets[0], ast.Tuple) and len(cb[0].targets[0].elts) == 2):
        raise TranslateError("laplacian: connection branch does not start with `ai, aj = ...`")
    n1, n2 = (U(x) for x in cb[0].targets[0].elts)
    tv = [U(x) for x in cb[0].value.elts]
    def trn(t):
        if t == f"connection.transport({I},{J})": return f"tr v_{I} v_{J}"
        if t == f"connection.transport({J},{I})": return f"tr v_{J} v_{I}"
        raise TranslateError(f"laplacian: transport not recognised: {t}")
    env = {n1: f"({trn(tv[0])})", n2: f"({trn(tv[1])})"}
    c1, c2 = trip(cb[1]), trip(cb[2])
    env = {}
    if len(sb) != 2: raise TranslateError("laplacian: scalar branch is not two statements")
    s1, s2 = trip(sb[0]), trip(sb[1])
    wl = "\n".join(f"      let v_{wn[k]} : Rat := if cotan then cot it.1 v_{tri[k]} / {div} else {uni[k]}" for k in range(3))
    hl = ", ".join(f"(v_{x[0]}, v_{x[1]}, v_{x[2]})" for x in halfs)
    txt = (f"/-- `operators.laplacian` ({LAP}): the triplets `(rows[_c], cols[_c], coeffs[_c])` in the order the arrays are filled (scipy sums duplicates).\n"
           f"`cot iT v` = `cot[vertex_to_corner_in_face(v, iT)]`, `tr i j` = `connection.transport(i,j)` in turns, `U x` = `cmath.rect(1, 2*pi*x)` -/\n"
           f"def laplacianTriplets (U : Rat → Cpx) (order : Nat) (cotan withConn : Bool) (faces : List (Nat × Nat × Nat × Nat)) (cot : Nat → Nat → Rat)\n"
           f"    (tr : Nat → Nat → Rat) : List (Nat × Nat × Cpx) :=\n"
           f"  faces.foldl (fun acc it =>\n"
           f"      let v_{tri[0]} := it.2.1\n      let v_{tri[1]} := it.2.2.1\n      let v_{tri[2]} := it.2.2.2\n{wl}\n"
           f"      [{hl}].foldl (fun acc h =>\n"
           f"          let v_{I} := h.1\n          let v_{J} := h.2.1\n          let v_{W} := h.2.2\n"
           f"          let acc := acc ++ [{d1}]\n          let acc := acc ++ [{d2}]\n"
           f"          if withConn then\n            (let acc := acc ++ [{c1}]\n             let acc := acc ++ [{c2}]\n             acc)\n"
           f"          else\n            (let acc := acc ++ [{s1}]\n             let acc := acc ++ [{s2}]\n             acc)) acc) []\n")
    return txt, {"halfs": halfs, "divisor": div, "uniform": uni}


# ----------------------------------------------------------------------------------------------------------------
# laplacian_triangles (faces)
# ----------------------------------------------------------------------------------------------------------------
def gen_laplacian_triangles():
    fn = load_fn(LAP, "laplacian_triangles")
    body = strip(fn.body)
    sel = _one([s for s in body if isinstance(s, ast.If) and U(s.test) == "connectionisnotNone"], "laplacian_triangles: `if connection is not None`")
    nb = _one([s for s in body if isinstance(s, ast.Assign) and U(s.targets[0]) == "Nabla" and isinstance(s.value, ast.Call) and U(s.value.func) == "sp.lil_matrix"], "Nabla creation")

    def rows(stmts, conn):
        loop = _one([s for s in strip(stmts) if isinstance(s, ast.For)], "laplacian_triangles: loop of a branch")
        if not (U(loop.iter) == "enumerate(mesh.edges)" and isinstance(loop.target, ast.Tuple) and isinstance(loop.target.elts[1], ast.Tuple)):
            raise TranslateError("laplacian_triangles: loop is not over enumerate(mesh.edges)")
        ie = U(loop.target.elts[0]); a, b = (U(x) for x in loop.target.elts[1].elts)
        lb = strip(loop.body)
        if not (len(lb) == 2 and isinstance(lb[0], ast.Assign) and U(lb[0].value) == f"mesh.connectivity.edge_to_faces({a},{b})" and isinstance(lb[1], ast.If)):
            raise TranslateError("laplacian_triangles: loop body is not (T1,T2 = edge_to_faces; guarded writes)")
        t1, t2 = (U(x) for x in lb[0].targets[0].elts)
        g = lb[1]
        if sorted(U(v) for v in getattr(g.test, "values", [])) != sorted([f"{t1}isnotNone", f"{t2}isnotNone"]) or not isinstance(g.test.op, ast.And) or g.orelse:
            raise TranslateError(f"laplacian_triangles: guard is not `T1 is not None and T2 is not None`: {U(g.test)}")
        out = []
        for s in strip(g.body):
            if not (isinstance(s, ast.Assign) and isinstance(s.targets[0], ast.Subscript) and U(s.targets[0].value) == "Nabla"
                    and isinstance(s.targets[0].slice, ast.Tuple) and U(s.targets[0].slice.elts[0]) == ie and U(s.targets[0].slice.elts[1]) in (t1, t2)):
                raise TranslateError(f"laplacian_triangles: write is not Nabla[ie,T] = ..: {U(s)[:80]}")
            col = "T1" if U(s.targets[0].slice.elts[1]) == t1 else "T2"
            v = s.value
            if U(v) == "-1": val = "cneg cone"
            elif U(v) == "1": val = "cone"
            elif conn and isinstance(v, ast.Call) and U(v.func) == "cmath.rect" and U(v.args[0]) in ("1", "1.", "1.0"):
                at = {f"connection.transport({t1},{t2})": "(tr v_T1 v_T2)", f"connection.transport({t2},{t1})": "(tr v_T2 v_T1)"}

                def atoms(n):
                    if U(n) in at: return at[U(n)]
                    if U(n) == "order": return "(order : Rat)"
                    return None
                val = f"U {vexpr(v.args[1], atoms)}"
            else: raise TranslateError(f"laplacian_triangles: entry not recognised: {U(v)[:80]}")
            out.append(f"(v_{col}, {val})")
        return out
    rc, rs = rows(sel.body, True), rows(sel.orelse, False)
    tail = body[body.index(sel) + 1:]
    want = ["Nabla=Nabla.tocsc()", "Nabla_star=Nabla.conj().transpose()"]
    if [U(s) for s in tail[:2]] != want: raise TranslateError(f"laplacian_triangles: tail does not start with {want}: {[U(s)[:60] for s in tail[:2]]}")
    fin = tail[2]
    ok = isinstance(fin, ast.If) and U(fin.test) == "cotan" and len(strip(fin.body)) == 2 and U(strip(fin.body)[0]) == "D=cotan_edge_diagonal(mesh)" \
        and U(strip(fin.body)[1]) == "returnNabla_star@D@Nabla" and len(strip(fin.orelse)) == 1 and U(strip(fin.orelse)[0]) == "returnNabla_star@Nabla"
    if not ok: raise TranslateError("laplacian_triangles: the returned product is not `Nabla_star @ D @ Nabla` (cotan) / `Nabla_star @ Nabla`")
    txt = (f"/-- `operators.laplacian_triangles` ({LAP}): the rows of `Nabla` (one per INTERIOR edge `(ie, T1, T2)`: `[(column, entry)]`), and the weight of\n"
           f"row `ie` in the returned product `Nabla.conj().T @ D @ Nabla` (`D = cotan_edge_diagonal(mesh)`, diagonal `dw ie`) resp. `Nabla.conj().T @ Nabla` -/\n"
           f"def nablaRows (U : Rat → Cpx) (order : Nat) (withConn : Bool) (edges : List (Nat × Option Nat × Option Nat)) (tr : Nat → Nat → Rat) :\n"
           f"    List (Nat × List (Nat × Cpx)) :=\n"
           f"  edges.foldl (fun acc it =>\n"
           f"      match it.2.1, it.2.2 with\n"
           f"      | some v_T1, some v_T2 =>\n"
           f"        if withConn then acc ++ [(it.1, [{', '.join(rc)}])] else acc ++ [(it.1, [{', '.join(rs)}])]\n"
           f"      | _, _ => acc) []\n"
           f"def nablaRowWeight (cotan : Bool) (dw : Nat → Rat) (ie : Nat) : Rat := if cotan then dw ie else 1\n")
    return txt, {"conn_row": rc, "scalar_row": rs}


# ----------------------------------------------------------------------------------------------------------------
# connection.py
# ----------------------------------------------------------------------------------------------------------------
def gen_conn_faces():
    fn = load_fn(CONN, "SurfaceConnectionFaces._initialize")
    body = strip(fn.body)
    loops = [s for s in body if isinstance(s, ast.For)]
    if len(loops) != 2: raise TranslateError("SurfaceConnectionFaces._initialize: expected the basis loop and the transport loop")
    l1, l2 = loops
    if not any(U(s) == "self._transport=dict()" for s in body): raise TranslateError("SurfaceConnectionFaces._initialize: _transport is not a fresh dict")
    if not (U(l1.iter) == "enumerate(self.mesh.faces)" and isinstance(l1.target.elts[1], ast.Tuple) and len(l1.target.elts[1].elts) == 3):
        raise TranslateError("SurfaceConnectionFaces._initialize: first loop is not over enumerate(self.mesh.faces)")
    idf = U(l1.target.elts[0]); t = [U(x) for x in l1.target.elts[1].elts]
    b1 = strip(l1.body)
    kinds = [U(s.targets[0]) if isinstance(s, ast.Assign) else type(s).__name__ for s in b1]
    if len(b1) != 6 or kinds[1] != "If" or kinds[4:] != [f"self._baseX[{idf}]", f"self._baseY[{idf}]"]:
        raise TranslateError(f"SurfaceConnectionFaces._initialize: statements of the basis loop are {kinds}")
    ft = b1[0]
    fname = U(ft.targets[0])
    lc = ft.value
    if not (isinstance(lc, ast.ListComp) and isinstance(lc.generators[0].iter, ast.List) and len(lc.generators[0].iter.elts) == 3
            and isinstance(lc.elt, ast.Compare) and isinstance(lc.elt.ops[0], ast.In) and U(lc.elt.comparators[0]) == "self.feat.feature_edges"
            and U(lc.elt.left) == "self.mesh.connectivity.edge_id({},{})".format(*[U(x) for x in lc.generators[0].target.elts])):
        raise TranslateError("SurfaceConnectionFaces._initialize: feat is not [edge_id(u,v) in feature_edges for (u,v) in [...]]")
    sides = [[U(y) for y in x.elts] for x in lc.generators[0].iter.elts]
    if not all(a in t and b in t for a, b in sides): raise TranslateError("SurfaceConnectionFaces._initialize: sides are not pairs of the face's vertices")
    rot = b1[1]
    rb = strip(rot.body)
    if not (U(rot.test) == f"np.any({fname})" and not rot.orelse and len(rb) == 1 and U(rb[0].targets[0]) == f"({','.join(t)})"
            and U(rb[0].value) == f"utils.offset([{','.join(t)}],np.argmax({fname}))"):
        raise TranslateError(f"SurfaceConnectionFaces._initialize: rotation is not `if np.any(feat): A,B,C = utils.offset([A,B,C], np.argmax(feat))`")
    pts = b1[2]
    pn = [U(x) for x in pts.targets[0].elts]
    g = pts.value
    if not (isinstance(g, ast.GeneratorExp) and [U(x) for x in g.generators[0].iter.elts] == t and U(g.elt) == f"self.mesh.vertices[{U(g.generators[0].target)}]"):
        raise TranslateError("SurfaceConnectionFaces._initialize: pA,pB,pC are not the vertices of (A,B,C)")
    fb = b1[3]
    if not (U(fb.value) == f"geom.face_basis({','.join(pn)})" and isinstance(fb.targets[0], ast.Tuple) and len(fb.targets[0].elts) == 3):
        raise TranslateError("SurfaceConnectionFaces._initialize: X,Y,_ is not geom.face_basis(pA,pB,pC)")
    X, Y = U(fb.targets[0].elts[0]), U(fb.targets[0].elts[1])
    if U(b1[4].value) != X or U(b1[5].value) != Y: raise TranslateError("SurfaceConnectionFaces._initialize: baseX/baseY are not X, Y of face_basis")
    # transport loop
    if not (U(l2.iter) == "self.mesh.interior_edges" and isinstance(l2.target, ast.Name)): raise TranslateError("SurfaceConnectionFaces._initialize: second loop is not over interior_edges")
    e = l2.target.id
    b2 = strip(l2.body)
    kinds = [U(s.targets[0]) if isinstance(s, ast.Assign) else type(s).__name__ for s in b2]
    want = ["(A,B)", "(pA,pB)", "E", "(T1,T2)", "(X1,Y1)", "(X2,Y2)", "angle1", "angle2", "self._transport[T1,T2]", "self._transport[T2,T1]"]
    if kinds != want: raise TranslateError(f"SurfaceConnectionFaces._initialize: statements of the transport loop are {kinds}")
    chk = {0: f"self.mesh.edges[{e}]", 1: "(self.mesh.vertices[A],self.mesh.vertices[B])", 3: "self.mesh.connectivity.edge_to_faces(A,B)",
           4: "(self._baseX[T1],self._baseY[T1])", 5: "(self._baseX[T2],self._baseY[T2])",
           6: "math.atan2(geom.dot(E,Y1),geom.dot(E,X1))", 7: "math.atan2(geom.dot(E,Y2),geom.dot(E,X2))"}
    for k, w in chk.items():
        if U(b2[k].value) != w: raise TranslateError(f"SurfaceConnectionFaces._initialize: `{kinds[k]}` is `{U(b2[k].value)[:80]}`, expected `{w}`")
    if U(b2[2].value) not in ("geom.Vec(pB-pA)", "pB-pA", "Vec(pB-pA)"): raise TranslateError(f"SurfaceConnectionFaces._initialize: E is not pB - pA: {U(b2[2].value)}")
    at = vnames({"angle1": "v_angle1", "angle2": "v_angle2"})
    w12, w21 = vexpr(b2[8].value, at), vexpr(b2[9].value, at)
    sd = ", ".join(f"isFeat v_{a} v_{b}" for a, b in sides)
    txt = (f"/-- `SurfaceConnectionFaces._initialize` ({CONN}), first loop: the triple `(A,B,C)` handed to `geom.face_basis` for every face — the face's own\n"
           f"triple, rotated by `utils.offset(.., np.argmax(feat))` when one of its sides is a feature edge (`isFeat u v` = `edge_id(u,v) in feat.feature_edges`);\n"
           f"`_baseX`, `_baseY` are the X and Y of that basis -/\n"
           f"def connFacesTriple (isFeat : Nat → Nat → Bool) (it : Nat × Nat × Nat × Nat) : Nat × Nat × Nat :=\n"
           f"  let v_{t[0]} := it.2.1\n  let v_{t[1]} := it.2.2.1\n  let v_{t[2]} := it.2.2.2\n"
           f"  let v_feat := [{sd}]\n"
           f"  if v_feat.any id then rotl3 v_{t[0]} v_{t[1]} v_{t[2]} (argmaxB v_feat) else (v_{t[0]}, v_{t[1]}, v_{t[2]})\n"
           f"/-- second loop: the `_transport` dict over `interior_edges` `(e, T1, T2)`; `ang e T` = `atan2(E.Y_T, E.X_T)` for `E = vertices[B] - vertices[A]`, turns -/\n"
           f"def connFacesTransport (interior : List (Nat × Nat × Nat)) (ang : Nat → Nat → Rat) : Dict :=\n"
           f"  interior.foldl (fun d it =>\n"
           f"      let v_T1 := it.2.1\n      let v_T2 := it.2.2\n"
           f"      let v_angle1 := ang it.1 v_T1\n      let v_angle2 := ang it.1 v_T2\n"
           f"      let d := dset d v_T1 v_T2 {w12}\n      let d := dset d v_T2 v_T1 {w21}\n      d) (fun _ _ => 0)\n")
    return txt, {"sides": sides, "t12": w12, "t21": w21}


def gen_conn_verts():
    fn = load_fn(CONN, "SurfaceConnectionVertices._initialize")
    body = strip(fn.body)
    loop = _one([s for s in body if isinstance(s, ast.For)], "SurfaceConnectionVertices._initialize: vertex loop")
    if not any(U(s) == "self._transport=dict()" for s in body): raise TranslateError("SurfaceConnectionVertices._initialize: _transport is not a fresh dict")
    nv = _one([s for s in body if isinstance(s, ast.Assign) and U(s.value) == "len(self.mesh.vertices)"], "n_vert")
    if U(loop.iter) != f"range({U(nv.targets[0])})" or not isinstance(loop.target, ast.Name): raise TranslateError("SurfaceConnectionVertices._initialize: loop is not over range(n_vert)")
    u = loop.target.id
    lb = strip(loop.body)
    kinds = [U(s.targets[0]) if isinstance(s, ast.Assign) else type(s).__name__ for s in lb]
    want = ["P", "N", "vert_u", "E", "X", f"self._baseX[{u}]", f"self._baseY[{u}]", "ang", "If"]
    if kinds != want: raise TranslateError(f"SurfaceConnectionVertices._initialize: statements of the vertex loop are {kinds}")
    chk = {0: (f"Vec(self.mesh.vertices[{u}])", f"self.mesh.vertices[{u}]"), 1: (f"self.vnormals[{u}]",), 3: ("self.mesh.vertices[vert_u[0]]-P",),
           4: ("Vec.normalized(E-np.dot(E,N)*N)", "Vec.normalized(E-E.dot(N)*N)"), 5: ("X",), 6: ("geom.cross(N,X)",)}
    for k, ws in chk.items():
        if U(lb[k].value) not in ws: raise TranslateError(f"SurfaceConnectionVertices._initialize: `{kinds[k]}` is `{U(lb[k].value)[:80]}`")
    rv = U(lb[2].value)
    if rv == f"self.mesh.connectivity.vertex_to_vertices({u})[::-1]": ring = "(ring v_u).reverse"
    elif rv == f"self.mesh.connectivity.vertex_to_vertices({u})": ring = "ring v_u"
    else: raise TranslateError(f"SurfaceConnectionVertices._initialize: vert_u is not vertex_to_vertices(u)[::-1]: {rv}")
    if ratlit(lb[7].value) != "((0 : Rat) / 1)": raise TranslateError("SurfaceConnectionVertices._initialize: ang does not start from 0")
    br = lb[8]
    if U(br.test) != f"{u}inself.feat.feature_vertices": raise TranslateError("SurfaceConnectionVertices._initialize: branch is not `u in self.feat.feature_vertices`")
    fbody, ibody = strip(br.body), strip(br.orelse)
    if not (len(fbody) == 2 and isinstance(fbody[0], ast.Assign) and U(fbody[0].targets[0]) == "dfct" and isinstance(fbody[1], ast.For) and len(ibody) == 1 and isinstance(ibody[0], ast.For)):
        raise TranslateError("SurfaceConnectionVertices._initialize: branches are not (dfct; ring loop) / (ring loop)")
    at0 = vnames({f"self.feat.corners[{u}]": "corners v_u", "self.feat.corner_order": "cornerOrder"})

    def atoms0(n):
        if U(n) == f"self.feat.corners[{u}]": return "corners v_u"
        if U(n) == "self.feat.corner_order": return "cornerOrder"
        return None
    dfct = vexpr(fbody[0].value, atoms0)

    def ringloop(lp, feature):
        if not (U(lp.iter) == "vert_u" and isinstance(lp.target, ast.Name)): raise TranslateError("SurfaceConnectionVertices._initialize: ring loop is not over vert_u")
        v = lp.target.id
        b = strip(lp.body)
        k2 = [U(s.targets[0]) if isinstance(s, ast.Assign) else type(s).__name__ for s in b]
        wantk = ["T", f"self._transport[{u},{v}]", "c"] + (["If"] if feature and len(b) == 5 else []) + ["AugAssign"]
        if k2 != wantk: raise TranslateError(f"SurfaceConnectionVertices._initialize: statements of the ring loop are {k2}, expected {wantk}")
        if U(b[0].value) != f"self.mesh.connectivity.direct_face({u},{v})": raise TranslateError("T is not direct_face(u,v)")
        if U(b[2].value) != f"self.mesh.connectivity.vertex_to_corner_in_face({u},T)": raise TranslateError("c is not vertex_to_corner_in_face(u,T)")

        def atoms(n):
            if U(n) == "ang": return "st.2"
            if U(n) == "dfct": return "v_dfct"
            if U(n) == f"self.total_angle[{u}]": return "total v_u"
            return None
        w = vexpr(b[1].value, atoms)
        skip = False
        if len(b) == 5:
            g = b[3]
            if not (U(g.test) == "cisNone" and len(strip(g.body)) == 1 and isinstance(strip(g.body)[0], ast.Continue) and not g.orelse):
                raise TranslateError("SurfaceConnectionVertices._initialize: guard is not `if c is None: continue`")
            skip = True
        au = b[-1]
        if not (isinstance(au.op, ast.Add) and U(au.target) == "ang" and U(au.value) == "self.angles[c]"): raise TranslateError("ang += self.angles[c] not found")
        upd = "match cornerAngle v_u v_v with | none => (d, st.2) | some a => (d, st.2 + a)" if skip else "(d, st.2 + (cornerAngle v_u v_v).getD 0)"
        return (f"(vert_u.foldl (fun (st : Dict × Rat) v_{v} =>\n"
                f"            let d := dset st.1 v_u v_{v} {w}\n"
                f"            {upd.replace('v_v', 'v_' + v)}) (d, (0 : Rat))).1")
    rf = ringloop(fbody[1], True).replace("(d, (0 : Rat))", "(d, v_ang)")
    ri = ringloop(ibody[0], False).replace("(d, (0 : Rat))", "(d, v_ang)")
    txt = (f"/-- `SurfaceConnectionVertices._initialize` ({CONN}): the basis of vertex `u` is built on the edge to `vert_u[0]` (projected on the tangent plane,\n"
           f"normalised; `_baseY = cross(N, X)`); which neighbour that is: -/\n"
           f"def connVertsFirst (ring : Nat → List Nat) (v_u : Nat) : Option Nat := ({ring}).head?\n"
           f"/-- the ring loop at a FEATURE vertex: `_transport[(u,v)] = ang * dfct / total_angle[u]`, then `ang += angles[c]` unless that corner is `None` -/\n"
           f"def connVertsRingFeature (total : Nat → Rat) (cornerAngle : Nat → Nat → Option Rat) (v_u : Nat) (v_dfct : Rat) (vert_u : List Nat) (d : Dict) (v_ang : Rat) : Dict :=\n"
           f"  {rf}\n"
           f"/-- the ring loop at an ordinary vertex: `_transport[(u,v)] = ang * 2*pi / total_angle[u]`, then `ang += angles[c]` -/\n"
           f"def connVertsRingInterior (total : Nat → Rat) (cornerAngle : Nat → Nat → Option Rat) (v_u : Nat) (vert_u : List Nat) (d : Dict) (v_ang : Rat) : Dict :=\n"
           f"  {ri}\n"
           f"/-- the `_transport` dict: per vertex the running sum `ang` (from 0) of the corner angles (`cornerAngle u v` = `angles[vertex_to_corner_in_face(u, direct_face(u,v))]`,\n"
           f"`none` when that corner is `None`), rescaled by `dfct / total_angle[u]` at feature vertices and `2*pi / total_angle[u]` elsewhere; turns -/\n"
           f"def connVertsTransport (n : Nat) (ring : Nat → List Nat) (isFeatV : Nat → Bool) (corners : Nat → Rat) (cornerOrder : Rat) (total : Nat → Rat)\n"
           f"    (cornerAngle : Nat → Nat → Option Rat) : Dict :=\n"
           f"  (List.range n).foldl (fun d v_u =>\n"
           f"      let vert_u := {ring}\n"
           f"      let v_ang : Rat := 0\n"
           f"      if isFeatV v_u then\n"
           f"        (let v_dfct : Rat := {dfct}\n"
           f"         connVertsRingFeature total cornerAngle v_u v_dfct vert_u d v_ang)\n"
           f"      else\n"
           f"        connVertsRingInterior total cornerAngle v_u vert_u d v_ang) (fun _ _ => 0)\n")
    return txt, {"ring": ring, "dfct": dfct}


# ----------------------------------------------------------------------------------------------------------------
# export_as_mesh
# ----------------------------------------------------------------------------------------------------------------
def gen_export(kind):
    rel, cls, name, cont = (FACES, "_BaseFrameField2DFaces", "exportFaces", "self.mesh.faces") if kind == "faces" else (VERTS, "_BaseFrameField2DVertices", "exportVerts", "self.mesh.vertices")
    fn = load_fn(rel, f"{cls}.export_as_mesh")
    body = strip(fn.body)
    nst = _one([s for s in body if isinstance(s, ast.Assign) and U(s.targets[0]) == "n"], "export_as_mesh: n")
    if U(nst.value) not in ("self.order+1", "1+self.order"): raise TranslateError(f"export_as_mesh: n is not self.order + 1: {U(nst.value)}")
    loop = _one([s for s in body if isinstance(s, ast.For)], "export_as_mesh: loop")
    if not (U(loop.iter) == f"enumerate({cont})" and isinstance(loop.target, ast.Tuple)): raise TranslateError("export_as_mesh: loop is not over enumerate of the elements")
    ide = U(loop.target.elts[0])
    if not (isinstance(body[-1], ast.Return) and U(body[-1].value) == "PolyLine(FFMesh)"): raise TranslateError("export_as_mesh does not return PolyLine(FFMesh)")

    def block(stmts):
        """-> (number of vertices appended per element as Lean Nat term, edge list as Lean term in v_i)"""
        nvert, edges = [], []
        for s in strip(stmts):
            if isinstance(s, ast.Assign):
                if U(s.targets[0]) == "cmplx":
                    lc = s.value
                    if not (isinstance(lc, ast.ListComp) and U(lc.generators[0].iter) == "range(self.order)"): raise TranslateError("export_as_mesh: cmplx is not a list over range(self.order)")
                if U(s.targets[0]) == "pts":
                    lc = s.value
                    if not (isinstance(lc, ast.ListComp) and U(lc.generators[0].iter) == "cmplx"): raise TranslateError("export_as_mesh: pts is not a list over cmplx")
                continue
            if isinstance(s, ast.Expr) and isinstance(s.value, ast.Call) and U(s.value.func) == "FFMesh.vertices.append" and len(s.value.args) == 1:
                nvert.append("1"); continue
            if isinstance(s, ast.AugAssign) and U(s.target) == "FFMesh.vertices" and isinstance(s.op, ast.Add):
                if U(s.value) == "pts": nvert.append("order")
                elif isinstance(s.value, ast.List): nvert.append(str(len(s.value.elts)))
                else: raise TranslateError(f"export_as_mesh: vertices += {U(s.value)[:60]}")
                continue
            if isinstance(s, ast.AugAssign) and U(s.target) == "FFMesh.edges" and isinstance(s.value, ast.ListComp):
                lc = s.value
                g = lc.generators[0]
                if not (U(g.iter) == "range(1,n)" and isinstance(lc.elt, ast.Tuple) and len(lc.elt.elts) == 2): raise TranslateError("export_as_mesh: edges are not a list over range(1,n)")
                k = U(g.target)
                from ..translate import lean_int_expr
                ren = {ide: "v_i", "n": "(order + 1)", k: "k"}
                a, b = (lean_int_expr(x, ren) for x in lc.elt.elts)
                edges.append(f"(List.range' 1 ((order + 1) - 1)).map (fun k => ({a}, {b}))")
                continue
            if isinstance(s, ast.Expr) and isinstance(s.value, ast.Call) and U(s.value.func) == "FFMesh.edges.append" and isinstance(s.value.args[0], ast.Tuple):
                from ..translate import lean_int_expr
                a, b = (lean_int_expr(x, {ide: "v_i"}) for x in s.value.args[0].elts)
                edges.append(f"[({a}, {b})]")
                continue
            if isinstance(s, ast.Expr) and isinstance(s.value, ast.Call) and U(s.value.func) == "self._check_init": continue
            raise TranslateError(f"export_as_mesh: statement not recognised: {U(s)[:80]}")
        return " + ".join(nvert) or "0", " ++ ".join(edges) or "[]"
    lb = strip(loop.body)
    ifs = [s for s in lb if isinstance(s, ast.If)]
    if kind == "verts":
        br = _one(ifs, "export_as_mesh (vertices): `if repr_vector`")
        if U(br.test) != "repr_vector": raise TranslateError("export_as_mesh (vertices): branch is not `if repr_vector`")
        (nv1, e1), (nv2, e2) = block(br.body), block(br.orelse)
        per = f"if reprVector then {nv1} else {nv2}"; ed = f"if reprVector then {e1} else {e2}"
        sig = "(order n : Nat) (reprVector : Bool)"
    else:
        if ifs: raise TranslateError("export_as_mesh (faces): unexpected branch")
        nv2, e2 = block(lb)
        per, ed, sig = nv2, e2, "(order n : Nat)"
    txt = (f"/-- `{cls}.export_as_mesh` ({rel}): number of poly-line vertices appended per element, and the edges appended for element `i` (as vertex indices) -/\n"
           f"def {name}VerticesPer {sig.replace(' n ', ' ').replace('(order n : Nat)', '(order : Nat)')} : Nat := {per}\n"
           f"def {name}Edges {sig} : List (Nat × Nat) :=\n"
           f"  (List.range n).foldl (fun acc v_i => acc ++ ({ed})) []\n")
    return txt, {"per": per, "edges": ed}


S.EXTRA_SITES += [
    ("laplacian_op.laplacian (imperative: triplets)", gen_laplacian),
    ("laplacian_op.laplacian_triangles (imperative: Nabla rows, returned product)", gen_laplacian_triangles),
    ("connection.SurfaceConnectionFaces._initialize (imperative)", gen_conn_faces),
    ("connection.SurfaceConnectionVertices._initialize (imperative)", gen_conn_verts),
    ("faces2d.export_as_mesh (imperative: index structure)", lambda: gen_export("faces")),
    ("vertex2d.export_as_mesh (imperative: index structure)", lambda: gen_export("verts")),
]

# ----------------------------------------------------------------------------------------------------------------
# round 7: _initialize_attributes (both fields), FlatConnectionFaces.transport, cotan_edge_diagonal
# ----------------------------------------------------------------------------------------------------------------
def _kw(call):
    return {k.arg: k.value for k in call.keywords}


def gen_init_attrs(kind):
    rel, cls = (FACES, "_BaseFrameField2DFaces") if kind == "faces" else (VERTS, "_BaseFrameField2DVertices")
    fn = load_fn(rel, f"{cls}._initialize_attributes")
    body = strip(fn.body)
    lines, seen = [], set()
    extra = ""
    for s in body:
        u = U(s)
        if isinstance(s, ast.Assign) and U(s.targets[0]) == "self.cot" and isinstance(s.value, ast.Call) and U(s.value.func) in ("cotangent", "attributes.cotangent") \
                and [U(a) for a in s.value.args] == ["self.mesh"]:
            kw = _kw(s.value)
            if set(kw) - {"persistent"}: raise TranslateError(f"_initialize_attributes: cotangent called with {sorted(kw)}")
            pers = True if "persistent" not in kw else kw["persistent"].value
            if not isinstance(pers, bool): raise TranslateError("_initialize_attributes: persistent= is not a literal")
            lines.append(f"  let s := {{ s with cotOnMesh := {'true' if pers else 'false'} }}"); seen.add("cot"); continue
        if isinstance(s, ast.Assign) and U(s.targets[0]) in ("self.defect", "self.angles", "self.vnormals") and isinstance(s.value, ast.Call):
            f = U(s.value.func)
            ok = {"self.defect": ("angle_defects", "ArrayAttribute"), "self.angles": ("attributes.corner_angles",), "self.vnormals": ("attributes.vertex_normals",)}[U(s.targets[0])]
            if f not in ok: raise TranslateError(f"_initialize_attributes: {U(s.targets[0])} is computed by {f}")
            if f == "ArrayAttribute" and U(s.value) != "ArrayAttribute(float,len(self.mesh.vertices))": raise TranslateError("defect array is not ArrayAttribute(float, len(vertices))")
            if f == "attributes.vertex_normals" and U(s.value) != "attributes.vertex_normals(self.mesh,interpolation='angle')": raise TranslateError(f"vertex normals: {U(s.value)}")
            seen.add(U(s.targets[0])[5:]); continue
        if isinstance(s, ast.For) and kind == "verts":
            if not (U(s.iter) == "enumerate(self.mesh.face_corners)" and isinstance(s.target, ast.Tuple) and len(s.target.elts) == 2):
                raise TranslateError("_initialize_attributes: loop is not over enumerate(self.mesh.face_corners)")
            ic, c = (U(x) for x in s.target.elts)
            b = strip(s.body)
            if not (len(b) == 1 and isinstance(b[0], ast.AugAssign) and isinstance(b[0].op, ast.Add) and U(b[0].target) == f"self.defect[{c}]" and U(b[0].value) == f"self.angles[{ic}]"):
                raise TranslateError(f"_initialize_attributes: loop body is not self.defect[C] += self.angles[iC]: {U(b[0])[:80]}")
            extra = ("/-- the loop `for iC, C in enumerate(mesh.face_corners): defect[C] = defect[C] + angles[iC]` (sum of the corner angles at every vertex) -/\n"
                     "def defectSumsVerts (nV : Nat) (corners : List Nat) (angles : Nat → Rat) : List Rat :=\n"
                     "  (List.zip (List.range corners.length) corners).foldl (fun d it => d.set it.2 (d.getD it.2 0 + angles it.1)) (List.replicate nV 0)\n")
            seen.add("defectloop"); continue
        if isinstance(s, ast.If) and U(s.test) == "self.featisNone" and not s.orelse:
            b = strip(s.body)
            a = b[0]
            if not (isinstance(a, ast.Assign) and U(a.targets[0]) == "self.feat"): raise TranslateError("_initialize_attributes: feat branch does not assign self.feat")
            call = a.value
            ran = False
            if isinstance(call, ast.Call) and isinstance(call.func, ast.Call) and U(call.func.func) == "FeatureEdgeDetector" and [U(x) for x in call.args] == ["self.mesh"]:
                ctor, ran = call.func, True
            elif isinstance(call, ast.Call) and U(call.func) == "FeatureEdgeDetector":
                ctor = call
                ran = len(b) == 2 and U(b[1]) == "self.feat.run(self.mesh)"
            else: raise TranslateError(f"_initialize_attributes: feat is not a FeatureEdgeDetector: {U(call)[:80]}")
            if not ran: raise TranslateError("_initialize_attributes: the default feature detector is not run on the mesh")
            kw = _kw(ctor)
            if U(kw.get("only_border")) != "notself.features": raise TranslateError(f"_initialize_attributes: only_border is {U(kw.get('only_border'))}")
            if kind == "verts":
                if U(kw.get("corner_order")) != "self.order": raise TranslateError(f"_initialize_attributes: corner_order is {U(kw.get('corner_order'))}")
                det = "detect (!features) order"
            else:
                det = "detect (!features)"
            lines.append(f"  let s := if s.feat.isNone then {{ s with feat := some ({det}) }} else s"); seen.add("feat"); continue
        conn_cls = "SurfaceConnectionFaces" if kind == "faces" else "SurfaceConnectionVertices"

        def conn_call(c):
            if not (isinstance(c, ast.Call) and U(c.func) == conn_cls and c.args and U(c.args[0]) == "self.mesh"): raise TranslateError(f"_initialize_attributes: conn is not {conn_cls}(self.mesh, ..): {U(c)[:80]}")
            arg = "s.feat" if len(c.args) > 1 and U(c.args[1]) == "self.feat" else ("s.feat" if U(_kw(c).get("feat")) == "self.feat" else "none")
            if kind == "verts":
                kw = _kw(c)
                if U(kw.get("angles")) != "self.angles" or U(kw.get("vnormal")) != "self.vnormals": raise TranslateError("_initialize_attributes: the vertex connection is not given angles= / vnormal=")
            return f"connect {arg}"
        if isinstance(s, ast.If) and U(s.test) == "self.connisNone" and not s.orelse and len(strip(s.body)) == 1 and U(strip(s.body)[0].targets[0]) == "self.conn":
            lines.append(f"  let s := if s.conn.isNone then {{ s with conn := some ({conn_call(strip(s.body)[0].value)}) }} else s"); seen.add("conn"); continue
        if isinstance(s, ast.Assign) and U(s.targets[0]) == "self.conn" and isinstance(s.value, ast.BoolOp) and isinstance(s.value.op, ast.Or) and U(s.value.values[0]) == "self.conn":
            lines.append(f"  let s := if s.conn.isNone then {{ s with conn := some ({conn_call(s.value.values[1])}) }} else s"); seen.add("conn"); continue
        raise TranslateError(f"{cls}._initialize_attributes: statement not recognised: {u[:100]}")
    need = {"cot", "defect", "feat", "conn"} | ({"angles", "vnormals", "defectloop"} if kind == "verts" else set())
    if not need <= seen: raise TranslateError(f"{cls}._initialize_attributes: missing {sorted(need - seen)}")
    if [l for l in lines if "feat :=" in l or "conn :=" in l] != [l for l in lines if "feat :=" in l] + [l for l in lines if "conn :=" in l]:
        raise TranslateError("_initialize_attributes: the connection is built before the feature set")
    name = "initializeAttributesFaces" if kind == "faces" else "initializeAttributesVerts"
    sig = "(detect : Bool → F)" if kind == "faces" else "(detect : Bool → Nat → F) (order : Nat)"
    txt = (extra + f"/-- `{cls}._initialize_attributes` ({rel}): `cotOnMesh` = is the `cotan` attribute of the MESH (re)computed by this call (`persistent`);\n"
           f"`detect onlyBorder ..` = the default `FeatureEdgeDetector(only_border=..)` run on the mesh, `connect feat` = the default connection built on `feat` -/\n"
           f"def {name} {{F C : Type}} {sig} (connect : Option F → C) (features : Bool) (s : AttrSt F C) : AttrSt F C :=\n" + "\n".join(lines) + "\n  s\n")
    return txt, {"steps": len(lines)}


def gen_flat_faces():
    fn = load_fn(CONN, "FlatConnectionFaces.transport")
    b = strip(fn.body)
    if not (len(b) == 1 and isinstance(b[0], ast.Return)): raise TranslateError("FlatConnectionFaces.transport is not a single return")
    v = ratlit(b[0].value)
    txt = (f"/-- `FlatConnectionFaces.transport` ({CONN}) -/\ndef flatFacesTransport (iA iB : Nat) : Rat := {v}\n")
    return txt, {"value": v}


S.EXTRA_SITES += [
    ("faces2d._initialize_attributes (imperative)", lambda: gen_init_attrs("faces")),
    ("vertex2d._initialize_attributes (imperative)", lambda: gen_init_attrs("verts")),
    ("connection.FlatConnectionFaces.transport (imperative)", gen_flat_faces),
]

# ----------------------------------------------------------------------------------------------------------------
# round 8: cotan_edge_diagonal, FlatConnectionVertices.transport, option names read by the constructors
# ----------------------------------------------------------------------------------------------------------------
def gen_cotan_edge_diagonal():
    fn = load_fn(LAP, "cotan_edge_diagonal")
    if [a.arg for a in fn.args.args] != ["mesh", "inverse"]: raise TranslateError("cotan_edge_diagonal: parameters")
    body = strip(fn.body)
    loop = _one([s for s in body if isinstance(s, ast.For)], "cotan_edge_diagonal: loop")
    if not (U(loop.iter) == "enumerate(mesh.edges)" and isinstance(loop.target, ast.Tuple) and isinstance(loop.target.elts[1], ast.Tuple)):
        raise TranslateError("cotan_edge_diagonal: loop is not over enumerate(mesh.edges)")
    ie = U(loop.target.elts[0]); u, v = (U(x) for x in loop.target.elts[1].elts)
    if not (isinstance(body[-1], ast.Return) and U(body[-1].value) in ("sp.diags(coeffs,format='csc')", "sp.diags(coeffs).tocsc()")):
        raise TranslateError(f"cotan_edge_diagonal does not return sp.diags(coeffs): {U(body[-1])[:80]}")
    lb = strip(loop.body)
    kinds = [U(x.targets[0]) if isinstance(x, ast.Assign) else type(x).__name__ for x in lb]
    if kinds != ["(T1,uT1,vT1)", "(T2,vT2,uT2)", "(cT1,cT2)", "If", "If", "If"]: raise TranslateError(f"cotan_edge_diagonal: statements of the loop are {kinds}")
    if U(lb[0].value) != f"mesh.connectivity.direct_face({u},{v},True)" or U(lb[1].value) != f"mesh.connectivity.direct_face({v},{u},True)":
        raise TranslateError("cotan_edge_diagonal: T1 / T2 are not direct_face(u,v,True) / direct_face(v,u,True)")
    z = lb[2].value
    if not (isinstance(z, ast.Tuple) and [ratlit(x) for x in z.elts] == ["((0 : Rat) / 1)"] * 2): raise TranslateError("cotan_edge_diagonal: cT1,cT2 do not start from 0")
    slots = []
    for k, g in ((1, lb[3]), (2, lb[4])):
        gb = strip(g.body)
        if not (U(g.test) == f"T{k}isnotNone" and not g.orelse and len(gb) == 3): raise TranslateError(f"cotan_edge_diagonal: guard {k} is not `if T{k} is not None:` with three statements")
        w = gb[0]
        if not (isinstance(w.value, ast.Subscript) and U(w.value.value) == f"mesh.faces[T{k}]"): raise TranslateError(f"cotan_edge_diagonal: opposite vertex {k} is not mesh.faces[T{k}][..]")
        from ..translate import lean_int_expr
        slots.append(lean_int_expr(w.value.slice, {f"uT{k}": "iu", f"vT{k}": "iv"}))
        if U(gb[1].value) != f"mesh.connectivity.vertex_to_corner_in_face({U(w.targets[0])},T{k})": raise TranslateError(f"cotan_edge_diagonal: corner {k} is not vertex_to_corner_in_face(w,T{k})")
        if not (U(gb[2].targets[0]) == f"cT{k}" and U(gb[2].value) == f"cotan[{U(gb[1].targets[0])}]"): raise TranslateError(f"cotan_edge_diagonal: cT{k} is not cotan[c]")
    if slots[0] != slots[1]: raise TranslateError("cotan_edge_diagonal: the two opposite-vertex index expressions differ")
    sel = lb[5]
    if U(sel.test) != "inverse": raise TranslateError("cotan_edge_diagonal: selection is not `if inverse`")
    ib, eb = strip(sel.body), strip(sel.orelse)
    if not (len(ib) == 1 and isinstance(ib[0], ast.If) and len(eb) == 1): raise TranslateError("cotan_edge_diagonal: branches of `if inverse`")
    t = ib[0].test
    if not (isinstance(t, ast.Compare) and isinstance(t.ops[0], (ast.Lt, ast.LtE)) and U(t.left) in ("abs(cT1+cT2)", "abs(cT2+cT1)")): raise TranslateError(f"cotan_edge_diagonal: guard is not abs(cT1+cT2) < THR: {U(t)}")
    rel = "<" if isinstance(t.ops[0], ast.Lt) else "≤"
    thr = ratlit(t.comparators[0])
    big = strip(ib[0].body)[0]; inv = strip(ib[0].orelse)[0]
    if U(big.targets[0]) != f"coeffs[{ie}]" or U(inv.targets[0]) != f"coeffs[{ie}]" or U(eb[0].targets[0]) != f"coeffs[{ie}]": raise TranslateError("cotan_edge_diagonal: a branch does not write coeffs[ie]")
    at = vnames({"cT1": "v_cT1", "cT2": "v_cT2"})
    txt = (f"/-- `operators.cotan_edge_diagonal` ({LAP}): position (in its face) of the vertex opposite to the side whose ends sit at positions `iu`, `iv` -/\n"
           f"def oppositeSlot (iu iv : Nat) : Nat := {slots[0]}\n"
           f"/-- the coefficient of one edge: `c1`, `c2` = `cotan[corner of the opposite vertex]` in `direct_face(u,v)` resp. `direct_face(v,u)` (`none` on the border side) -/\n"
           f"def cotanEdgeWeight (inverse : Bool) (c1 c2 : Option Rat) : Rat :=\n"
           f"  let v_cT1 : Rat := 0\n  let v_cT2 : Rat := 0\n"
           f"  let v_cT1 := match c1 with | some c => c | none => v_cT1\n"
           f"  let v_cT2 := match c2 with | some c => c | none => v_cT2\n"
           f"  if inverse then (if rabs {vexpr(t.left.args[0], at)} {rel} {thr} then {vexpr(big.value, at)} else {vexpr(inv.value, at)})\n"
           f"  else {vexpr(eb[0].value, at)}\n"
           f"/-- the diagonal, edge by edge (`enumerate(mesh.edges)`) -/\n"
           f"def cotanEdgeDiagonal (inverse : Bool) (edges : List (Option Rat × Option Rat)) : List Rat := edges.map (fun e => cotanEdgeWeight inverse e.1 e.2)\n")
    return txt, {"slot": slots[0], "thr": thr}


def gen_flat_verts():
    fn = load_fn(CONN, "FlatConnectionVertices.transport")
    b = strip(fn.body)
    a = [x.arg for x in fn.args.args]
    ok = len(b) == 2 and isinstance(b[0], ast.Assign) and U(b[0].value) == f"self.mesh.vertices[{a[2]}]-self.mesh.vertices[{a[1]}]" \
        and isinstance(b[1], ast.Return) and U(b[1].value) in (f"np.arctan2({U(b[0].targets[0])}.y,{U(b[0].targets[0])}.x)", f"math.atan2({U(b[0].targets[0])}.y,{U(b[0].targets[0])}.x)")
    if not ok: raise TranslateError("FlatConnectionVertices.transport is not arctan2 of vertices[iB] - vertices[iA]")
    txt = (f"/-- `FlatConnectionVertices.transport` ({CONN}): `dir a b` = `arctan2` of the planar direction of `vertices[b] - vertices[a]`, in turns -/\n"
           f"def flatVertsTransport (dir : Nat → Nat → Rat) (iA iB : Nat) : Rat := dir iA iB\n")
    return txt, {}


def gen_ctor_options():
    out = {}
    for rel, cls, nm in ((FACES, "_BaseFrameField2DFaces", "ctorOptionsFaces"), (VERTS, "_BaseFrameField2DVertices", "ctorOptionsVerts")):
        fn = load_fn(rel, f"{cls}.__init__")
        opts = []
        for n in ast.walk(fn):
            if isinstance(n, ast.Call) and U(n.func) == "kwargs.get" and n.args and isinstance(n.args[0], ast.Constant):
                opts.append((n.args[0].value, U(n.args[1]) if len(n.args) > 1 else "None"))
        pos = [a.arg for a in fn.args.args[1:]]
        out[nm] = (pos, opts)
    txt = ""
    for nm, (pos, opts) in out.items():
        txt += (f"/-- `__init__` of the field class: positional parameters and the keyword options it reads with `kwargs.get(name, default)` -/\n"
                f"def {nm}Positional : List String := [{', '.join(chr(34) + p + chr(34) for p in pos)}]\n"
                f"def {nm} : List (String × String) := [{', '.join('(' + chr(34) + k + chr(34) + ', ' + chr(34) + d + chr(34) + ')' for k, d in opts)}]\n")
    return txt, {k: str(v) for k, v in out.items()}


S.EXTRA_SITES += [
    ("laplacian_op.cotan_edge_diagonal (imperative)", gen_cotan_edge_diagonal),
    ("connection.FlatConnectionVertices.transport (imperative)", gen_flat_verts),
    ("faces2d / vertex2d __init__: positional parameters and kwargs options read", gen_ctor_options),
]
