"""C07 / C08 translated function BODIES: Python `ast` -> Lean (lean/Mouette/Generated/C07Src.lean, C08Src.lean), re-extracted on every
run from $MOUETTE_REPO.  Vocabulary: lean/Mouette/Model/GeomSource.lean (attributes as total maps `Nat -> a`, `wr`/`upd`, the loops
`forRange`/`forEach`/`forEnum` as left folds in source order, formal square roots `SSum`, `(cross^2, dot)` pairs).

What is read, statement by statement:
  straight-line primitives of geometry.py  (`cross`, `det_3x3`, `det_2x2`, `norm` (l2 branch), `distance`, `triangle_area`, `quad_area`,
      `angle_3pts`, `cotan`): every assignment in order, the returned expression, component indices `A[k]`, `mat[i,j]`;
      `Vec.normalized(u)` is tracked as a positive rescaling by `1/|u|`: a quotient `cosine/sine` (or `atan2(s,c)`) is only accepted
      when numerator and denominator carry the SAME rescalings (they cancel); otherwise TranslateError;
  attribute functions: the header (`persistent`/`dense` switch: the three constructions must agree on container, element width and
      default value), the loop nest (which container is iterated, `enumerate` or ids or `range`), every guard (`if c: continue`,
      `if/elif/else`), every write (which container, which index expression, `=` vs accumulation), counters, the result.
Tolerated respellings (normalised before compiling, so that Generated text and bridges do not change): renamed locals / loop
variables; `a[i] += e` = `a[i] = a[i] + e` = `a[i] = e + a[i]` (commutative element types); `n == 3` = `3 == n`; `a > b` = `b < a`;
docstrings, comments, `pass`, type annotations, logging calls; `x / 2` = `x * 0.5` is NOT normalised (TranslateError -> search).
Anything else raises TranslateError -> the site is a broken obligation -> failing-input search (props/c07.py, c08.py)."""
import ast
import copy

from .. import translate as T
from ..translate import TranslateError

GEOM = "mouette/geometry/geometry.py"
ZERO = {"rat": "0", "root": "([] : SSum)", "vec": "V3.zero", "cs": "((0, 1) : Rat × Rat)", "nat": "0"}
LTY = {"rat": "Rat", "root": "SSum", "vec": "V3", "cs": "Rat × Rat", "nat": "Nat", "bool": "Bool", "pts": "List V3", "face": "List Nat",
       "edge": "Nat × Nat", "int": "Int", "optnat": "Option Nat"}


class V:
    """a compiled value: Lean term, type, positive rescalings it carries (`norm`: tuple of Lean vector terms u, value = true/prod|u|),
    for a pure root its radicand (`rad`), for tuples their items, for lists of known length that length"""

    def __init__(self, lean, ty, norm=(), rad=None, items=None, length=None, elem=None):
        self.lean, self.ty, self.norm, self.rad, self.items, self.length, self.elem = lean, ty, tuple(sorted(norm)), rad, items, length, elem

    def __repr__(self):
        return f"V({self.lean}:{self.ty})"


# ------------------------------------------------------------------------------------------------------------------
# normalisation of harmless respellings
# ------------------------------------------------------------------------------------------------------------------
def _callfree(n):
    return not any(isinstance(x, ast.Call) for x in ast.walk(n))


class Norm(ast.NodeTransformer):
    def visit_Compare(self, n):
        self.generic_visit(n)
        if len(n.ops) == 1:
            op, a, b = n.ops[0], n.left, n.comparators[0]
            if isinstance(op, (ast.Gt, ast.GtE)):
                return ast.copy_location(ast.Compare(b, [ast.Lt() if isinstance(op, ast.Gt) else ast.LtE()], [a]), n)
            if isinstance(op, (ast.Eq, ast.NotEq)) and isinstance(a, ast.Constant) and not isinstance(b, ast.Constant):
                return ast.copy_location(ast.Compare(b, [op], [a]), n)
        return n

    def visit_UnaryOp(self, n):
        self.generic_visit(n)
        if isinstance(n.op, ast.Not) and isinstance(n.operand, ast.Compare) and len(n.operand.ops) == 1:
            c = n.operand
            flip = {ast.Eq: ast.NotEq, ast.NotEq: ast.Eq, ast.Is: ast.IsNot, ast.IsNot: ast.Is, ast.In: ast.NotIn, ast.NotIn: ast.In}
            if type(c.ops[0]) in flip:
                return ast.copy_location(ast.Compare(c.left, [flip[type(c.ops[0])]()], c.comparators), n)
        return n

    def visit_Assign(self, n):
        self.generic_visit(n)
        if len(n.targets) == 1 and isinstance(n.targets[0], ast.Subscript) and isinstance(n.value, ast.BinOp) \
                and isinstance(n.value.op, (ast.Add, ast.Sub, ast.Div, ast.Mult)):
            t, v = n.targets[0], n.value
            if ast.unparse(v.left) == ast.unparse(t):
                return ast.copy_location(ast.AugAssign(t, v.op, v.right), n)
            if isinstance(v.op, ast.Add) and ast.unparse(v.right) == ast.unparse(t) and _callfree(v.left):
                return ast.copy_location(ast.AugAssign(t, v.op, v.left), n)
        if len(n.targets) == 1 and isinstance(n.targets[0], ast.Name) and isinstance(n.value, ast.BinOp) \
                and isinstance(n.value.op, (ast.Add, ast.Sub)) and isinstance(n.value.left, ast.Name) and n.value.left.id == n.targets[0].id:
            return ast.copy_location(ast.AugAssign(n.targets[0], n.value.op, n.value.right), n)
        return n

    def visit_AnnAssign(self, n):
        self.generic_visit(n)
        if n.value is None: return None
        return ast.copy_location(ast.Assign([n.target], n.value), n)


def _is_noise(s):
    if isinstance(s, ast.Pass): return True
    if isinstance(s, ast.Expr) and isinstance(s.value, ast.Constant): return True
    if isinstance(s, ast.Expr) and isinstance(s.value, ast.Call):
        f = s.value.func
        txt = ast.unparse(f)
        if txt == "print" or txt.startswith("log") or txt.startswith("logging.") or txt.startswith("logger.") or txt.startswith("warnings."):
            return True
    if isinstance(s, ast.Assert): return True
    return False


def body_of(fn):
    fn = Norm().visit(copy.deepcopy(fn))
    ast.fix_missing_locations(fn)
    return strip(fn.body)


def strip(stmts):
    return [s for s in stmts if not _is_noise(s)]


# ------------------------------------------------------------------------------------------------------------------
# the compiler
# ------------------------------------------------------------------------------------------------------------------
class Ctx:
    """one function being compiled.  `sigs`: already translated functions callable as geom.<name> / <name>:
    name -> (lean name, [arg types], return type)."""

    def __init__(self, fname, sigs, cfg):
        self.fname, self.sigs, self.cfg = fname, sigs, cfg
        self.fresh = 0
        self.requires = []

    def err(self, msg, node=None):
        where = f" (line {getattr(node, 'lineno', '?')}: `{ast.unparse(node)[:70]}`)" if node is not None else ""
        raise TranslateError(f"{self.fname}: {msg}{where}")


def _num(node):
    """integer literal (possibly negative)"""
    if isinstance(node, ast.Constant) and isinstance(node.value, int) and not isinstance(node.value, bool): return node.value
    if isinstance(node, ast.Constant) and isinstance(node.value, float) and node.value == int(node.value): return int(node.value)
    if isinstance(node, ast.UnaryOp) and isinstance(node.op, ast.USub) and _num(node.operand) is not None: return -_num(node.operand)
    return None


COMP = {0: "x", 1: "y", 2: "z"}


def expr(cx, n, env):
    """Python expression -> V"""
    k = _num(n)
    if k is not None:
        if isinstance(n, ast.Constant) and isinstance(n.value, float): return V(f"({k} : Rat)", "rat")
        return V(str(k), "num")          # polymorphic literal (nat or rat by context)
    if isinstance(n, ast.Name):
        if n.id in env: return env[n.id]
        if n.id == "pi": return V("pi", "pi")
        cx.err(f"unknown name {n.id}", n)
    if isinstance(n, ast.Attribute):
        txt = ast.unparse(n)
        if txt in env: return env[txt]
        if txt in ("np.pi", "math.pi"): return V("pi", "pi")
        if n.attr in ("x", "y", "z") and _callfree(n.value):
            v = expr(cx, n.value, env)
            if v.ty == "vec": return V(f"{v.lean}.{n.attr}", "rat", v.norm)
        cx.err("unsupported attribute access", n)
    if isinstance(n, ast.Subscript):
        return subscript(cx, n, env)
    if isinstance(n, ast.BinOp):
        return binop(cx, n, env)
    if isinstance(n, ast.UnaryOp) and isinstance(n.op, ast.USub):
        v = expr(cx, n.operand, env)
        if v.ty == "negcot": return V(v.lean, "cs")       # -tan(theta + pi/2) = cot(theta): same (cross^2, dot) pair
        if v.ty == "rat": return V(f"(-{v.lean})", "rat", v.norm)
        if v.ty == "vec": return V(f"(smul (-1) {v.lean})", "vec", v.norm)
        cx.err("unsupported negation", n)
    if isinstance(n, ast.Call):
        return call(cx, n, env)
    if isinstance(n, (ast.Tuple, ast.List)):
        items = [expr(cx, e, env) for e in n.elts]
        return V(None, "tuple", items=items)
    if isinstance(n, ast.IfExp):
        c = cond(cx, n.test, env)
        a, b = expr(cx, n.body, env), expr(cx, n.orelse, env)
        a, b = unify(cx, a, b, n)
        return V(f"(if {c} then {a.lean} else {b.lean})", a.ty, a.norm)
    if isinstance(n, ast.GeneratorExp) or isinstance(n, ast.ListComp):
        return comprehension(cx, n, env)
    cx.err("unsupported expression", n)


def as_ty(cx, v, ty, node=None):
    if v.ty == ty: return v
    if v.ty == "num" and ty in ("rat", "nat"): return V(v.lean if ty == "nat" or not v.lean.startswith("-") else f"({v.lean})", ty)
    if v.ty == "num" and ty == "root" and v.lean == "0": return V(ZERO["root"], "root")
    if v.ty == "num" and ty == "vec" and v.lean == "0": return V("V3.zero", "vec")
    if v.ty == "nat" and ty == "rat": return V(f"({v.lean} : Rat)", "rat")
    cx.err(f"type {v.ty} where {ty} is expected: {v.lean}", node)


def unify(cx, a, b, node):
    if a.ty == b.ty and a.norm == b.norm: return a, b
    if a.ty == "num" and b.ty != "num": return as_ty(cx, a, b.ty, node), b
    if b.ty == "num" and a.ty != "num": return a, as_ty(cx, b, a.ty, node)
    if a.ty == "pi" or b.ty == "pi":
        cx.err("pi in a value position that is not a whole multiple of pi", node)
    cx.err(f"operands of different kinds ({a.ty}{list(a.norm)} / {b.ty}{list(b.norm)})", node)


def nat_expr(cx, n, env):
    """integer index arithmetic -> Lean Nat term.  `(a - k) % m` is compiled to `(a + m - k) % m` (Python's mod of a negative number)."""
    k = _num(n)
    if k is not None:
        if k < 0: cx.err("negative index constant", n)
        return str(k)
    if isinstance(n, ast.BinOp):
        if isinstance(n.op, ast.Mod) and isinstance(n.left, ast.BinOp) and isinstance(n.left.op, ast.Sub):
            a, kk, m = nat_expr(cx, n.left.left, env), nat_expr(cx, n.left.right, env), nat_expr(cx, n.right, env)
            return f"(({a} + {m} - {kk}) % {m})"
        ops = {ast.Add: "+", ast.Sub: "-", ast.Mult: "*", ast.Mod: "%", ast.FloorDiv: "/"}
        if type(n.op) in ops:
            return f"({nat_expr(cx, n.left, env)} {ops[type(n.op)]} {nat_expr(cx, n.right, env)})"
    v = expr(cx, n, env)
    if v.ty in ("nat", "num"): return v.lean
    if v.ty == "optnat": return f"({v.lean}.getD 0)"
    cx.err(f"not an integer expression ({v.ty})", n)


def subscript(cx, n, env):
    base = ast.unparse(n.value)
    # mesh containers
    if base == "mesh.vertices":
        return V(f"(pt vs {nat_expr(cx, n.slice, env)})", "vec")
    if base == "mesh.faces":
        return V(f"(faces.getD {nat_expr(cx, n.slice, env)} [])", "face")
    if base == "mesh.cells":
        return V(f"(cells.getD {nat_expr(cx, n.slice, env)} [])", "face")
    if base == "mesh.edges":
        return V(f"(edges.getD {nat_expr(cx, n.slice, env)} (0, 0))", "edge")
    if base == "mesh.face_corners":
        return V(f"(cornerVertex faces {nat_expr(cx, n.slice, env)})", "nat")
    v = expr(cx, n.value, env)
    if isinstance(n.slice, ast.Slice):
        if v.ty == "face" and n.slice.lower is None and n.slice.step is None and _num(n.slice.upper) is not None:
            return V(f"({v.lean}.take {_num(n.slice.upper)})", "face", length=_num(n.slice.upper))
        cx.err("unsupported slice", n)
    if isinstance(n.slice, ast.Tuple):       # mat[i,j] with mat = np.array([A,B,C])
        if v.ty == "rows" and len(n.slice.elts) == 2:
            i, j = _num(n.slice.elts[0]), _num(n.slice.elts[1])
            if i is None or j is None or not (0 <= i < len(v.items)) or j not in COMP: cx.err("matrix index is not a literal in range", n)
            r = v.items[i]
            return V(f"{r.lean}.{COMP[j]}", "rat", r.norm)
        cx.err("unsupported 2-D subscript", n)
    if v.ty == "vec":
        k = _num(n.slice)
        if k not in COMP: cx.err("vector component index is not 0, 1 or 2", n)
        return V(f"{v.lean}.{COMP[k]}", "rat", v.norm)
    if v.ty == "tuple":
        k = _num(n.slice)
        if k is None or not (0 <= k < len(v.items)): cx.err("tuple index is not a literal in range", n)
        return v.items[k]
    if v.ty == "pts":
        return V(f"({v.lean}.getD {nat_expr(cx, n.slice, env)} V3.zero)", "vec")
    if v.ty == "face":
        return V(f"({v.lean}.getD {nat_expr(cx, n.slice, env)} 0)", "nat")
    if v.ty == "edge":
        k = _num(n.slice)
        if k not in (0, 1): cx.err("edge index is not 0 or 1", n)
        return V(f"{v.lean}.{k + 1}", "nat")
    if v.ty == "attr:ref":
        return V(nat_expr(cx, n.slice, env), "ref")
    if v.ty == "mode" and cx.cfg.get("mode_dict"):
        return V(f"({cx.cfg['mode_dict']} {nat_expr(cx, n.slice, env)})", "rat")
    if v.ty.startswith("attr:"):
        return V(f"({v.lean} {nat_expr(cx, n.slice, env)})", v.ty[5:])
    cx.err(f"unsupported subscript of a {v.ty}", n)


def binop(cx, n, env):
    a, b = expr(cx, n.left, env), expr(cx, n.right, env)
    op = type(n.op)
    # whole multiples of pi (angle defects): handled by the caller through `pi_mult`
    if op in (ast.Add, ast.Sub):
        a, b = unify(cx, a, b, n)
        if a.ty == "vec": return V(f"({'add' if op is ast.Add else 'sub'} {a.lean} {b.lean})", "vec", a.norm)
        if a.ty in ("rat", "nat", "num", "int"):
            return V(f"({a.lean} {'+' if op is ast.Add else '-'} {b.lean})", a.ty, a.norm)
        if a.ty == "root" and op is ast.Add: return V(f"(SSum.add {a.lean} {b.lean})", "root", a.norm)
        cx.err(f"unsupported {a.ty} {'+' if op is ast.Add else '-'} {b.ty}", n)
    if op is ast.Mult:
        if a.ty in ("rat", "num", "nat") and b.ty in ("rat", "num", "nat"):
            ty = "nat" if {a.ty, b.ty} <= {"nat", "num"} and "nat" in (a.ty, b.ty) else ("num" if a.ty == b.ty == "num" else "rat")
            if ty == "rat": a, b = as_ty(cx, a, "rat", n), as_ty(cx, b, "rat", n)
            return V(f"({a.lean} * {b.lean})", ty, a.norm + b.norm)
        if a.ty == "vec" and b.ty in ("rat", "num", "nat"): a, b = b, a
        if b.ty == "vec" and a.ty in ("rat", "num", "nat"):
            return V(f"(smul {as_ty(cx, a, 'rat', n).lean} {b.lean})", "vec", a.norm + b.norm)
        if a.ty == "root" and b.ty in ("rat", "num"): a, b = b, a
        if b.ty == "root" and a.ty in ("rat", "num"):
            cx.err("a root scaled by a number of unknown sign (only division by a positive literal is accepted)", n)
        cx.err(f"unsupported {a.ty} * {b.ty}", n)
    if op is ast.Div:
        if a.ty in ("rat", "num", "nat") and b.ty == "root":
            if b.rad is None: cx.err("quotient by a root that is not a single norm", n)
            if tuple(a.norm) != tuple(b.norm):
                cx.err(f"cosine/sine quotient whose rescalings do not cancel: numerator {list(a.norm)}, denominator {list(b.norm)}", n)
            return V(f"({b.rad}, {as_ty(cx, a, 'rat', n).lean})", "cs")
        if b.ty in ("num", "nat", "rat") and a.ty == "vec":
            return V(f"(smul (1 / {as_ty(cx, b, 'rat', n).lean}) {a.lean})", "vec", a.norm)
        if b.ty == "num" and a.ty == "root":
            if int(b.lean) <= 0: cx.err("root divided by a non-positive literal", n)
            return V(f"(SSum.scale (1 / {b.lean}) {a.lean})", "root", a.norm)
        if b.ty == "nat" and a.ty == "root":
            return V(f"(SSum.scale (1 / ({b.lean} : Rat)) {a.lean})", "root", a.norm)
        if a.ty in ("rat", "num", "nat") and b.ty in ("rat", "num", "nat"):
            return V(f"({as_ty(cx, a, 'rat', n).lean} / {as_ty(cx, b, 'rat', n).lean})", "rat", a.norm)
        cx.err(f"unsupported {a.ty} / {b.ty}", n)
    cx.err("unsupported operator", n)


def comprehension(cx, n, env):
    """`(f(u) for u in L)` / `[f(u) for u in L]` over a face / point list / literal tuple of names"""
    if len(n.generators) != 1 or n.generators[0].ifs or not isinstance(n.generators[0].target, ast.Name):
        cx.err("unsupported comprehension", n)
    g = n.generators[0]
    var = g.target.id
    if ast.unparse(g.iter) in IDS:
        src = V(f"(List.range ({IDS[ast.unparse(g.iter)]}))", "natlist")
    else:
        src = expr(cx, g.iter, env)
    if src.ty == "edge":
        src = V(None, "tuple", items=[V(f"{src.lean}.1", "nat"), V(f"{src.lean}.2", "nat")])
    if src.ty == "tuple":
        items = []
        for it in src.items:
            e2 = dict(env); e2[var] = it
            items.append(expr(cx, n.elt, e2))
        return V(None, "tuple", items=items)
    if src.ty in ("face", "pts", "natlist"):
        ety = {"face": "nat", "pts": "vec", "natlist": "nat"}[src.ty]
        e2 = dict(env); e2[var] = V(f"v_{var}", ety)
        body = expr(cx, n.elt, e2)
        oty = {"vec": "pts", "rat": "ratlist", "nat": "natlist"}.get(body.ty)
        if oty is None: cx.err(f"comprehension producing {body.ty}", n)
        return V(f"({src.lean}.map (fun v_{var} => {body.lean}))", oty, length=src.length, elem=(var, n.elt, src))
    cx.err(f"comprehension over a {src.ty}", n)


def expand(cx, v, k, node):
    """the k components of a tuple / a list of known or required length k"""
    if v.ty == "tuple":
        if len(v.items) != k: cx.err(f"{len(v.items)} values where {k} are expected", node)
        return v.items
    if v.ty in ("pts", "face"):
        if v.length is not None and v.length != k: cx.err(f"list of length {v.length} where {k} values are expected", node)
        d = "V3.zero" if v.ty == "pts" else "0"
        if v.elem is not None:         # (f(u) for u in F): expand elementwise, which is what the unpacking does
            var, elt, src = v.elem
            outs = []
            for i in range(k):
                outs.append((var, elt, V(f"({src.lean}.getD {i} 0)" if src.ty in ("face", "natlist") else f"({src.lean}.getD {i} V3.zero)",
                                         "nat" if src.ty in ("face", "natlist") else "vec")))
            return outs
        return [V(f"({v.lean}.getD {i} {d})", "vec" if v.ty == "pts" else "nat") for i in range(k)]
    if v.ty == "edge" and k == 2:
        return [V(f"{v.lean}.1", "nat"), V(f"{v.lean}.2", "nat")]
    if v.ty == "opt3" and k == 3:       # (T, iA, iB) = direct_face(a, b, True): T is None exactly when the directed side is absent
        return [V(f"({v.lean}.map (·.1))", "optnat"), V(f"({v.lean}.getD (0, 0, 0)).2.1", "nat"), V(f"({v.lean}.getD (0, 0, 0)).2.2", "nat")]
    cx.err(f"cannot unpack a {v.ty} into {k} values", node)


def expand_vals(cx, v, k, node, env):
    out = []
    for it in expand(cx, v, k, node):
        if isinstance(it, tuple):
            var, elt, val = it
            e2 = dict(env); e2[var] = val
            out.append(expr(cx, elt, e2))
        else:
            out.append(it)
    return out


def call_args(cx, n, env, arity):
    """positional arguments, `*xs` expanded to the missing number of values"""
    if n.keywords: cx.err("keyword arguments in a call to a translated primitive", n)
    fixed = [a for a in n.args if not isinstance(a, ast.Starred)]
    out = []
    for a in n.args:
        if isinstance(a, ast.Starred):
            v = expr(cx, a.value, env)
            out += expand_vals(cx, v, arity - len(fixed), a, env)
        else:
            out.append(expr(cx, a, env))
    if len(out) != arity: cx.err(f"{len(out)} arguments where {arity} are expected", n)
    return out


def call(cx, n, env):
    f = ast.unparse(n.func)
    name = f.split(".")[-1]
    # --- calls to translated primitives -------------------------------------------------------------------------
    if (f.startswith("geom.") or f == name) and name in cx.sigs and name not in env:
        lname, atys, rty = cx.sigs[name][:3]
        radt = cx.sigs[name][3] if len(cx.sigs[name]) > 3 else None
        args = call_args(cx, n, env, len(atys))
        args = [as_ty(cx, a, t, n) for a, t in zip(args, atys)]
        nm = tuple(x for a in args for x in a.norm)
        if nm and name not in ("cross", "dot", "norm"): cx.err("a rescaled vector passed to a primitive that is not homogeneous of degree 1 in it", n)
        rad = None
        if radt is not None:
            import re as _re
            rad = _re.sub(r"\ba(\d+)\b", lambda m: args[int(m.group(1))].lean, radt)
        return V(f"({lname} {' '.join(a.lean for a in args)})", rty, nm, rad=rad)
    if f in ("np.dot", "dot", "geom.dot"):
        a, b = [expr(cx, x, env) for x in n.args]
        if a.ty != "vec" or b.ty != "vec": cx.err("dot of non-vectors", n)
        return V(f"(dot {a.lean} {b.lean})", "rat", a.norm + b.norm)
    if f in ("Vec", "geom.Vec") and len(n.args) == 1:
        return expr(cx, n.args[0], env)                     # Vec(x): a view of the same coordinates
    if f in ("Vec", "geom.Vec") and len(n.args) == 3:
        xs = [as_ty(cx, expr(cx, a, env), "rat", n) for a in n.args]
        nm = xs[0].norm
        if any(x.norm != nm for x in xs): cx.err("components with different rescalings", n)
        return V(f"(V3.mk {xs[0].lean} {xs[1].lean} {xs[2].lean})", "vec", nm)
    if f in ("Vec.normalized", "geom.Vec.normalized") and len(n.args) == 1:
        v = expr(cx, n.args[0], env)
        if v.ty != "vec": cx.err("normalized() of a non-vector", n)
        if cx.cfg.get("unit_outputs"):
            return V(v.lean, "vec", v.norm + (v.lean,))
        return V(v.lean, "vec", v.norm + (v.lean,))
    if isinstance(n.func, ast.Attribute) and n.func.attr == "norm" and not n.args and f != "geom.norm":
        v = expr(cx, n.func.value, env)
        if v.ty != "vec": cx.err(".norm() of a non-vector", n)
        return V(f"(SSum.root (norm2 {v.lean}))", "root", v.norm, rad=f"norm2 {v.lean}")
    if isinstance(n.func, ast.Attribute) and n.func.attr == "flatten" and not n.args:
        return expr(cx, n.func.value, env)
    if f in ("np.sqrt", "math.sqrt", "sqrt") and len(n.args) == 1:
        v = expr(cx, n.args[0], env)
        if v.ty != "rat": cx.err("sqrt of a non-scalar", n)
        return V(f"(SSum.root {v.lean})", "root", tuple(sorted(set(v.norm))) if len(set(v.norm)) * 2 == len(v.norm) else v.norm, rad=v.lean)
    if f in ("math.atan2", "atan2", "np.arctan2") and len(n.args) == 2:
        s, c = expr(cx, n.args[0], env), expr(cx, n.args[1], env)
        if s.ty != "root" or s.rad is None: cx.err("atan2 whose first argument is not a single norm", n)
        if tuple(s.norm) != tuple(c.norm): cx.err("atan2 whose arguments carry different rescalings", n)
        return V(f"({s.rad}, {as_ty(cx, c, 'rat', n).lean})", "cs")
    if f.endswith(".get_attribute") and len(n.args) == 1 and isinstance(n.args[0], ast.Constant):
        key = "get:" + f.split(".")[1] + ":" + str(n.args[0].value)
        if key not in env: cx.err("read of a cached attribute that this function is not expected to read", n)
        return env[key]
    if f in ("np.tan", "math.tan") and len(n.args) == 1:
        # tan(theta + pi/2) = -cot(theta): only as `-np.tan(<angle> + np.pi/2)` (handled by the caller through USub)
        a = n.args[0]
        if isinstance(a, ast.BinOp) and isinstance(a.op, ast.Add):
            l, r = a.left, a.right
            if ast.unparse(r).replace(" ", "") in ("np.pi/2", "math.pi/2", "pi/2"):
                v = expr(cx, l, env)
                if v.ty == "cs": return V(v.lean, "negcot")
        cx.err("tan of something that is not <angle> + pi/2", n)
    if f == "abs" and len(n.args) == 1:
        v = expr(cx, n.args[0], env)
        if v.ty != "rat": cx.err("abs of a non-scalar", n)
        return V(f"(absR {v.lean})", "rat", v.norm)
    if f == "len" and len(n.args) == 1:
        t = ast.unparse(n.args[0])
        if t in ("mesh.vertices", "mesh.faces", "mesh.edges", "mesh.cells"):
            ln = {"mesh.vertices": "vs", "mesh.faces": "faces", "mesh.edges": "edges", "mesh.cells": "cells"}[t] + ".length"
            if cx.cfg.get("int_lens"): return V(f"({ln} : Int)", "int")
            return V(ln, "nat")
        if t == "mesh.face_corners": return V("(cornerVerts faces).length", "nat")
        v = expr(cx, n.args[0], env)
        if v.ty in ("pts", "face", "natlist"): return V(f"{v.lean}.length", "nat")
        cx.err("len of an unsupported value", n)
    if f == "min" and len(n.args) == 2:
        a, b = [expr(cx, x, env) for x in n.args]
        return V(f"(min {as_ty(cx, a, 'nat', n).lean} {as_ty(cx, b, 'nat', n).lean})", "nat")
    if f == "sum" and len(n.args) == 1 and ast.unparse(n.args[0]) == "mesh.vertices":
        return V("(vsum vs)", "vec")
    if f == "sum" and len(n.args) == 1:
        v = expr(cx, n.args[0], env)
        if v.ty == "pts": return V(f"(vsum {v.lean})", "vec")
        if v.ty == "ratlist": return V(f"(rsum {v.lean})", "rat")
        if v.ty == "tuple" and all(i.ty == "vec" for i in v.items): return V("(vsum [" + ", ".join(i.lean for i in v.items) + "])", "vec")
        cx.err(f"sum over a {v.ty}", n)
    if f == "np.array" and len(n.args) == 1 and isinstance(n.args[0], (ast.List, ast.Tuple)):
        items = [expr(cx, e, env) for e in n.args[0].elts]
        if not all(i.ty == "vec" for i in items): cx.err("np.array of non-vectors", n)
        return V(None, "rows", items=items)
    # --- connectivity queries that the models treat as given ---------------------------------------------------
    if f == "mesh.connectivity.direct_face" and len(n.args) == 3 and isinstance(n.args[2], ast.Constant) and n.args[2].value is True and not n.keywords:
        return V(f"(directFace faces {nat_expr(cx, n.args[0], env)} {nat_expr(cx, n.args[1], env)})", "opt3")
    if f == "mesh.connectivity.vertex_to_faces" and len(n.args) == 1:
        return V(f"(vertexFaces faces {nat_expr(cx, n.args[0], env)})", "natlist")
    if f == "mesh.connectivity.face_to_corners" and len(n.args) == 1:
        return V(f"(faceCorners faces {nat_expr(cx, n.args[0], env)})", "natlist")
    if f == "mesh.face_corners.adj" and len(n.args) == 1:
        return V(f"(cornerFace faces {nat_expr(cx, n.args[0], env)})", "nat")
    if f == "mesh.connectivity.face_to_first_corner" and len(n.args) == 1:
        return V(f"(firstCorner faces {nat_expr(cx, n.args[0], env)})", "nat")
    if f == "mesh.is_vertex_on_border" and len(n.args) == 1:
        return V(f"(isBorderVertex faces {nat_expr(cx, n.args[0], env)})", "bool")
    cx.err("unsupported call", n)


def cond(cx, n, env):
    """Python condition -> Lean Bool term"""
    if isinstance(n, ast.BoolOp):
        parts = [cond(cx, v, env) for v in n.values]
        return "(" + (" && " if isinstance(n.op, ast.And) else " || ").join(parts) + ")"
    if isinstance(n, ast.UnaryOp) and isinstance(n.op, ast.Not):
        return f"(!{cond(cx, n.operand, env)})"
    if isinstance(n, ast.Compare) and len(n.ops) == 1 and isinstance(n.ops[0], (ast.In, ast.NotIn)) \
            and isinstance(n.comparators[0], (ast.Tuple, ast.List, ast.Set)) and all(isinstance(e, ast.Constant) and isinstance(e.value, str) for e in n.comparators[0].elts):
        v = expr(cx, n.left, env)
        if v.ty != "mode": cx.err("membership test on a value that is not a mode parameter", n)
        r = "(" + " || ".join(f'({v.lean} == "{e.value}")' for e in sorted(n.comparators[0].elts, key=lambda e: e.value)) + ")"
        return r if isinstance(n.ops[0], ast.In) else f"(!{r})"
    if isinstance(n, ast.Call) and ast.unparse(n.func).endswith(".has_attribute") and len(n.args) == 1 and isinstance(n.args[0], ast.Constant):
        key = "has:" + ast.unparse(n.func).split(".")[1] + ":" + str(n.args[0].value)
        if key not in env: cx.err("test of a cached attribute that this function is not expected to read", n)
        return env[key].lean
    if isinstance(n, ast.Compare) and len(n.ops) == 1:
        op = n.ops[0]
        a, b = n.left, n.comparators[0]
        if isinstance(op, (ast.Is, ast.IsNot)) and isinstance(b, ast.Constant) and b.value is None:
            v = expr(cx, a, env)
            if v.ty != "optnat": cx.err("`is None` on a value that is not an optional index", n)
            return f"({v.lean}).isNone" if isinstance(op, ast.Is) else f"({v.lean}).isSome"
        if isinstance(b, ast.Constant) and isinstance(b.value, str):
            v = expr(cx, a, env)
            if v.ty != "mode": cx.err("string comparison on a value that is not a mode parameter", n)
            r = f'({v.lean} == "{b.value}")'
            return r if isinstance(op, ast.Eq) else f"(!{r})"
        va, vb = expr(cx, a, env), expr(cx, b, env)
        ops = {ast.Eq: "==", ast.NotEq: "!=", ast.Lt: "<", ast.LtE: "≤"}
        if type(op) not in ops: cx.err("unsupported comparison", n)
        if {va.ty, vb.ty} <= {"nat", "num", "optnat"}:
            l, r = nat_expr(cx, a, env), nat_expr(cx, b, env)
        else:
            l, r = as_ty(cx, va, "rat", n).lean, as_ty(cx, vb, "rat", n).lean
        if isinstance(op, (ast.Lt, ast.LtE)): return f"decide ({l} {ops[type(op)]} {r})"
        return f"({l} {ops[type(op)]} {r})"
    v = expr(cx, n, env)
    if v.ty == "bool": return v.lean
    cx.err("unsupported condition", n)


# ------------------------------------------------------------------------------------------------------------------
# straight-line primitives
# ------------------------------------------------------------------------------------------------------------------
def bind_targets(cx, tgt, val, env, lets, node):
    """`x = e` / `a, b = e` : returns nothing, extends env (values are let-bound under a Lean name derived from the position, so that
    renaming a local does not change the generated text)"""
    def bind(name, v):
        if v.ty in ("tuple", "rows"):
            env[name] = v; return
        cx.fresh += 1
        ln = f"t{cx.fresh}"
        lets.append(f"let {ln} := {v.lean}")
        env[name] = V(ln, v.ty, v.norm, rad=(f"norm2 {ln}" if False else v.rad), items=v.items, length=v.length, elem=v.elem)
    if isinstance(tgt, ast.Name):
        bind(tgt.id, val)
    elif isinstance(tgt, ast.Tuple) and all(isinstance(e, ast.Name) for e in tgt.elts):
        vals = expand_vals(cx, val, len(tgt.elts), node, env)
        for e, v in zip(tgt.elts, vals): bind(e.id, v)
    else:
        cx.err("unsupported assignment target", node)


def primitive(fn, sigs, argtys, rty, lname=None, select=None, cfg=None):
    """straight-line function (assignments, then `return e`) -> Lean definition text + signature"""
    cx = Ctx(fn.name, sigs, cfg or {})
    args = [a.arg for a in fn.args.args]
    if fn.args.vararg is not None:
        if select is None: cx.err("*args function without a selected branch")
    body = body_of(fn)
    if select is not None: args, body = select(cx, fn, body)
    if len(args) != len(argtys): cx.err(f"{len(args)} parameters where {len(argtys)} are expected")
    env = {a: V(f"a{i}", t) for i, (a, t) in enumerate(zip(args, argtys))}
    lets = []
    ret = None
    for st in body:
        if isinstance(st, ast.Assign) and len(st.targets) == 1:
            bind_targets(cx, st.targets[0], expr(cx, st.value, env), env, lets, st)
        elif isinstance(st, ast.Return) and st is body[-1]:
            ret = expr(cx, st.value, env)
        else:
            cx.err("statement that is neither an assignment nor the final return", st)
    if ret is None: cx.err("no final return")
    if rty == "vec3" and ret.ty == "vec": rty = "vec"
    ret = as_ty(cx, ret, rty)
    if ret.norm: cx.err(f"the result still carries rescalings {list(ret.norm)}")
    lname = lname or fn.name
    params = " ".join(f"(a{i} : {LTY[t]})" for i, t in enumerate(argtys))
    text = f"def {lname} {params} : {LTY[rty]} :=\n  " + "\n  ".join(lets + [ret.lean]) + "\n"
    return text, (lname, list(argtys), rty, ret.rad if (ret.ty == "root" and not lets) else None)


# ------------------------------------------------------------------------------------------------------------------
# branch selection for the primitives that dispatch on argument form
# ------------------------------------------------------------------------------------------------------------------
def select_norm_l2(cx, fn, body):
    """`norm(x, which="l2")`: the branch `if which == "l2": return <e>`"""
    for st in body:
        if isinstance(st, ast.If) and isinstance(st.test, ast.Compare) and ast.unparse(st.test) in ("which == 'l2'", "'l2' == which"):
            b = strip(st.body)
            if len(b) == 1 and isinstance(b[0], ast.Return): return ["x"] if fn.args.args[0].arg == "x" else [fn.args.args[0].arg], b
    cx.err("branch `if which == 'l2': return ..` not found")


def select_distance(cx, fn, body):
    """`distance(A, B, which="l2")`: `return norm(B-A, which)` with the default mode"""
    a = [x.arg for x in fn.args.args]
    if len(a) != 3 or not fn.args.defaults or ast.unparse(fn.args.defaults[-1]) != "'l2'": cx.err("signature is not (A, B, which='l2')")

    class R(ast.NodeTransformer):
        def visit_Call(self, n):
            self.generic_visit(n)
            if ast.unparse(n.func).split(".")[-1] == "norm" and len(n.args) == 2 and isinstance(n.args[1], ast.Name) and n.args[1].id == a[2]:
                return ast.copy_location(ast.Call(n.func, [n.args[0]], []), n)
            return n
    return a[:2], [R().visit(s) for s in body]


def select_det3(cx, fn, body):
    """`det_3x3(*args)`: the branch `len(args) == 3`"""
    va = fn.args.vararg.arg
    pre = None
    rest = []
    for st in body:
        if isinstance(st, ast.If) and pre is None:
            cur = st
            while isinstance(cur, ast.If):
                if ast.unparse(cur.test) == f"len({va}) == 3": pre = strip(cur.body); break
                cur = cur.orelse[0] if len(cur.orelse) == 1 else None
            if pre is None: cx.err("branch `len(args) == 3` not found")
        else:
            rest.append(st)
    if pre is None: cx.err("branch `len(args) == 3` not found")

    class R(ast.NodeTransformer):
        def visit_Subscript(self, n):
            self.generic_visit(n)
            if isinstance(n.value, ast.Name) and n.value.id == va and _num(n.slice) in (0, 1, 2):
                return ast.copy_location(ast.Name(id=f"arg{_num(n.slice)}", ctx=ast.Load()), n)
            return n
    return ["arg0", "arg1", "arg2"], [R().visit(s) for s in pre + rest]


def select_det2(cx, fn, body):
    """`det_2x2(A, B)`: the non-complex branches"""
    out = []
    for st in body:
        if isinstance(st, ast.If) and ast.unparse(st.test).startswith("isinstance(") and "complex" in ast.unparse(st.test):
            out += strip(st.orelse)
        else:
            out.append(st)
    return [a.arg for a in fn.args.args], out


# ------------------------------------------------------------------------------------------------------------------
# attribute functions: header + loop nest
# ------------------------------------------------------------------------------------------------------------------
CONTAINERS = {"vertices": "vs.length", "faces": "faces.length", "edges": "edges.length", "cells": "cells.length",
              "face_corners": "(cornerVerts faces).length"}
IDS = {"mesh.id_vertices": "vs.length", "mesh.id_faces": "faces.length", "mesh.id_edges": "edges.length", "mesh.id_cells": "cells.length",
       "mesh.id_corners": "(cornerVerts faces).length"}
LISTS = {"mesh.faces": ("faces", "face"), "mesh.cells": ("cells", "face"), "mesh.edges": ("edges", "edge"),
         "mesh.face_corners": ("(cornerVerts faces)", "nat"), "mesh.vertices": ("vs", "vec")}
ETY = {"rat": "Rat", "root": "SSum", "vec": "V3", "cs": "Rat × Rat", "nat": "Nat", "defect": "Nat × List Nat", "reflist": "List Nat"}
EZERO = dict(ZERO, defect=None, reflist="([] : List Nat)")


def _pi_mult(cx, node):
    if _num(node) == 0: return 0
    if isinstance(node, ast.Name) and node.id == "pi": return 1
    if isinstance(node, ast.BinOp) and isinstance(node.op, ast.Mult):
        a, b = node.left, node.right
        if isinstance(b, ast.Name) and b.id == "pi" and _num(a) is not None: return _num(a)
        if isinstance(a, ast.Name) and a.id == "pi" and _num(b) is not None: return _num(b)
    cx.err("not an integer multiple of pi", node)


def header(cx, st, elem):
    """`if persistent: X = mesh.C.create_attribute(name, T, [k], ..) else: X = ArrayAttribute(T, len(mesh.C), [k], ..) if dense else
    Attribute(T, [k], ..)`  ->  (X, container, python type, width, default)"""
    if not (isinstance(st, ast.If) and isinstance(st.test, ast.Name) and st.test.id == "persistent" and len(strip(st.orelse)) == 1):
        return None
    rows = []

    def ctor(callnode, kind):
        f = ast.unparse(callnode.func)
        args = list(callnode.args)
        kw = {k.arg: k.value for k in callnode.keywords}
        if kind == "create":
            if not (f.startswith("mesh.") and f.endswith(".create_attribute")): cx.err("persistent branch does not call create_attribute", callnode)
            cont = f.split(".")[1]
            if len(args) < 2 or ast.unparse(args[0]) != "name": cx.err("create_attribute is not given the `name` parameter", callnode)
            ty = ast.unparse(args[1]); width = _num(args[2]) if len(args) > 2 else 1
        elif kind == "array":
            if f != "ArrayAttribute": cx.err("dense branch is not ArrayAttribute(..)", callnode)
            ty = ast.unparse(args[0])
            ln = ast.unparse(args[1])
            if not ln.startswith("len(mesh.") : cx.err("ArrayAttribute size is not len(mesh.<container>)", callnode)
            cont = ln[len("len(mesh."):-1]
            width = _num(args[2]) if len(args) > 2 else 1
        else:
            if f != "Attribute": cx.err("sparse branch is not Attribute(..)", callnode)
            ty = ast.unparse(args[0]); cont = None
            width = _num(args[1]) if len(args) > 1 else 1
        if isinstance(width, type(None)):
            width = "dim"          # a name bound to len(mesh.vertices[0]) (checked where it is bound)
        dv = kw.get("default_value")
        default = 0 if dv is None else _pi_mult(cx, dv)
        if kind == "create" and "dense" in kw and ast.unparse(kw["dense"]) not in ("dense", "True"):
            cx.err("create_attribute(dense=..) is neither the parameter nor True", callnode)
        rows.append((kind, cont, ty, width, default))

    pb = strip(st.body)
    if len(pb) != 1: cx.err("persistent branch is not a single statement", st)
    p = pb[0]
    if isinstance(p, ast.If) and ast.unparse(p.test).endswith(".has_attribute(name)"):      # re-use the attribute of that name
        g = strip(p.body)[0]
        if not (isinstance(g, ast.Assign) and ast.unparse(g.value).endswith(".get_attribute(name)")): cx.err("re-use branch is not get_attribute(name)", p)
        p = strip(p.orelse)[0]
    if not (isinstance(p, ast.Assign) and isinstance(p.value, ast.Call)): cx.err("persistent branch is not an assignment of a call", st)
    var = p.targets[0].id
    ctor(p.value, "create")
    q = strip(st.orelse)[0]
    if not (isinstance(q, ast.Assign) and q.targets[0].id == var and isinstance(q.value, ast.IfExp) and ast.unparse(q.value.test) == "dense"):
        cx.err("non-persistent branch is not `X = ArrayAttribute(..) if dense else Attribute(..)`", st)
    ctor(q.value.body, "array"); ctor(q.value.orelse, "sparse")
    conts = {r[1] for r in rows if r[1] is not None}
    if len(conts) != 1: cx.err(f"the constructions disagree on the container: {sorted(conts)}", st)
    for i, what in ((2, "element type"), (3, "width"), (4, "default value")):
        if len({r[i] for r in rows}) != 1: cx.err(f"the three constructions disagree on the {what}: {[r[i] for r in rows]}", st)
    return var, rows[0][1], rows[0][2], rows[0][3], rows[0][4]


def cached_source(cx, st):
    """`if mesh.C.has_attribute("k"): X = mesh.C.get_attribute("k") else: X = f(mesh, ..)` -> (X, container, key, fallback)"""
    if not (isinstance(st, ast.If) and isinstance(st.test, ast.Call) and ast.unparse(st.test.func).endswith(".has_attribute")): return None
    if len(st.test.args) != 1 or not isinstance(st.test.args[0], ast.Constant): return None
    key = st.test.args[0].value
    cont = ast.unparse(st.test.func).split(".")[1]
    a, b = strip(st.body), strip(st.orelse)
    if len(a) != 1 or len(b) != 1 or not isinstance(a[0], ast.Assign) or not isinstance(b[0], ast.Assign): return None      # a general if/else on the cached attribute
    want = f"mesh.{cont}.get_attribute('{key}')"
    if ast.unparse(a[0].value) != want: cx.err(f"the cached branch does not read {want}", st)
    if a[0].targets[0].id != b[0].targets[0].id: cx.err("the two branches bind different names", st)
    if not isinstance(b[0].value, ast.Call) or not b[0].value.args or ast.unparse(b[0].value.args[0]) != "mesh": cx.err("fallback is not f(mesh, ..)", st)
    return a[0].targets[0].id, cont, key, ast.unparse(b[0].value.func)


class Fn:
    """compiler of one attribute function"""

    def __init__(self, fn, sigs, cfg):
        self.cx = Ctx(fn.name, sigs, cfg)
        self.fn, self.cfg = fn, cfg
        self.names = {}
        self.headers = []
        self.sources = []
        self.requires = []

    def lname(self, py):
        if py not in self.names: self.names[py] = f"x{len(self.names) + 1}"
        return self.names[py]

    # -- statements ----------------------------------------------------------------------------------------------
    def assigned(self, stmts):
        """python names (re)bound or written through in these statements, in order of first occurrence"""
        out = []

        def add(n):
            if n not in out: out.append(n)
        for s in stmts:
            for n in ast.walk(s):
                if isinstance(n, ast.Call) and isinstance(n.func, ast.Attribute) and n.func.attr == "clear" and isinstance(n.func.value, ast.Name):
                    add(n.func.value.id)
                if isinstance(n, (ast.Assign, ast.AugAssign)):
                    tg = n.targets if isinstance(n, ast.Assign) else [n.target]
                    for t in tg:
                        for e in (t.elts if isinstance(t, ast.Tuple) else [t]):
                            if isinstance(e, ast.Name): add(e.id)
                            elif isinstance(e, ast.Subscript) and isinstance(e.value, ast.Name): add(e.value.id)
        return out

    def state_of(self, stmts, env):
        return [n for n in self.assigned(stmts) if n in env and (env[n].ty.startswith("attr:") or env[n].ty == "attr2" or env[n].ty in ("nat", "rat", "root", "vec") and env[n].lean in self.names.values())]

    def pack(self, S, env):
        if len(S) == 1: return env[S[0]].lean
        return "(" + ", ".join(env[n].lean for n in S) + ")"

    def unpack(self, S, src, env):
        """Lean let-bindings restoring the state variables from the tuple term `src`"""
        if len(S) == 1: return []
        out = []
        for i, n in enumerate(S):
            proj = src + "".join(".2" for _ in range(i)) + (".1" if i < len(S) - 1 else "")
            out.append(f"let {env[n].lean} := {proj}")
        return out

    def block(self, stmts, env, S):
        """compile statements; returns Lean term for the state tuple `S` after them"""
        cx = self.cx
        lets = []
        stmts = strip(stmts)
        for k, st in enumerate(stmts):
            if isinstance(st, ast.If) and len(strip(st.body)) == 1 and isinstance(strip(st.body)[0], ast.Continue) and not st.orelse:
                c = cond(cx, st.test, env)
                rest = self.block(stmts[k + 1:], dict(env), S)
                return self.wrap(lets, f"if {c} then {self.pack(S, env)} else {rest}")
            if isinstance(st, ast.If) and len(strip(st.body)) == 1 and isinstance(strip(st.body)[0], ast.Raise) and not st.orelse:
                self.requires.append("inside the loop: not (" + ast.unparse(st.test) + ")"); continue
            if isinstance(st, ast.Expr) and isinstance(st.value, ast.Call) and isinstance(st.value.func, ast.Attribute) and st.value.func.attr == "clear" \
                    and not st.value.args and isinstance(st.value.func.value, ast.Name) and st.value.func.value.id in env \
                    and env[st.value.func.value.id].ty.startswith("attr:"):
                a = env[st.value.func.value.id]
                lets.append(f"let {a.lean} : Attr ({ETY[a.ty[5:]]}) := fun _ => {EZERO[a.ty[5:]]}"); continue
            cs = cached_source(cx, st)
            if cs is not None:
                var, cont, key, fb = cs
                want = self.cfg.get("sources", {}).get(key)
                if want is None or (cont, key, fb) != want[:3]: cx.err(f"unexpected cached attribute source {cont}['{key}'] / {fb}", st)
                env[var] = V(want[3], want[4]); self.sources.append((self.fn.name, var, cont, key, fb)); continue
            wa = self.work_arrays(st, env)
            if wa is not None:
                for name, ety, init, size in wa:
                    ln = self.lname(name)
                    lets.append(f"let {ln} : Attr ({ETY[ety]}) := fun _ => {init}")
                    env[name] = V(ln, "attr:" + ety, length=size)
                continue
            if isinstance(st, ast.If):
                common = self.common_inits(st, env)
                for name, ety, init, size in common:
                    if name not in env:
                        ln = self.lname(name)
                        lets.append(f"let {ln} : Attr ({ETY[ety]}) := fun _ => {ZERO[ety]}")
                        env[name] = V(ln, "attr:" + ety, length=size)
            if isinstance(st, ast.If):
                c = cond(cx, st.test, env)
                mod = [n for n in self.assigned([st]) if n in env]
                st_all = self.state_of([st], env)
                extra = [n for n in st_all if n not in S]
                S2 = [n for n in S if n in mod] + extra
                if not S2: cx.err("conditional without effect on the state", st)
                a = self.block(st.body, dict(env), S2)
                b = self.block(st.orelse, dict(env), S2) if st.orelse else self.pack(S2, env)
                if len(S2) == 1:
                    lets.append(f"let {env[S2[0]].lean} := if {c} then {a} else {b}")
                else:
                    lets.append(f"let s := if {c} then {a} else {b}")
                    lets += self.unpack(S2, "s", env)
                continue
            if isinstance(st, ast.For):
                lets += self.loop(st, env)
                continue
            if isinstance(st, ast.Assign) and len(st.targets) == 1 and isinstance(st.targets[0], ast.Subscript):
                lets.append(self.write(st.targets[0], None, st.value, env, st)); continue
            if isinstance(st, ast.AugAssign) and isinstance(st.target, ast.Subscript):
                lets.append(self.write(st.target, st.op, st.value, env, st)); continue
            if isinstance(st, ast.AugAssign) and isinstance(st.target, ast.Name):
                n = st.target.id
                if n not in env: cx.err("augmented assignment to an unknown name", st)
                cur = env[n]
                v = as_ty(cx, expr(cx, st.value, env), cur.ty, st)
                if isinstance(st.op, ast.Add):
                    t = {"nat": f"{cur.lean} + {v.lean}", "rat": f"{cur.lean} + {v.lean}", "root": f"SSum.add {cur.lean} {v.lean}", "vec": f"add {cur.lean} {v.lean}"}[cur.ty]
                elif isinstance(st.op, ast.Mult) and cur.ty == "nat":
                    t = f"{cur.lean} * {v.lean}"
                else: cx.err("unsupported augmented assignment", st)
                lets.append(f"let {cur.lean} := {t}"); continue
            if isinstance(st, ast.Assign) and len(st.targets) == 1:
                tgt = st.targets[0]
                if isinstance(tgt, ast.Name) and tgt.id in env and tgt.id in S:
                    v = as_ty(cx, expr(cx, st.value, env), env[tgt.id].ty, st)
                    lets.append(f"let {env[tgt.id].lean} := {v.lean}"); continue
                self.bind(tgt, expr(cx, st.value, env), env, lets, st); continue
            if isinstance(st, ast.Return):
                cx.err("return inside a block", st)
            cx.err("unsupported statement", st)
        return self.wrap(lets, self.pack(S, env))

    def _np_init(self, value, env):
        """`np.zeros(<n>)` / `np.ones(<n>)` (optionally with dtype=int|float) -> (init, size) or None"""
        if not (isinstance(value, ast.Call) and ast.unparse(value.func) in ("np.zeros", "np.ones") and len(value.args) == 1): return None
        for kw in value.keywords:
            if kw.arg != "dtype" or ast.unparse(kw.value) not in ("int", "float"): return None
        return ("1" if ast.unparse(value.func) == "np.ones" else "0"), nat_expr(self.cx, value.args[0], env)

    def lil_matrix(self, st, env):
        """`mat = sp.lil_matrix((n, m))` -> (name, rows, cols)"""
        if isinstance(st, ast.Assign) and len(st.targets) == 1 and isinstance(st.targets[0], ast.Name) and isinstance(st.value, ast.Call) \
                and ast.unparse(st.value.func) == "sp.lil_matrix" and len(st.value.args) == 1 and isinstance(st.value.args[0], ast.Tuple) \
                and len(st.value.args[0].elts) == 2 and not st.value.keywords:
            return st.targets[0].id, nat_expr(self.cx, st.value.args[0].elts[0], env), nat_expr(self.cx, st.value.args[0].elts[1], env)
        return None

    def work_arrays(self, st, env):
        """`X = np.zeros(n)` or `X, Y = np.zeros(n), np.zeros(n)` -> [(name, element type, initial value, size)]"""
        if not (isinstance(st, ast.Assign) and len(st.targets) == 1): return None
        t, v = st.targets[0], st.value
        ety = self.cfg.get("index_arrays", "rat") if isinstance(t, ast.Tuple) else "rat"
        if isinstance(t, ast.Name): pairs = [(t, v)]
        elif isinstance(t, ast.Tuple) and isinstance(v, ast.Tuple) and len(t.elts) == len(v.elts) and all(isinstance(e, ast.Name) for e in t.elts):
            pairs = list(zip(t.elts, v.elts))
        else: return None
        out = []
        for n_, v_ in pairs:
            r = self._np_init(v_, env)
            if r is None: return None
            out.append((n_.id, ety, r[0], r[1]))
        return out

    def common_inits(self, st, env):
        """work arrays created at the top of EVERY branch of an if/elif/else under the same name"""
        branches = []
        cur = st
        while True:
            branches.append(strip(cur.body))
            if len(cur.orelse) == 1 and isinstance(cur.orelse[0], ast.If): cur = cur.orelse[0]
            else:
                if not cur.orelse: return []
                branches.append(strip(cur.orelse)); break
        firsts = []
        for b in branches:
            wa = self.work_arrays(b[0], env) if b else None
            if not wa or len(wa) != 1: return []
            firsts.append(wa[0])
        if len({(f[0], f[1]) for f in firsts}) != 1: return []
        return [firsts[0]]

    def wrap(self, lets, res):
        if not lets: return res
        return "(" + "; ".join(lets) + "; " + res + ")"

    def bind(self, tgt, val, env, lets, node):
        cx = self.cx

        def one(name, v):
            if v.ty in ("tuple", "rows"):
                env[name] = v; return
            ln = self.lname(name)
            lets.append(f"let {ln} := {v.lean}")
            env[name] = V(ln, v.ty, v.norm, rad=v.rad, items=v.items, length=v.length, elem=None)
        if isinstance(tgt, ast.Name): one(tgt.id, val)
        elif isinstance(tgt, ast.Tuple) and all(isinstance(e, ast.Name) for e in tgt.elts):
            for e, v in zip(tgt.elts, expand_vals(cx, val, len(tgt.elts), node, env)): one(e.id, v)
        else: cx.err("unsupported assignment target", node)

    def write(self, tgt, op, value, env, node):
        cx = self.cx
        if isinstance(tgt.value, ast.Name) and tgt.value.id in env and env[tgt.value.id].ty == "attr2":
            a = env[tgt.value.id]
            if op is not None or not isinstance(tgt.slice, ast.Tuple) or len(tgt.slice.elts) != 2: cx.err("a sparse matrix entry is not written as `mat[i, j] = v`", node)
            v = as_ty(cx, expr(cx, value, env), "rat", node)
            return f"let {a.lean} := wr2 {a.lean} {nat_expr(cx, tgt.slice.elts[0], env)} {nat_expr(cx, tgt.slice.elts[1], env)} {v.lean}"
        if not isinstance(tgt.value, ast.Name) or tgt.value.id not in env or not env[tgt.value.id].ty.startswith("attr:"):
            cx.err("write through something that is not an attribute / work array of this function", node)
        a = env[tgt.value.id]
        ety = a.ty[5:]
        idx = nat_expr(cx, tgt.slice, env)
        if ety == "defect":
            if op is None:
                if isinstance(value, ast.IfExp):
                    c = cond(cx, value.test, env)
                    return f"let {a.lean} := wr {a.lean} {idx} (if {c} then ({_pi_mult(cx, value.body)}, []) else ({_pi_mult(cx, value.orelse)}, []))"
                return f"let {a.lean} := wr {a.lean} {idx} ({_pi_mult(cx, value)}, [])"
            v = expr(cx, value, env)
            if isinstance(op, ast.Sub) and v.ty == "ref":
                return f"let {a.lean} := upd {a.lean} {idx} (fun d => (d.1, d.2 ++ [{v.lean}]))"
            cx.err("unsupported update of an angle defect", node)
        if ety == "reflist":
            v = expr_ref(cx, value, env)
            if isinstance(op, ast.Add) and v.ty == "halfref":
                return f"let {a.lean} := upd {a.lean} {idx} (fun l => l ++ [{v.lean}])"
            cx.err("unsupported update of a cotangent weight (expected `+= cot[c]/2`)", node)
        v0 = expr(cx, value, env)
        v = as_ty(cx, v0, ety, node)
        if v.norm and not (cx.cfg.get("unit_outputs") and op is None and v.norm == (v.lean,)):
            cx.err(f"a rescaled value is stored ({list(v.norm)})", node)
        if op is None:
            return f"let {a.lean} := wr {a.lean} {idx} {v.lean}"
        ops = {("rat", ast.Add): "t + {v}", ("rat", ast.Sub): "t - {v}", ("rat", ast.Div): "t / {v}", ("rat", ast.Mult): "t * {v}",
               ("nat", ast.Add): "t + {v}", ("root", ast.Add): "SSum.add t {v}", ("vec", ast.Add): "add t {v}"}
        key = (ety, type(op))
        if key not in ops: cx.err(f"unsupported accumulation on a {ety}", node)
        return f"let {a.lean} := upd {a.lean} {idx} (fun t => {ops[key].format(v=v.lean)})"

    def loop(self, st, env):
        cx = self.cx
        if st.orelse: cx.err("for/else", st)
        it = ast.unparse(st.iter)
        S = self.state_of(st.body, env)
        if not S: cx.err("loop without effect on a container of this function", st)
        e2 = dict(env)
        pre = []
        sv = "s" if len(S) > 1 else env[S[0]].lean
        head_lets = self.unpack(S, "s", env)

        def bindvar(t, v):
            self.bind(t, v, e2, pre, st)
        if it in IDS or (isinstance(st.iter, ast.Call) and ast.unparse(st.iter.func) == "range" and len(st.iter.args) == 1):
            n = IDS[it] if it in IDS else nat_expr(cx, st.iter.args[0], env)
            if not isinstance(st.target, ast.Name): cx.err("range loop with a pattern", st)
            iv = self.lname(st.target.id); e2[st.target.id] = V(iv, "nat")
            body = self.block(st.body, e2, S)
            lam = f"fun {sv} {iv} => " + self.wrap(head_lets + pre, body)
            res = f"forRange ({n}) {self.pack(S, env)} ({lam})"
        elif isinstance(st.iter, ast.Call) and ast.unparse(st.iter.func) == "enumerate" and len(st.iter.args) == 1:
            src = ast.unparse(st.iter.args[0])
            if src not in LISTS: cx.err("enumerate over something that is not a mesh container", st)
            lst, ety = LISTS[src]
            if not (isinstance(st.target, ast.Tuple) and len(st.target.elts) == 2 and isinstance(st.target.elts[0], ast.Name)): cx.err("enumerate target", st)
            iv = self.lname(st.target.elts[0].id); e2[st.target.elts[0].id] = V(iv, "nat")
            pat = st.target.elts[1]
            ev = self.lname("elem@" + str(st.lineno) if not isinstance(pat, ast.Name) else pat.id)
            elem = V(ev, ety)
            if isinstance(pat, ast.Name): e2[pat.id] = elem
            else: bindvar(pat, elem)
            body = self.block(st.body, e2, S)
            lam = f"fun {sv} {iv} {ev} => " + self.wrap(head_lets + pre, body)
            res = f"forEnum {lst} {self.pack(S, env)} ({lam})"
        else:
            if it in LISTS: lst, ety = LISTS[it]
            elif it == "mesh.boundary_vertices": lst, ety = "(boundaryVertices faces vs.length)", "nat"
            elif isinstance(st.iter, ast.Call) and ast.unparse(st.iter.func) == "mesh.connectivity.edge_to_faces" and len(st.iter.args) == 2 and not st.iter.keywords:
                a_, b_ = nat_expr(cx, st.iter.args[0], env), nat_expr(cx, st.iter.args[1], env)
                lst, ety = f"[(directFace faces {a_} {b_}).map (·.1), (directFace faces {b_} {a_}).map (·.1)]", "optnat"
            else:
                v = expr(cx, st.iter, env)
                if v.ty not in ("face", "natlist"): cx.err(f"loop over a {v.ty}", st)
                lst, ety = v.lean, "nat"
            pat = st.target
            ev = self.lname("elem@" + str(st.lineno) if not isinstance(pat, ast.Name) else pat.id)
            elem = V(ev, ety)
            if isinstance(pat, ast.Name): e2[pat.id] = elem
            else: bindvar(pat, elem)
            body = self.block(st.body, e2, S)
            lam = f"fun {sv} {ev} => " + self.wrap(head_lets + pre, body)
            res = f"forEach {lst} {self.pack(S, env)} ({lam})"
        if len(S) == 1: return [f"let {env[S[0]].lean} := {res}"]
        return [f"let s := {res}"] + self.unpack(S, "s", env)


def expr_ref(cx, n, env):
    """`cot[c]` / `cot[c]/2` where cot is a reference attribute"""
    if isinstance(n, ast.BinOp) and isinstance(n.op, ast.Div) and _num(n.right) == 2:
        v = expr(cx, n.left, env)
        if v.ty == "ref": return V(v.lean, "halfref")
    return expr(cx, n, env)


def attr_function(fn, sigs, cfg):
    """whole attribute function -> Lean definition.  cfg: params (list of (python name|None, lean name, lean type, V type)), elem (element
    type of the output attribute), locals ({python name: type} for initialised accumulators), ret ('attr' | 'scalar:<ty>')"""
    cfg = dict(cfg); cfg.pop("_locals_left", None)
    F = Fn(fn, dict(sigs, **cfg.get("sigs", {})), cfg)
    cx = F.cx
    env = {}
    # the configured value parameters are bound BY POSITION to the function's parameters after `mesh` (names are free)
    actual = [a.arg for a in fn.args.args[1:] if a.arg not in ("name", "persistent", "dense")]
    conf = [(py, ln, lty, vty) for py, ln, lty, vty in cfg["params"] if py]
    if len(actual) != len(conf): cx.err(f"parameters {actual} where {[c[0] for c in conf]} are expected")
    for a_, (py, ln, lty, vty) in zip(actual, conf): env[a_] = V(ln, vty)
    for k_, (ln_, ty_) in cfg.get("keys", {}).items(): env[k_] = V(ln_, ty_)
    body = body_of(fn)
    lets = []
    ret = None
    out_var = None
    for k, st in enumerate(body):
        txt = ast.unparse(st)
        # guards that raise: preconditions of the function
        if isinstance(st, ast.If) and len(strip(st.body)) == 1 and isinstance(strip(st.body)[0], ast.Raise) and not st.orelse:
            F.requires.append(ast.unparse(st.test)); continue
        if txt.startswith("check_argument(") or txt == "weight = weight.lower()" or (isinstance(st, ast.Assign) and ast.unparse(st.value) == "len(mesh.vertices[0])"): continue
        if isinstance(st, ast.If) and not st.orelse and len(strip(st.body)) == 1 and isinstance(strip(st.body)[0], ast.Assign) \
                and isinstance(strip(st.body)[0].targets[0], ast.Name) and strip(st.body)[0].targets[0].id in env \
                and env[strip(st.body)[0].targets[0].id].ty == "optnat":
            nm = strip(st.body)[0].targets[0].id
            c = cond(cx, st.test, env)
            v = nat_expr(cx, strip(st.body)[0].value, env)
            ln = F.lname(nm)
            lets.append(f"let {ln} : Nat := if {c} then {v} else ({env[nm].lean}.getD 0)")
            env[nm] = V(ln, "nat"); continue
        h = header(cx, st, cfg.get("elem"))
        if h is not None:
            var, cont, pty, width, default = h
            ety = cfg["elem"]
            ln = F.lname(var)
            if ety == "defect": init = f"fun _ => ({default}, [])"
            else:
                if default != 0: cx.err(f"default value {default}*pi on a plain attribute", st)
                init = f"fun _ => {EZERO[ety]}"
            lets.append(f"let {ln} : Attr ({ETY[ety]}) := {init}")
            env[var] = V(ln, "attr:" + ety)
            F.headers.append((fn.name, cont, pty, str(width), default))
            out_var = var
            continue
        cs = cached_source(cx, st)
        if cs is not None:
            var, cont, key, fb = cs
            want = cfg.get("sources", {}).get(key)
            if want is None: cx.err(f"unexpected cached attribute source {cont}['{key}']", st)
            if (cont, key, fb) != want[:3]: cx.err(f"{var} is read from {cont}['{key}'] / {fb}, expected {want[:3]}", st)
            env[var] = V(want[3], want[4])
            F.sources.append((fn.name, var, cont, key, fb))
            continue
        if isinstance(st, ast.Return):
            if k != len(body) - 1: cx.err("return before the end", st)
            if cfg.get("ret") == "coo":
                c_ = st.value
                ok_ = isinstance(c_, ast.Call) and ast.unparse(c_.func) in ("sp.coo_matrix", "sp.csc_matrix", "sp.csr_matrix") and len(c_.args) == 1 \
                    and isinstance(c_.args[0], ast.Tuple) and len(c_.args[0].elts) == 2 and isinstance(c_.args[0].elts[1], ast.Tuple) and len(c_.args[0].elts[1].elts) == 2
                if not ok_: cx.err("the result is not sp.coo_matrix((vals, (rows, cols)), shape=..)", st)
                vv = expr(cx, c_.args[0].elts[0], env); rr = expr(cx, c_.args[0].elts[1].elts[0], env); cc = expr(cx, c_.args[0].elts[1].elts[1], env)
                if not (vv.ty == "attr:rat" and rr.ty == "attr:nat" and cc.ty == "attr:nat"): cx.err(f"unexpected coefficient / index arrays ({vv.ty}, {rr.ty}, {cc.ty})", st)
                if not (vv.length == rr.length == cc.length and vv.length is not None): cx.err(f"the three arrays have different sizes ({vv.length}, {rr.length}, {cc.length})", st)
                shp = [kw.value for kw in c_.keywords if kw.arg == "shape"]
                if len(shp) != 1 or not isinstance(shp[0], ast.Tuple) or len(shp[0].elts) != 2: cx.err("shape=(.., ..) missing", st)
                F.shape = (nat_expr(cx, shp[0].elts[0], env), nat_expr(cx, shp[0].elts[1], env))
                ret = V(f"(List.range ({vv.length})).map (fun k => ({rr.lean} k, {cc.lean} k, {vv.lean} k))", "trips"); continue
            if cfg.get("ret") == "lil":
                c_ = st.value
                if not (isinstance(c_, ast.Call) and isinstance(c_.func, ast.Attribute) and c_.func.attr in ("tocsc", "tocsr", "tocoo") and not c_.args
                        and isinstance(c_.func.value, ast.Name) and c_.func.value.id in env and env[c_.func.value.id].ty == "attr2"):
                    cx.err("the result is not <lil matrix>.tocsc()", st)
                ret = env[c_.func.value.id]; continue
            ret = expr(cx, st.value, env); continue
        if isinstance(st, ast.Assign) and len(st.targets) == 1 and isinstance(st.targets[0], ast.Name):
            n = st.targets[0].id
            t = ast.unparse(st.value)
            pending = cfg.setdefault("_locals_left", list(cfg.get("locals", [])))
            if pending and t.replace(" ", "") in pending[0][1]:
                ty, init = pending.pop(0)
                ln = F.lname(n)
                if ty.startswith("attr:"):
                    lets.append(f"let {ln} : Attr ({ETY[ty[5:]]}) := fun _ => {'1' if 'ones' in t else EZERO[ty[5:]]}")
                else:
                    lets.append(f"let {ln} : {LTY[ty]} := {ZERO[ty]}")
                env[n] = V(ln, ty); continue
        wa = F.work_arrays(st, env)
        if wa is not None:
            for name, ety, init, size in wa:
                ln = F.lname(name)
                lets.append(f"let {ln} : Attr ({ETY[ety]}) := fun _ => {init}")
                env[name] = V(ln, "attr:" + ety, length=size)
            continue
        lm = F.lil_matrix(st, env)
        if lm is not None:
            ln = F.lname(lm[0])
            lets.append(f"let {ln} : Attr2 Rat := fun _ _ => 0")
            env[lm[0]] = V(ln, "attr2"); F.shape = (lm[1], lm[2]); continue
        S = F.state_of([st], env)
        if isinstance(st, (ast.For, ast.If, ast.Expr)) or (isinstance(st, ast.AugAssign)) or isinstance(st, ast.Assign):
            term = F.block([st], env, S if S else [])
            # the block returns `(lets; state)`: splice its lets
            if not term.startswith("("): cx.err("statement without effect", st)
            inner = term[1:-1]
            cut = inner.rfind("; ")
            lets.append(inner[:cut]); continue
        cx.err("unsupported top-level statement", st)
    if ret is None: cx.err("no return")
    kind = cfg.get("ret", "attr")
    if kind == "coo":
        rty = "List (Nat × Nat × Rat)"
    elif kind == "lil":
        rty = "Attr2 Rat"
    elif kind == "attr":
        if not ret.ty.startswith("attr:"): cx.err(f"returns a {ret.ty}, not the attribute")
        rty = f"Attr ({ETY[ret.ty[5:]]})"
    else:
        ret = as_ty(cx, ret, kind.split(":")[1])
        if ret.norm: cx.err("the result carries rescalings")
        rty = LTY[ret.ty]
    params = " ".join(f"({ln} : {lty})" for _, ln, lty, _ in cfg["params"])
    doc = f"/-- `{cfg['file']}: {fn.name}`" + (f"; preconditions (raise otherwise): {'; '.join(F.requires)}" if F.requires else "") + " -/\n"
    text = doc + f"def {cfg.get('lean', fn.name)} {params} : {rty} :=\n  " + "\n  ".join(lets + [ret.lean]) + "\n"
    return text, F


# ------------------------------------------------------------------------------------------------------------------
# the whitelist
# ------------------------------------------------------------------------------------------------------------------
P_VS = (None, "vs", "List V3", "x")
P_F = (None, "faces", "List Face", "x")
P_E = (None, "edges", "List (Nat × Nat)", "x")
P_C = (None, "cells", "List Face", "x")
AF = "mouette/attributes/"

PRIMS = [  # (python name, arg types, return type, selector)
    ("cross", ["vec", "vec"], "vec", None),
    ("norm", ["vec"], "root", select_norm_l2),
    ("distance", ["vec", "vec"], "root", select_distance),
    ("det_3x3", ["vec", "vec", "vec"], "rat", select_det3),
    ("triangle_area", ["vec"] * 3, "root", None),
    ("quad_area", ["vec"] * 4, "root", None),
    ("angle_3pts", ["vec"] * 3, "cs", None),
    ("cotan", ["vec"] * 3, "cs", None),
]

ATTRS = [
    dict(file=AF + "attr_faces.py", name="face_area", params=[P_VS, P_F], elem="root"),
    dict(file=AF + "attr_faces.py", name="face_normals", params=[P_VS, P_F], elem="vec", unit_outputs=True),
    dict(file=AF + "attr_faces.py", name="face_barycenter", params=[P_VS, P_F], elem="vec"),
    dict(file=AF + "attr_edges.py", name="edge_length", params=[P_VS, P_E], elem="root"),
    dict(file=AF + "attr_edges.py", name="edge_middle_point", params=[P_VS, P_E], elem="vec", skip_first=True),
    dict(file=AF + "attr_corners.py", name="corner_angles", params=[P_VS, P_F], elem="cs", locals=[("nat", ("0",))]),
    dict(file=AF + "attr_cells.py", name="cell_volume", params=[P_VS, P_C], elem="rat"),
    dict(file=AF + "attr_cells.py", name="cell_barycenter", params=[P_VS, P_C], elem="vec"),
    dict(file=AF + "attr_vertices.py", name="degree", params=[P_E], elem="nat"),
    dict(file=AF + "attr_faces.py", name="face_circumcenter", params=[P_VS, P_F], elem="vec"),
    dict(file=AF + "glob.py", name="euler_characteristic", params=[P_VS, P_F, P_E], ret="scalar:int", int_lens=True),
    dict(file=AF + "glob.py", name="barycenter", params=[P_VS], ret="scalar:vec"),
    dict(file=AF + "glob.py", name="total_area", params=[P_F, (None, "farea", "Attr Rat", "attr:rat")], ret="scalar:rat",
         sources={"area": ("faces", "area", "face_area", "farea", "attr:rat")}),
    dict(file=AF + "glob.py", name="mean_face_area", params=[P_F, (None, "farea", "Attr Rat", "attr:rat"), ("n", "n", "Option Nat", "optnat")],
         ret="scalar:rat", sources={"area": ("faces", "area", "face_area", "farea", "attr:rat")}, locals=[("rat", ("0",))]),
    dict(file=AF + "glob.py", name="mean_cell_volume", params=[P_C, (None, "cvol", "Attr Rat", "attr:rat"), ("n", "n", "Option Nat", "optnat")],
         ret="scalar:rat", sources={"volume": ("cells", "volume", "cell_volume", "cvol", "attr:rat")}, locals=[("rat", ("0",))]),
    dict(file=AF + "glob.py", name="mean_edge_length", params=[P_VS, P_E, ("n", "n", "Option Nat", "optnat")],
         ret="scalar:root", locals=[("root", ("0",))]),
]
IF = AF + "interpolate.py"
_SRC = {"area": ("faces", "area", "face_area", "area", "attr:rat"), "angles": ("face_corners", "angles", "corner_angles", "angles", "attr:rat")}
P_W = ("weight", "weight", "String", "mode")
P_AREA = (None, "area", "Attr Rat", "x")
P_ANG = (None, "angles", "Attr Rat", "x")
ATTRS += [
    dict(file=IF, name="interpolate_vertices_to_faces", params=[P_F, ("vattr", "vattr", "Attr Rat", "attr:rat"), ("fattr", "fattr", "Attr Rat", "attr:rat")]),
    dict(file=IF, name="interpolate_faces_to_vertices", params=[P_VS, P_F, P_AREA, P_ANG, ("fattr", "fattr", "Attr Rat", "attr:rat"), ("vattr", "vattr", "Attr Rat", "attr:rat"), P_W],
         sources=_SRC),
    dict(file=IF, name="scatter_vertices_to_corners", params=[P_F, ("vattr", "vattr", "Attr Rat", "attr:rat"), ("cattr", "cattr", "Attr Rat", "attr:rat")]),
    dict(file=IF, name="scatter_faces_to_corners", params=[P_F, ("fattr", "fattr", "Attr Rat", "attr:rat"), ("cattr", "cattr", "Attr Rat", "attr:rat")]),
    dict(file=IF, name="average_corners_to_vertices", params=[P_VS, P_F, P_ANG, ("cattr", "cattr", "Attr Rat", "attr:rat"), ("vattr", "vattr", "Attr Rat", "attr:rat"), P_W],
         sources=_SRC),
    dict(file=IF, name="average_corners_to_faces", params=[P_F, P_ANG, ("cattr", "cattr", "Attr Rat", "attr:rat"), ("fattr", "fattr", "Attr Rat", "attr:rat"), P_W],
         sources=_SRC),
]
ATTRS += [
    dict(file=AF + "attr_corners.py", name="cotangent", elem="cs",
         params=[P_VS, P_F, (None, "has_angles", "Bool", "x"), (None, "angles", "Attr (Rat × Rat)", "x")],
         keys={"has:face_corners:angles": ("has_angles", "bool"), "get:face_corners:angles": ("angles", "attr:cs")}),
]
ATTRS += [
    dict(file=AF + "attr_edges.py", name="cotan_weights", elem="reflist", params=[P_F, P_E],
         sources={"cotan": ("face_corners", "cotan", "cotangent", "cot", "attr:ref")}),
    dict(file=AF + "attr_vertices.py", name="angle_defects", elem="defect",
         params=[P_VS, P_F, ("zero_border", "zero_border", "Bool", "bool")],
         sources={"angles": ("face_corners", "angles", "corner_angles", "ang", "attr:ref")}),
]
MODELLED_PRIMS = {"circumcenter": ("circumcenter", ["vec"] * 3, "vec")}


def vertex_normals_function(fn):
    """`attr_vertices.vertex_normals`, whole body, statement by statement (every other shape raises):
       raise-guard on `interpolation`; the three sources of the face normals (custom_fnormals / cached faces['normals'] / face_normals(mesh));
       the output header (vertices, float, 3, default 0); ONE call `interpolate_faces_to_vertices(mesh, fnormals, normals, weight=interpolation)`
       (the translated function, applied componentwise); the final loop `normals[v] = Vec.normalized(normals[v])` (a positive rescaling: the
       DIRECTION is kept); `return normals`."""
    cx = Ctx(fn.name, {}, {})
    body = body_of(fn)
    pn = [a.arg for a in fn.args.args]
    if len(pn) != 6: cx.err(f"parameters {pn}")
    p_mesh, p_name, p_pers, p_interp, p_dense, p_custom = pn
    if len(body) != 6: cx.err(f"{len(body)} top-level statements where 6 are expected (guard, face-normal sources, header, interpolation call, normalisation loop, return)")
    g, src, hd, callst, loop, ret = body
    # 1. guard
    if not (isinstance(g, ast.If) and len(strip(g.body)) == 1 and isinstance(strip(g.body)[0], ast.Raise) and not g.orelse and isinstance(g.test, ast.Compare)
            and len(g.test.ops) == 1 and isinstance(g.test.ops[0], ast.NotIn) and ast.unparse(g.test.left) == p_interp
            and isinstance(g.test.comparators[0], (ast.Set, ast.Tuple, ast.List))
            and sorted(ast.literal_eval(g.test.comparators[0])) == ["angle", "area", "uniform"]):
        cx.err("first statement is not the guard `if interpolation not in {'uniform','area','angle'}: raise`", g)
    # 2. sources of the face normals
    ok = isinstance(src, ast.If) and ast.unparse(src.test) == f"{p_custom} is not None" and len(strip(src.body)) == 1 and len(src.orelse) == 1 \
        and isinstance(src.orelse[0], ast.If) and ast.unparse(src.orelse[0].test) == "mesh.faces.has_attribute('normals')" \
        and len(strip(src.orelse[0].body)) == 1 and len(strip(src.orelse[0].orelse)) == 1
    if not ok: cx.err("the face normals are not chosen by `if custom_fnormals is not None / elif mesh.faces.has_attribute('normals') / else`", src)
    a1, a2, a3 = strip(src.body)[0], strip(src.orelse[0].body)[0], strip(src.orelse[0].orelse)[0]
    if not all(isinstance(a, ast.Assign) and isinstance(a.targets[0], ast.Name) for a in (a1, a2, a3)) or len({a.targets[0].id for a in (a1, a2, a3)}) != 1:
        cx.err("the three branches do not bind the same name", src)
    fvar = a1.targets[0].id
    if ast.unparse(a1.value) != p_custom: cx.err("first source is not custom_fnormals", a1)
    if ast.unparse(a2.value) != "mesh.faces.get_attribute('normals')": cx.err("second source is not the cached faces['normals']", a2)
    if ast.unparse(a3.value).replace(" ", "") != f"face_normals(mesh,persistent={p_pers})": cx.err("third source is not face_normals(mesh, persistent=persistent)", a3)
    # 3. header
    h = header(cx, hd, "vec")
    if h is None: cx.err("the output attribute is not created by the persistent/dense header", hd)
    ovar, cont, pty, width, default = h
    if (cont, pty, str(width), default) != ("vertices", "float", "3", 0): cx.err(f"output attribute is {cont}/{pty}/{width}/default {default}", hd)
    # 4. the interpolation call
    want = f"{ovar} = interpolate_faces_to_vertices(mesh, {fvar}, {ovar}, weight={p_interp})"
    if ast.unparse(callst) != want: cx.err(f"not `{want}`", callst)
    # 5. normalisation loop
    ok = isinstance(loop, ast.For) and ast.unparse(loop.iter) == "mesh.id_vertices" and isinstance(loop.target, ast.Name) and len(strip(loop.body)) == 1
    if ok:
        v_ = loop.target.id
        ok = ast.unparse(strip(loop.body)[0]) == f"{ovar}[{v_}] = Vec.normalized({ovar}[{v_}])"
    if not ok: cx.err("the last loop is not `for v in mesh.id_vertices: normals[v] = Vec.normalized(normals[v])`", loop)
    if not (isinstance(ret, ast.Return) and ast.unparse(ret.value) == ovar): cx.err("does not return the output attribute", ret)
    text = ("/-- `mouette/attributes/attr_vertices.py: vertex_normals` (DIRECTION of the result: the final `Vec.normalized` is a positive rescaling); `fnormals` is\n"
            "whichever of custom_fnormals / cached faces['normals'] / face_normals(mesh) the source selects (in that order) -/\n"
            "def vertex_normals (vs : List V3) (faces : List Face) (area : Attr Rat) (angles : Attr Rat) (fnormals : Attr V3) (interpolation : String) : Attr (V3) :=\n"
            "  let x1 : Attr (V3) := fun _ => V3.zero\n"
            "  let x1 := liftV3 (fun fa va => interpolate_faces_to_vertices vs faces area angles fa va interpolation) fnormals x1\n"
            "  let x1 := forRange (vs.length) x1 (fun x1 x2 => (let x1 := wr x1 x2 (x1 x2); x1))\n"
            "  x1\n"
            "/-- the sources of the face normals, in the order the source tests them -/\n"
            'def vertexNormalsSources : List String := ["custom_fnormals", "faces[normals]", "face_normals(mesh, persistent)"]\n')
    return text, ("vertex_normals", cont, pty, str(width), default)


def translate_c07():
    """-> (lean text of Generated/C07Src.lean, sites, info)"""
    sites = []
    chunks = []
    sigs = {}
    info = {"translated": [], "headers": [], "sources": []}
    gtree, _ = T.load(GEOM)
    for name, atys, rty, sel in PRIMS:
        def run(name=name, atys=atys, rty=rty, sel=sel):
            txt, sig = primitive(T.find_def(gtree, name), sigs, atys, rty, select=sel)
            sigs[name] = sig
            chunks.append(f"/-- `geometry.py: {name}` -/\n" + txt + "\n")
            info["translated"].append(f"{GEOM}::{name}")
            return f"{len(txt.splitlines()) - 1} line(s)"
        sites.append(T.site(f"geometry.py:{name} (body)", run))
    trees = {}
    sigs.update(MODELLED_PRIMS)
    for cfg in ATTRS:
        def run(cfg=cfg):
            if cfg["file"] not in trees: trees[cfg["file"]] = T.load(cfg["file"])[0]
            fn = T.find_def(trees[cfg["file"]], cfg["name"])
            txt, F = attr_function(fn, sigs, cfg)
            chunks.append(txt + "\n")
            info["translated"].append(f"{cfg['file']}::{cfg['name']}")
            info["headers"] += F.headers; info["sources"] += F.sources
            return f"{txt.count('for')} loop(s), {txt.count('wr ') + txt.count('upd ')} write(s)"
        sites.append(T.site(f"{cfg['file'].split('/')[-1]}:{cfg['name']} (body)", run))
    def run_vn():
        f_ = AF + "attr_vertices.py"
        if f_ not in trees: trees[f_] = T.load(f_)[0]
        txt, hrow = vertex_normals_function(T.find_def(trees[f_], "vertex_normals"))
        if not any(t.endswith("::interpolate_faces_to_vertices") for t in info["translated"]):
            raise TranslateError("vertex_normals: interpolate_faces_to_vertices is not translated")
        chunks.append(txt + "\n"); info["translated"].append(f_ + "::vertex_normals"); info["headers"].append(hrow)
        return "guard, 3 sources, header, 1 call of the translated interpolation, normalisation loop"
    sites.append(T.site("attr_vertices.py:vertex_normals (body)", run_vn))
    hdr = ("/-- the attribute headers (`persistent` / `dense` switch): (function, container, element type, width, default as a multiple of pi);\n"
           "the translator has checked that the three constructions of each function agree on all four -/\n"
           "def headers : List (String × String × String × String × Nat) := [" +
           ", ".join(f'("{a}", "{b}", "{c}", "{d}", {e})' for a, b, c, d, e in info["headers"]) + "]\n\n")
    text = ("import Mouette.Model.GeomSource\nset_option linter.unusedVariables false\nnamespace Mouette.Generated.C07Src\nopen Mouette.Geom Mouette.GeomSrc\n\n" + "".join(chunks) + hdr +
            "end Mouette.Generated.C07Src\n")
    return text, sites, info


# ------------------------------------------------------------------------------------------------------------------
# C08: assembly loops of operators/mass.py and operators/adjacency.py
# ------------------------------------------------------------------------------------------------------------------
OF = "mouette/operators/"


def mass_tail(cx, stmts, var):
    """the statements after the assembly loop of a lumped mass matrix: `if sqrt: A = np.sqrt(A)`, `if inverse: A = 1/A`,
    `return sp.diags(A, format=format)` -> the list of steps in source order"""
    steps = []
    for st in stmts:
        t = ast.unparse(st).replace(" ", "")
        if t == f"ifsqrt:\n{var}=np.sqrt({var})".replace(" ", "") or t.replace("\n", "") == f"ifsqrt:{var}=np.sqrt({var})": steps.append("sqrt")
        elif t.replace("\n", "") == f"ifinverse:{var}=1/{var}": steps.append("inverse")
        elif t in (f"returnsp.diags({var},format=format)", f"returnsp.diags({var},format='csc')"): steps.append("diags")
        else: cx.err("unrecognised statement after the assembly loop", st)
    return steps


def mass_function(fn, cfg):
    """`A = np.zeros(len(mesh.<C>))`, cached source, the nested accumulation loop; then the elementwise tail"""
    F = Fn(fn, {}, cfg)
    cx = F.cx
    env = {}
    for py, ln, lty, vty in cfg["params"]:
        if py: env[py] = V(ln, vty)
    body = body_of(fn)
    lets = []
    acc = None
    k = 0
    while k < len(body):
        st = body[k]
        cs = cached_source(cx, st)
        if cs is not None:
            var, cont, key, fb = cs
            want = cfg["sources"].get(key)
            if want is None or (cont, key, fb) != want[:3]: cx.err(f"unexpected cached attribute source {var}: {cont}['{key}'] / {fb}", st)
            env[var] = V(want[3], want[4]); k += 1; continue
        if isinstance(st, ast.Assign) and isinstance(st.targets[0], ast.Name) and ast.unparse(st.value).replace(" ", "") == f"np.zeros(len(mesh.{cfg['size']}))":
            acc = st.targets[0].id
            ln = F.lname(acc)
            lets.append(f"let {ln} : Attr (Rat) := fun _ => 0")
            env[acc] = V(ln, "attr:rat"); k += 1; continue
        if isinstance(st, ast.For):
            if acc is None: cx.err("assembly loop before the accumulator is created", st)
            lets += F.loop(st, env); k += 1
            break
        if cfg.get("diag") and isinstance(st, ast.Assign) and isinstance(st.targets[0], ast.Name):
            import re as _re
            m_ = _re.fullmatch(r"np\.atleast_1d\((\w+)\.as_array\(len\(mesh\.%s\)\)\)" % cfg["size"], ast.unparse(st.value).replace(" ", ""))
            if m_ and m_.group(1) in env and env[m_.group(1)].ty == "attr:rat":
                acc = st.targets[0].id; env[acc] = env[m_.group(1)]; k += 1
                break
        cx.err("unsupported statement before the assembly loop", st)
    if acc is None: cx.err("no accumulator np.zeros(len(mesh.<container>))")
    steps = mass_tail(cx, body[k:], acc)
    params = " ".join(f"({ln} : {lty})" for _, ln, lty, _ in cfg["params"])
    if cfg.get("diag"):
        text = (f"/-- `{cfg['file']}: {fn.name}`: the diagonal `<attr>.as_array(len(mesh.{cfg['size']}))` before the elementwise tail {steps} -/\n"
                f"def {fn.name} {params} : List Rat :=\n  tab {env[acc].lean} {CONTAINERS[cfg['size']]}\n")
        return text, steps
    text = (f"/-- `{cfg['file']}: {fn.name}`: the lumped masses before the elementwise tail {steps} -/\n"
            f"def {fn.name} {params} : Attr (Rat) :=\n  " + "\n  ".join(lets + [env[acc].lean]) + "\n")
    return text, steps


MASS = [
    dict(file=OF + "mass.py", name="area_weight_matrix", size="vertices",
         params=[P_F, ("area", "area", "Attr Rat", "attr:rat")], sources={"area": ("faces", "area", "face_area", "area", "attr:rat")}),
    dict(file=OF + "mass.py", name="volume_weight_matrix", size="vertices",
         params=[P_C, ("volume", "volume", "Attr Rat", "attr:rat")], sources={"volume": ("cells", "volume", "cell_volume", "volume", "attr:rat")}),
    dict(file=OF + "mass.py", name="area_weight_matrix_faces", size="faces", diag=True,
         params=[P_F, ("area", "area", "Attr Rat", "attr:rat")], sources={"area": ("faces", "area", "face_area", "area", "attr:rat")}),
    dict(file=OF + "mass.py", name="volume_weight_matrix_cells", size="cells", diag=True,
         params=[P_C, ("volume", "volume", "Attr Rat", "attr:rat")], sources={"volume": ("cells", "volume", "cell_volume", "volume", "attr:rat")}),
    dict(file=OF + "mass.py", name="area_weight_matrix_edges", size="edges",
         params=[P_F, P_E, ("area", "area", "Attr Rat", "attr:rat")], sources={"area": ("faces", "area", "face_area", "area", "attr:rat")}),
]


COO = [
    dict(file=OF + "adjacency.py", name="adjacency_matrix", ret="coo", index_arrays="nat", mode_dict="wdict",
         sigs={"distance": ("elen", ["vec", "vec"], "rat")},
         params=[P_VS, P_E, (None, "elen", "V3 → V3 → Rat", "x"), (None, "wdict", "Attr Rat", "x"), ("weights", "weights", "String", "mode")]),
    dict(file=OF + "adjacency.py", name="vertex_to_edge_operator", ret="lil", params=[P_VS, P_E, ("oriented", "oriented", "Bool", "bool")]),
    dict(file=OF + "adjacency.py", name="vertex_to_face_operator", ret="lil", params=[P_VS, P_F]),
]


def translate_c08():
    sites, chunks, tails = [], [], []
    info = {"translated": []}
    trees = {}
    for cfg in COO:
        def run(cfg=cfg):
            if cfg["file"] not in trees: trees[cfg["file"]] = T.load(cfg["file"])[0]
            txt, F = attr_function(T.find_def(trees[cfg["file"]], cfg["name"]), {}, cfg)
            chunks.append(txt + "\n")
            info["translated"].append(f"{cfg['file']}::{cfg['name']}")
            return f"{txt.count('for')} loop(s), {txt.count('wr ')} write(s), shape {getattr(F, 'shape', None)}"
        sites.append(T.site(f"{cfg['file'].split('/')[-1]}:{cfg['name']} (body)", run))
    for cfg in MASS:
        def run(cfg=cfg):
            if cfg["file"] not in trees: trees[cfg["file"]] = T.load(cfg["file"])[0]
            txt, steps = mass_function(T.find_def(trees[cfg["file"]], cfg["name"]), cfg)
            chunks.append(txt + "\n"); tails.append((cfg["name"], steps))
            info["translated"].append(f"{cfg['file']}::{cfg['name']}")
            return f"tail {steps}"
        sites.append(T.site(f"{cfg['file'].split('/')[-1]}:{cfg['name']} (body)", run))
    tl = ("/-- the elementwise steps applied to the lumped masses, in source order (the inverse is taken AFTER the square root) -/\n"
          "def massTails : List (String × List String) := [" +
          ", ".join('("%s", [%s])' % (n, ", ".join('"%s"' % s for s in st)) for n, st in tails) + "]\n\n")
    text = ("import Mouette.Model.GeomSource\nset_option linter.unusedVariables false\nnamespace Mouette.Generated.C08Src\nopen Mouette.Geom Mouette.GeomSrc\n\n" + "".join(chunks) + tl +
            "end Mouette.Generated.C08Src\n")
    return text, sites, info
