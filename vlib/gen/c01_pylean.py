"""Python `ast` -> Lean, imperatively, for the C01 / C15 source functions (used by vlib/props/c01.py and c15.py).

A function body is read statement by statement and compiled to core-Lean definitions, re-extracted from $MOUETTE_REPO on
every run:

  locals                    Lean `let` shadowing (locals and parameters are alpha-renamed to v0, v1, … / p0, p1, … in order of
                            first occurrence, so renaming a local does not change the generated text)
  `for x in E: body`        `<fn>_for<k>_step ctx frees (st : σ) (x : τ) : σ`  +  `<fn>_for<k> := E.foldl step`;
                            σ = the tuple of the locals assigned in the body that exist before the loop (loop-carried)
      … with `break`        σ gets a leading `Bool` (set by `break`; once set the remaining iterations are skipped)
      … with `continue`     the step returns the state unchanged at that point
      … raising body        step : σ → τ → Option σ, loop = `List.foldlM` in `Option` (`none` = the exception)
  `while c: body`           `<fn>_while<k>_cond`, `_body`, and `_loop : Nat → σ → σ` on a fuel argument (fuel given by the
                            vocabulary, sufficiency is a theorem in Props/)
  `if c: …`                 `let (xs) := if c then (…; xs) else (…; xs)`; when a branch ends in return / raise / continue /
                            break the continuation goes to the other branch
  `if x is None: return …`  `match x with | none => … | some x => …` (x is narrowed from `Option τ` to τ afterwards)
  `return e` / `raise`      `some e` / `none` in a raising function, `e` otherwise
  expressions               names, int / float (exact rational) / bool / None literals, `== != < <= is None is not None`, and / or /
                            not, `+ - * / %` (`(a - k) % n` is emitted as `(a + n - k) % n`: Python's `%` is non-negative),
                            tuples, list literals, `a if c else b`, `[e for x in L (if c)]`, `len(L)`; everything that touches the
                            mesh API or a container goes through the VOCABULARY of the function (pattern -> Lean term + type),
                            which is the trusted part of the translation (listed in the property module's TRUSTED)

Normalised away before compiling (so these respellings give the same Lean text): renamed locals / parameters, `not a == b`,
`a > b` / `a >= b`, operand order of `==` / `!=` between call-free operands, `x = x + e` vs `x += e`, annotations, docstrings,
`pass`, and the statements matched by the vocabulary's `drop` patterns (log calls).
Anything else raises TranslateError -> broken obligation -> failing-input search.
"""
import ast, copy
from fractions import Fraction

from ..translate import TranslateError


# ----------------------------------------------------------------------------------------------------------------------
# normalisation
# ----------------------------------------------------------------------------------------------------------------------
def _callfree(n):
    return not any(isinstance(x, ast.Call) for x in ast.walk(n))


class Norm(ast.NodeTransformer):
    def visit_UnaryOp(self, n):
        self.generic_visit(n)
        if isinstance(n.op, ast.Not) and isinstance(n.operand, ast.Compare) and len(n.operand.ops) == 1:
            c = n.operand
            flip = {ast.Eq: ast.NotEq, ast.NotEq: ast.Eq, ast.In: ast.NotIn, ast.NotIn: ast.In, ast.Is: ast.IsNot, ast.IsNot: ast.Is}
            if type(c.ops[0]) in flip:
                return ast.copy_location(ast.Compare(c.left, [flip[type(c.ops[0])]()], c.comparators), n)
        return n

    def visit_Compare(self, n):
        self.generic_visit(n)
        if len(n.ops) == 1:
            op, a, b = n.ops[0], n.left, n.comparators[0]
            if isinstance(op, (ast.Gt, ast.GtE)):   # (the expressions the compiler accepts have no side effects)
                return ast.copy_location(ast.Compare(b, [ast.Lt() if isinstance(op, ast.Gt) else ast.LtE()], [a]), n)
            if isinstance(op, (ast.Eq, ast.NotEq)) and ast.unparse(a) > ast.unparse(b):
                return ast.copy_location(ast.Compare(b, [op], [a]), n)
        return n

    def visit_Assign(self, n):
        self.generic_visit(n)
        if len(n.targets) == 1 and isinstance(n.value, ast.BinOp) and isinstance(n.value.op, (ast.Add, ast.Sub)):
            t, v = n.targets[0], n.value
            if isinstance(t, (ast.Name, ast.Attribute, ast.Subscript)):
                if ast.unparse(v.left) == ast.unparse(t):
                    return ast.copy_location(ast.AugAssign(t, v.op, v.right), n)
                if isinstance(v.op, ast.Add) and ast.unparse(v.right) == ast.unparse(t) and _callfree(v.left):
                    return ast.copy_location(ast.AugAssign(t, v.op, v.left), n)
        return n

    def visit_AnnAssign(self, n):
        self.generic_visit(n)
        if n.value is None: return None
        return ast.copy_location(ast.Assign([n.target], n.value), n)


class _Rename(ast.NodeTransformer):
    def __init__(self, mp): self.mp = mp

    def visit_Name(self, n):
        if n.id in self.mp: return ast.copy_location(ast.Name(self.mp[n.id], n.ctx), n)
        return n

    def visit_arg(self, n):
        if n.arg in self.mp: n.arg = self.mp[n.arg]
        return n


def _ordered_names(fn):
    """names bound in the function (parameters, assignment / loop / comprehension targets), in source order"""
    out = []

    def add(x):
        if x not in out: out.append(x)

    def targets(t):
        if isinstance(t, ast.Name): add(t.id)
        elif isinstance(t, (ast.Tuple, ast.List)):
            for e in t.elts: targets(e)
        elif isinstance(t, ast.Starred): targets(t.value)

    def visit(n):
        if isinstance(n, ast.Assign):
            visit(n.value)
            for t in n.targets: targets(t)
            return
        if isinstance(n, ast.AugAssign):
            visit(n.value); targets(n.target); return
        if isinstance(n, ast.For):
            visit(n.iter); targets(n.target)
            for s in n.body + n.orelse: visit(s)
            return
        if isinstance(n, ast.Lambda):
            for a_ in n.args.args: add(a_.arg)
            visit(n.body); return
        if isinstance(n, (ast.ListComp, ast.GeneratorExp, ast.SetComp)):
            for g in n.generators:
                visit(g.iter); targets(g.target)
                for c in g.ifs: visit(c)
            visit(n.elt); return
        for ch in ast.iter_child_nodes(n): visit(ch)
    for s in fn.body: visit(s)
    return out


def normalise(fn, drop_first_params=0):
    """-> (normalised FunctionDef, [original parameter names], {original local name: canonical name})"""
    fn = copy.deepcopy(fn)
    a = fn.args
    if a.kwarg or a.kwonlyargs or a.posonlyargs: raise TranslateError(f"{fn.name}: unsupported signature")
    params = [x.arg for x in a.args] + ([a.vararg.arg] if a.vararg else [])
    mp = {p: f"p{i}" for i, p in enumerate(params)}
    k = 0
    for nm in _ordered_names(fn):
        if nm not in mp:
            mp[nm] = f"v{k}"; k += 1
    fn = _Rename(mp).visit(fn)
    fn = Norm().visit(fn)
    ast.fix_missing_locations(fn)
    return fn, params, mp


def strip(stmts):
    return [s for s in stmts if not (isinstance(s, ast.Pass) or (isinstance(s, ast.Expr) and isinstance(s.value, ast.Constant)))]


# ----------------------------------------------------------------------------------------------------------------------
# patterns with metavariables M_x
# ----------------------------------------------------------------------------------------------------------------------
def pmatch(p, n, b):
    if isinstance(p, ast.Name) and p.id.startswith("M_"):
        if p.id in b: return ast.unparse(b[p.id]) == ast.unparse(n)
        b[p.id] = n; return True
    if type(p) is not type(n): return False
    for f in p._fields:
        pv, nv = getattr(p, f, None), getattr(n, f, None)
        if isinstance(pv, list):
            if not isinstance(nv, list) or len(pv) != len(nv): return False
            for x, y in zip(pv, nv):
                if isinstance(x, ast.AST):
                    if not isinstance(y, ast.AST) or not pmatch(x, y, b): return False
                elif x != y: return False
        elif isinstance(pv, ast.AST):
            if not isinstance(nv, ast.AST) or not pmatch(pv, nv, b): return False
        elif pv != nv: return False
    return True


def _pat_expr(src, pmap):
    n = ast.parse(src, mode="eval").body
    return _Rename(pmap).visit(n)


def _pat_stmt(src, pmap):
    n = ast.parse(src).body[0]
    return _Rename(pmap).visit(n)


# ----------------------------------------------------------------------------------------------------------------------
# types (strings)
# ----------------------------------------------------------------------------------------------------------------------
def _split_top(t, sep):
    out, depth, cur = [], 0, ""
    i = 0
    while i < len(t):
        if t[i] == "(": depth += 1
        if t[i] == ")": depth -= 1
        if depth == 0 and t.startswith(sep, i):
            out.append(cur.strip()); cur = ""; i += len(sep); continue
        cur += t[i]; i += 1
    out.append(cur.strip())
    return out


def _unparen(t):
    t = t.strip()
    while t.startswith("(") and t.endswith(")"):
        depth = 0
        for i, ch in enumerate(t):
            if ch == "(": depth += 1
            if ch == ")":
                depth -= 1
                if depth == 0 and i < len(t) - 1: return t
        t = t[1:-1].strip()
    return t


def prod(ts): return ts[0] if len(ts) == 1 else "(" + " × ".join(ts) + ")"
def comps(t): return _split_top(_unparen(t), "×")


def arg_of(t, head):
    t = _unparen(t)
    if t.startswith(head + " "): return _unparen(t[len(head) + 1:])
    return None


def atom(t):
    t = t.strip()
    return t if (" " not in t or (t.startswith("(") and _unparen(t) != t)) else f"({t})"


def tup(xs): return xs[0] if len(xs) == 1 else "(" + ", ".join(xs) + ")"


def _natkey(x):
    import re
    return [int(t) if t.isdigit() else t for t in re.split(r"(\d+)", x)]


class Widen(Exception):
    """a loop-carried local of type τ is assigned an `Option τ` inside the loop: it is carried as `Option τ`"""
    def __init__(self, name): self.name = name


class Vocab:
    """vocabulary of one function: how the mesh API / containers it touches are rendered in Lean (the trusted part)"""

    def __init__(self, params, ptypes, ctx="", ctxargs="", exprs=(), stmts=(), drop=(), subs=None, methods=None, empties=(),
                 ret=None, raising=False, returns=(), fuel=None, opens="", fall=None, init_env=None, consts=None):
        self.params, self.ptypes, self.ctx, self.ctxargs = list(params), list(ptypes), ctx, ctxargs
        self.exprs, self.stmts, self.drop = list(exprs), list(stmts), list(drop)
        self.subs, self.methods, self.empties = subs or {}, methods or {}, list(empties)
        self.ret, self.raising, self.returns, self.fuel = ret, raising, list(returns), fuel
        self.fall, self.init_env = fall, dict(init_env or {})
        self.effects = []                    # (statement pattern source, [pseudo-locals it writes]) for statements handled by `stmts`
        self.iters = {}                      # type -> (lean template of the list iterated, element type): `for x in <local of that type>`
        self.consts = dict(consts or {})     # parameter (role name) -> Python bool: the function is specialised to that value


def _strip_calls(fn, names):
    """remove the expression statements `<name>(...)` (log calls) at any depth; an emptied block gets `pass`"""
    if not names: return fn
    fn = copy.deepcopy(fn)

    class R(ast.NodeTransformer):
        def generic_visit(self, n):
            super().generic_visit(n)
            for f in ("body", "orelse"):
                b = getattr(n, f, None)
                if isinstance(b, list) and b and isinstance(b[0], ast.stmt):
                    nb = [x for x in b if not (isinstance(x, ast.Expr) and isinstance(x.value, ast.Call) and ast.unparse(x.value.func) in names)]
                    if f == "body" and not nb: nb = [ast.Pass()]
                    setattr(n, f, nb)
            return n
    return ast.fix_missing_locations(R().visit(fn))


class Compiler:
    def __init__(self, lean_name, fn, vocab, doc=None):
        self.name, self.v = lean_name, vocab
        self.src_name = fn.name
        fn = _strip_calls(fn, getattr(vocab, "drop_calls", ()))
        self.fn, self.orig_params, self.renamed = normalise(fn)
        if len(self.orig_params) != len(vocab.params):
            raise TranslateError(f"{fn.name}: expected {len(vocab.params)} parameters ({vocab.params}), found {self.orig_params}")
        self.pmap = {p: f"p{i}" for i, p in enumerate(vocab.params)}
        self.cvals = {self.pmap[k]: bool(v) for k, v in (vocab.consts or {}).items()}
        self.exprs = [(_pat_expr(p, self.pmap), t, ty, (x[0] if x else False)) for (p, t, ty, *x) in vocab.exprs]
        self.stmts = [(_pat_stmt(p, self.pmap), h) for (p, h) in vocab.stmts]
        self.drop = [_pat_stmt(p, self.pmap) for p in vocab.drop]
        self.returns = [(_pat_expr(p, self.pmap), t) for (p, t) in vocab.returns]
        self.empties = list(vocab.empties)
        self.aux = []
        self.widened = set()
        # locals that are decremented / assigned a negative value are integers (a literal `0` assigned to them is an `Int`)
        self.int_names = {n.target.id for n in ast.walk(self.fn) if isinstance(n, ast.AugAssign) and isinstance(n.op, ast.Sub) and isinstance(n.target, ast.Name)}
        self.nloop = 0
        self.ntmp = 0
        self.doc = doc

    # -- helpers ---------------------------------------------------------------------------------------------------
    def err(self, msg): return TranslateError(f"{self.src_name}: {msg}")

    def tmp(self):
        self.ntmp += 1
        return f"t{self.ntmp}"

    def lname(self, x): return x.replace(".", "_")

    # -- expressions -----------------------------------------------------------------------------------------------
    def E(self, n, env, pre):
        """-> (lean text, type). `pre` collects (tmp, option-valued lean term): raising sub-expressions, bound in front of the
        statement (left to right)"""
        for pat, tmpl, ty, raising in self.exprs:
            b = {}
            if pmatch(pat, n, b):
                vals = {}
                for k, sub in b.items():
                    if isinstance(tmpl, str) and isinstance(ty, str) and ("{" + k[2:] + "}") not in tmpl + ty and ("{T_" + k[2:] + "}") not in tmpl + ty:
                        continue
                    vals[k[2:]], vals["T_" + k[2:]] = self.E(sub, env, pre)
                txt = tmpl.format(**vals) if isinstance(tmpl, str) else tmpl(self, vals, env)
                tyv = ty.format(**vals) if isinstance(ty, str) else ty(self, vals, env)
                if raising:
                    t = self.tmp(); pre.append((t, txt)); return t, tyv
                return txt, tyv
        if isinstance(n, ast.Constant):
            if isinstance(n.value, bool): return ("true" if n.value else "false"), "Bool"
            if isinstance(n.value, int): return (str(n.value), "Nat") if n.value >= 0 else (f"({n.value})", "Int")
            if isinstance(n.value, float):
                f = Fraction(repr(n.value))
                if f.denominator == 1: return f"({f.numerator} : Rat)", "Rat"
                return f"(({f.numerator} : Rat) / {f.denominator})", "Rat"
            if n.value is None: return "none", "Option ?"
            raise self.err(f"unsupported constant {n.value!r}")
        if isinstance(n, ast.Name):
            if n.id in env: return self.lname(n.id), env[n.id]
            raise self.err(f"unbound name {self.unren(n.id)}")
        if isinstance(n, ast.Attribute):
            full = ast.unparse(n)
            if full in env: return self.lname(full), env[full]
        if isinstance(n, ast.UnaryOp) and isinstance(n.op, ast.Not):
            e, t = self.E(n.operand, env, pre)
            if t != "Bool": raise self.err(f"`not` of a {t}: {ast.unparse(n)}")
            return f"(!{e})", "Bool"
        if isinstance(n, ast.UnaryOp) and isinstance(n.op, ast.USub):
            e, t = self.E(n.operand, env, pre)
            return f"(-{e})", ("Int" if t == "Nat" else t)
        if isinstance(n, ast.BoolOp):
            n0 = len(pre)
            parts = [self.E(v, env, pre) for v in n.values]
            if len(pre) != n0: raise self.err("raising expression inside a short-circuit operator")
            if any(t != "Bool" for _, t in parts): raise self.err(f"and/or of non-booleans: {ast.unparse(n)}")
            op = " && " if isinstance(n.op, ast.And) else " || "
            return "(" + op.join(e for e, _ in parts) + ")", "Bool"
        if isinstance(n, ast.BinOp) and isinstance(n.op, (ast.Add, ast.Sub, ast.Mult, ast.Mod, ast.Div)):
            if isinstance(n.op, ast.Mod) and isinstance(n.left, ast.BinOp) and isinstance(n.left.op, ast.Sub):
                a, ta = self.E(n.left.left, env, pre); k, tk = self.E(n.left.right, env, pre); m, tm = self.E(n.right, env, pre)
                if (ta, tk, tm) != ("Nat", "Nat", "Nat"): raise self.err(f"`(a - k) % n` on {ta},{tk},{tm}")
                return f"(({a} + {m} - {k}) % {m})", "Nat"
            a, ta = self.E(n.left, env, pre); b, tb = self.E(n.right, env, pre)
            if isinstance(n.op, ast.Add) and ta == tb and arg_of(ta, "List") is not None: return f"({a} ++ {b})", ta
            t = self.num_join(ta, tb, n)
            if isinstance(n.op, ast.Div):
                if t not in ("Nat", "Int", "Rat"): raise self.err(f"`/` on {ta},{tb}")
                t = "Rat"   # Python's `/` is true division
            if isinstance(n.op, ast.Sub) and t == "Nat": raise self.err(f"natural-number subtraction {ast.unparse(n)}")
            sym = {ast.Add: "+", ast.Sub: "-", ast.Mult: "*", ast.Mod: "%", ast.Div: "/"}[type(n.op)]
            ca, cb = self.cast(a, ta, t), self.cast(b, tb, t)
            if isinstance(n.op, (ast.Add, ast.Mult)) and t in ("Nat", "Int", "Rat"):
                ca, cb = sorted([ca, cb], key=lambda z: (z.strip("()").split(" ")[0].isdigit(), z))
            return f"({ca} {sym} {cb})", t
        if isinstance(n, ast.Compare) and len(n.ops) == 1:
            op, a, b = n.ops[0], n.left, n.comparators[0]
            if isinstance(op, (ast.Is, ast.IsNot)) and isinstance(b, ast.Constant) and b.value is None:
                e, t = self.E(a, env, pre)
                if arg_of(t, "Option") is None: raise self.err(f"`is None` test of a {t}: {ast.unparse(n)}")
                return f"{atom(e)}.{'isNone' if isinstance(op, ast.Is) else 'isSome'}", "Bool"
            ea, ta = self.E(a, env, pre); eb, tb = self.E(b, env, pre)
            if isinstance(op, (ast.Eq, ast.NotEq)):
                if arg_of(ta, "Option") == tb: eb = f"(some {eb})"
                elif arg_of(tb, "Option") == ta: ea = f"(some {ea})"
                elif ta != tb:
                    t = self.num_join(ta, tb, n); ea, eb = self.cast(ea, ta, t), self.cast(eb, tb, t)
                return f"({ea} {'==' if isinstance(op, ast.Eq) else '!='} {eb})", "Bool"
            if isinstance(op, (ast.Lt, ast.LtE)):
                t = self.num_join(ta, tb, n)
                return f"decide ({self.cast(ea, ta, t)} {'<' if isinstance(op, ast.Lt) else '≤'} {self.cast(eb, tb, t)})", "Bool"
            if isinstance(op, (ast.In, ast.NotIn)):
                el = arg_of(tb, "List")
                if el is None or el != ta: raise self.err(f"membership of a {ta} in a {tb}")
                r = f"({eb}.contains {ea})"
                return (r if isinstance(op, ast.In) else f"(!{r})"), "Bool"
            raise self.err(f"comparison operator {type(op).__name__}")
        if isinstance(n, ast.Tuple):
            parts = [self.E(e, env, pre) for e in n.elts]
            return tup([e for e, _ in parts]), prod([t for _, t in parts])
        if isinstance(n, ast.List):
            if not n.elts:
                if not self.empties: raise self.err("an empty list literal whose element type the vocabulary does not give")
                t = self.empties.pop(0)
                return f"([] : {t})", t
            parts = [self.E(e, env, pre) for e in n.elts]
            tys = {t for _, t in parts}
            if len(tys) > 1 and tys <= {"Nat", "Option ?", "Option Nat"}:
                parts = [((f"some {atom(e)}" if t == "Nat" else e), "Option Nat") for e, t in parts]
            if len({t for _, t in parts}) != 1: raise self.err(f"list literal of mixed types {ast.unparse(n)}")
            return "[" + ", ".join(e for e, _ in parts) + "]", f"List {atom(parts[0][1])}"
        if isinstance(n, ast.IfExp):
            n0 = len(pre)
            c, tc = self.E(n.test, env, pre); a, ta = self.E(n.body, env, pre); b, tb = self.E(n.orelse, env, pre)
            if len(pre) != n0: raise self.err("raising expression inside a conditional expression")
            if tc != "Bool": raise self.err("condition of a conditional expression is not boolean")
            t = ta if ta == tb else self.num_join(ta, tb, n)
            return f"(if {c} then {self.cast(a, ta, t)} else {self.cast(b, tb, t)})", t
        if isinstance(n, ast.ListComp):
            if len(n.generators) != 1 or n.generators[0].is_async or len(n.generators[0].ifs) > 1: raise self.err("nested comprehension")
            g = n.generators[0]
            it, tit = self.E(g.iter, env, pre)
            el = arg_of(tit, "List")
            if el is None: raise self.err(f"comprehension over a {tit}")
            env2 = dict(env)
            binder = self.bind_target(g.target, el, env2)
            ipre = []
            flt = ""
            if g.ifs:
                c, tc = self.E(g.ifs[0], env2, ipre)
                if tc != "Bool" or ipre: raise self.err("unsupported comprehension filter")
                flt = f".filter (fun {binder} => {c})"
            e, te = self.E(n.elt, env2, ipre)
            if ipre:
                body = self.wrap_pre(ipre, f"some {atom(e)}", "none")
                t = self.tmp(); pre.append((t, f"(({it}){flt}.mapM (fun {binder} => {body}))"))
                return t, f"List {atom(te)}"
            return f"(({it}){flt}.map (fun {binder} => {e}))", f"List {atom(te)}"
        if isinstance(n, ast.Call) and isinstance(n.func, ast.Name) and n.func.id == "len" and len(n.args) == 1 and not n.keywords:
            e, t = self.E(n.args[0], env, pre)
            if arg_of(t, "List") is None: raise self.err(f"len() of a {t}")
            return f"{atom(e)}.length", "Nat"
        if isinstance(n, ast.Subscript):
            e, t = self.E(n.value, env, pre)
            rule = self.v.subs.get(t) or self.v.subs.get(t.split(" ")[0])
            if rule and "get" in rule:
                k, tk = self.E(n.slice, env, pre)
                tmpl, ty, raising = rule["get"]
                txt = tmpl.format(x=e, k=k, T_k=tk)
                if raising:
                    tt = self.tmp(); pre.append((tt, txt)); return tt, ty
                return txt, ty
            cs = comps(t)
            if len(cs) > 1 and isinstance(n.slice, ast.Constant) and isinstance(n.slice.value, int) and 0 <= n.slice.value < len(cs):
                i = n.slice.value
                proj = ".2" * i + (".1" if i < len(cs) - 1 else "")
                return f"{atom(e)}{proj}", cs[i]
        raise self.err(f"unsupported expression `{self.show(n)}`")

    def show(self, n):
        inv = {v: k for k, v in self.renamed.items()}
        try: return ast.unparse(_Rename(inv).visit(copy.deepcopy(n)))[:90]
        except Exception: return ast.unparse(n)[:90]  # noqa

    def unren(self, x):
        inv = {v: k for k, v in self.renamed.items()}
        return inv.get(x, x)

    def num_join(self, ta, tb, n):
        order = ["Nat", "Int", "Rat"]
        if ta in order and tb in order: return order[max(order.index(ta), order.index(tb))]
        if ta == tb: return ta
        raise self.err(f"operands of types {ta} and {tb} in `{self.show(n)}`")

    def cast(self, e, t, to):
        if t == to: return e
        if e.isdigit(): return f"({e} : {to})"
        return f"(({e} : {t}) : {to})"

    def wrap_pre(self, pre, inner, raise_txt="none"):
        out = inner
        for t, opt in reversed(pre):
            out = f"(match {opt} with | none => {raise_txt} | some {t} => {out})"
        return out

    def bind_target(self, t, ty, env):
        """loop / comprehension target of element type `ty`: returns the Lean binder pattern, extends env"""
        if isinstance(t, ast.Name):
            env[t.id] = ty; return f"({t.id} : {ty})" if False else t.id
        if isinstance(t, (ast.Tuple, ast.List)):
            cs = comps(ty)
            if len(cs) != len(t.elts):
                if len(t.elts) == 2 and len(cs) > 2: cs = [cs[0], prod(cs[1:])]
                else: raise self.err(f"cannot unpack a {ty} into {len(t.elts)} names")
            parts = []
            for k, (e, c) in enumerate(zip(t.elts, cs)):
                if k == len(cs) - 1 and len(t.elts) < len(comps(ty)): c = prod(comps(ty)[k:])
                parts.append(self.bind_target(e, c, env))
            return "(" + ", ".join(parts) + ")"
        raise self.err(f"unsupported assignment target `{self.show(t)}`")

    # -- statements ------------------------------------------------------------------------------------------------
    @staticmethod
    def assigned(stmts):
        """names (incl. dotted pseudo-locals) assigned / mutated in the statements"""
        out = []

        def add(x):
            if x not in out: out.append(x)

        def tg(t):
            if isinstance(t, ast.Name): add(t.id)
            elif isinstance(t, (ast.Tuple, ast.List)):
                for e in t.elts: tg(e)
            elif isinstance(t, ast.Subscript): tg(t.value)
            elif isinstance(t, ast.Attribute): add(ast.unparse(t))
        for s in stmts:
            for n in ast.walk(s):
                if isinstance(n, ast.Assign):
                    for t in n.targets: tg(t)
                elif isinstance(n, ast.AugAssign): tg(n.target)
                elif isinstance(n, ast.For): tg(n.target)
                elif isinstance(n, ast.Expr) and isinstance(n.value, ast.Call) and isinstance(n.value.func, ast.Attribute) \
                        and n.value.func.attr in ("append", "add", "clear", "extend", "sort"):
                    tg(n.value.func.value)
        return out

    @staticmethod
    def used(nodes):
        out = []
        for s in nodes:
            for n in ast.walk(s):
                if isinstance(n, ast.Name) and n.id not in out: out.append(n.id)
                if isinstance(n, ast.Attribute):
                    u = ast.unparse(n)
                    if u not in out: out.append(u)
        return out

    @staticmethod
    def terminates(stmts):
        if not stmts: return False
        s = stmts[-1]
        if isinstance(s, (ast.Return, ast.Raise, ast.Continue, ast.Break)): return True
        if isinstance(s, ast.If): return Compiler.terminates(strip(s.body)) and Compiler.terminates(strip(s.orelse))
        return False

    def block(self, stmts, env, exits, ind):
        """compile statements; `exits` = {'fall': fn(env)->lean, 'return': fn(node,env)->lean, 'raise': lean, 'continue': fn(env), 'break': fn(env)}"""
        stmts = strip(stmts)
        stmts = [s for s in stmts if not any(pmatch(d, s, {}) for d in self.drop)]
        if not stmts: return ind + exits["fall"](env)
        s, rest = stmts[0], stmts[1:]
        nxt = lambda env2, i=ind: self.block(rest, env2, exits, i)   # noqa
        for pat, h in self.stmts:
            b = {}
            if pmatch(pat, s, b):
                r = h(self, b, env, nxt, ind, exits)
                if r is not None: return r
        if isinstance(s, ast.Return):
            return ind + self.ret_stmt(s, env, exits)
        if isinstance(s, ast.Raise):
            if exits.get("raise") is None: raise self.err("`raise` in a function the vocabulary declares total")
            return ind + exits["raise"]
        if isinstance(s, ast.Continue):
            if "continue" not in exits: raise self.err("`continue` outside a loop")
            return ind + exits["continue"](env)
        if isinstance(s, ast.Break):
            if "break" not in exits: raise self.err("`break` outside a for loop")
            return ind + exits["break"](env)
        if isinstance(s, ast.Assign) and len(s.targets) == 1:
            return self.assign(s.targets[0], s.value, env, nxt, ind, exits)
        if isinstance(s, ast.AugAssign) and isinstance(s.op, (ast.Add, ast.Sub)):
            tgt = copy.deepcopy(s.target)
            for x in ast.walk(tgt):
                if hasattr(x, "ctx"): x.ctx = ast.Load()
            return self.assign(s.target, ast.BinOp(tgt, s.op, s.value), env, nxt, ind, exits, aug=True)
        if isinstance(s, ast.Expr) and isinstance(s.value, ast.Call) and isinstance(s.value.func, ast.Attribute) and len(s.value.args) == 1 \
                and not s.value.keywords:
            pre = []
            x, tx = self.E(s.value.func.value, env, pre)
            key = ast.unparse(s.value.func.value)
            rule = (self.v.methods.get(tx) or self.v.methods.get(tx.split(" ")[0]) or {}).get(s.value.func.attr)
            if rule is None and s.value.func.attr == "append" and arg_of(tx, "List") is not None: rule = "{x} ++ [{a}]"
            if rule is None or key not in env: raise self.err(f"unsupported statement `{self.show(s)}`")
            a, ta = self.E(s.value.args[0], env, pre)
            el = arg_of(tx, "List")
            if s.value.func.attr == "append" and el is not None and el != ta:
                if arg_of(el, "Option") == ta: a = f"some {atom(a)}"
                else: raise self.err(f"appending a {ta} to a {tx}")
            line = f"{ind}let {self.lname(key)} : {tx} := {rule.format(x=x, a=a)}\n"
            return self.with_pre(pre, line + nxt(env), ind, exits)
        if isinstance(s, ast.If):
            return self.if_stmt(s, env, nxt, ind, exits, rest)
        if isinstance(s, ast.For) and not s.orelse:
            return self.for_stmt(s, env, nxt, ind, exits)
        if isinstance(s, ast.While) and not s.orelse:
            return self.while_stmt(s, env, nxt, ind, exits)
        raise self.err(f"unsupported statement `{self.show(s)[:70]}`")

    def with_pre(self, pre, inner, ind, exits):
        if not pre: return inner
        if exits.get("raise") is None: raise self.err("a raising expression in a function / loop the vocabulary declares total")
        out = ""
        for t, opt in pre:
            out += f"{ind}match {opt} with\n{ind}| none => {exits['raise']}\n{ind}| some {t} =>\n"
        return out + inner

    def ret_stmt(self, s, env, exits):
        if "return" not in exits: raise self.err("`return` inside a loop")
        return exits["return"](s.value, env)

    def assign(self, target, value, env, nxt, ind, exits, aug=False):
        pre = []
        if isinstance(target, ast.Subscript):
            x, tx = self.E(target.value, env, pre)
            key = ast.unparse(target.value)
            rule = self.v.subs.get(tx) or self.v.subs.get(tx.split(" ")[0])
            if rule is None or "set" not in rule or key not in env: raise self.err(f"unsupported subscript assignment to `{self.show(target)}`")
            k, tk = self.E(target.slice, env, pre)
            if aug and "aug" in rule:
                e, te = self.E(value.right, env, pre)
                line = f"{ind}let {self.lname(key)} : {tx} := {rule['aug'].format(x=x, k=k, v=e, op=('+' if isinstance(value.op, ast.Add) else '-'))}\n"
            else:
                e, te = self.E(value, env, pre)
                line = f"{ind}let {self.lname(key)} : {tx} := {rule['set'].format(x=x, k=k, v=e, T_v=te)}\n"
            return self.with_pre(pre, line + nxt(env), ind, exits)
        if isinstance(target, ast.Tuple) and isinstance(value, ast.Tuple) and len(target.elts) == len(value.elts):
            # parallel assignment: all right-hand sides first
            vals = [self.E(v, env, pre) for v in value.elts]
            env2 = dict(env)
            names = []
            for t, (e, ty) in zip(target.elts, vals):
                if not isinstance(t, ast.Name): raise self.err(f"unsupported assignment target `{self.show(t)}`")
                env2[t.id] = self.keep_type(env.get(t.id), ty, t.id); names.append(t.id)
            line = f"{ind}let {tup(names)} : {prod([atom(env2[x]) for x in names])} := {tup([e for e, _ in vals])}\n"
            return self.with_pre(pre, line + nxt(env2), ind, exits)
        e, te = self.E(value, env, pre)
        env2 = dict(env)
        if isinstance(target, ast.Name) and target.id in self.int_names and te == "Nat":
            e, te = self.cast(e, "Nat", "Int"), "Int"
        if isinstance(target, ast.Name):
            env2[target.id] = self.keep_type(env.get(target.id), te, target.id)
            line = f"{ind}let {target.id} : {env2[target.id]} := {e}\n"
        elif isinstance(target, ast.Attribute) and (ast.unparse(target) in env or
                                                    (isinstance(target.value, ast.Name) and target.value.id == "p0")):
            key = ast.unparse(target)
            env2[key] = self.keep_type(env.get(key), te)
            line = f"{ind}let {self.lname(key)} : {env2[key]} := {e}\n"
        else:
            binder = self.bind_target(target, te, env2)
            line = f"{ind}let {binder} := {e}\n"
        return self.with_pre(pre, line + nxt(env2), ind, exits)

    def keep_type(self, old, new, name=None):
        if old is None or old == new: return new
        if name is not None and (arg_of(new, "Option") == old or arg_of(old, "Option") == new):
            if name in self.widened: return new
            if arg_of(new, "Option") == old: raise Widen(name)
        if "?" in new: return old
        if "?" in old: return new
        order = ["Nat", "Int", "Rat"]
        if old in order and new in order and order.index(new) <= order.index(old): return old
        raise self.err(f"a local changes its type from {old} to {new}")

    def if_stmt(self, s, env, nxt, ind, exits, rest):
        body, orelse = strip(s.body), strip(s.orelse)
        # specialisation: `if <parameter fixed by the vocabulary>:` keeps only the branch taken
        if isinstance(s.test, ast.Name) and s.test.id in self.cvals:
            taken = body if self.cvals[s.test.id] else orelse
            if self.terminates(taken): return self.block(taken, env, exits, ind)
            return self.block(taken + rest, env, exits, ind)
        # narrowing: `if x is None: <terminating>`  /  `if x is None or y is None: <terminating>`
        tests = s.test.values if (isinstance(s.test, ast.BoolOp) and isinstance(s.test.op, ast.Or)) else [s.test]
        if not orelse and self.terminates(body) and all(
                isinstance(t, ast.Compare) and len(t.ops) == 1 and isinstance(t.ops[0], ast.Is) and isinstance(t.comparators[0], ast.Constant)
                and t.comparators[0].value is None and isinstance(t.left, ast.Name) and t.left.id in env and arg_of(env[t.left.id], "Option")
                for t in tests):
            thn = self.block(body, env, exits, ind + "    ").strip()
            env2 = dict(env)
            out = ""
            for t in tests:
                x = t.left.id
                env2[x] = arg_of(env[x], "Option")
                out += f"{ind}match {x} with\n{ind}| none => {thn}\n{ind}| some {x} =>\n"
            return out + nxt(env2)
        pre = []
        c, tc = self.E(s.test, env, pre)
        if tc != "Bool": raise self.err(f"condition `{self.show(s.test)}` has type {tc}")
        tb, te = self.terminates(body), self.terminates(orelse)
        if tb or te:
            # a non-terminating branch continues with the statements after the `if`
            fall_next = dict(exits, fall=lambda e2: nxt(e2, ind + "  ").strip())
            thn = self.block(body, env, exits if tb else fall_next, ind + "  ")
            els = self.block(orelse, env, exits if te else fall_next, ind + "  ")
            return self.with_pre(pre, f"{ind}if {c} then (\n{thn})\n{ind}else (\n{els})", ind, exits)
        asg = list(dict.fromkeys([x for x in self.assigned(body + orelse)] + self.effect_names(body + orelse)))
        env2 = dict(env)
        raising = self.probe_raising(body + orelse, env, {})
        if raising and exits.get("raise") is None: raise self.err("a raising expression in a function / loop the vocabulary declares total")
        # locals created in both branches become visible afterwards
        e_b, e_e = {}, {}
        fall_b = lambda e2: (e_b.update(e2) or "@@")   # noqa
        fall_e = lambda e2: (e_e.update(e2) or "@@")   # noqa
        sub_exits = {"raise": "none"} if raising else {}
        tb_txt = self.block(body, env, dict(sub_exits, fall=fall_b), ind + "  ")
        te_txt = self.block(orelse, env, dict(sub_exits, fall=fall_e), ind + "  ") if orelse else ind + "  @@"
        if not orelse: e_e.update(env)
        outs = sorted([x for x in asg if x in e_b and x in e_e and e_b[x] != "Ignored"], key=_natkey)
        if not outs: raise self.err(f"`if {self.show(s.test)}` has no effect the translator can see")
        wrap_b, wrap_e = set(), set()
        for x in outs:
            if e_b[x] != e_e[x]:
                if arg_of(e_e[x], "Option") == e_b[x]: wrap_b.add(x); env2[x] = e_e[x]; continue
                if arg_of(e_b[x], "Option") == e_e[x]: wrap_e.add(x); env2[x] = e_b[x]; continue
                raise self.err(f"local gets type {e_b[x]} in one branch and {e_e[x]} in the other")
            env2[x] = e_b[x]
        res = tup([self.lname(x) for x in outs])
        res_b = tup([(f"(some {self.lname(x)})" if x in wrap_b else self.lname(x)) for x in outs])
        res_e = tup([(f"(some {self.lname(x)})" if x in wrap_e else self.lname(x)) for x in outs])
        tys = prod([atom(env2[x]) for x in outs])
        if raising:
            txt = (f"{ind}match (if {c} then (\n{tb_txt.replace('@@', 'some ' + res_b)})\n{ind}  else (\n{te_txt.replace('@@', 'some ' + res_e)}) : Option {atom(tys)}) with\n"
                   f"{ind}| none => {exits['raise']}\n{ind}| some {res} =>\n")
        else:
            txt = (f"{ind}let {res} : {tys} := if {c} then (\n{tb_txt.replace('@@', res_b)})\n{ind}  else (\n{te_txt.replace('@@', res_e)})\n")
        return self.with_pre(pre, txt + nxt(env2), ind, exits)

    def probe_raising(self, stmts, env, extra):
        """does compiling these statements need the `raise` exit?  (compiled on a scratch copy of the compiler state)"""
        probe = Compiler.__new__(Compiler); probe.__dict__.update(self.__dict__)
        probe.aux = []; probe.empties = list(self.empties); probe.widened = set(self.widened)
        try:
            probe.block(stmts, env, dict({"fall": lambda e2: "@@"}, **extra), "    ")
        except TranslateError as e:
            if "declares total" in str(e): return True
            raise
        return False

    def effect_names(self, stmts):
        out = []
        for src, names in getattr(self.v, "effects", []):
            pat = _pat_stmt(src, self.pmap)
            for st in stmts:
                for n in ast.walk(st):
                    if isinstance(n, ast.stmt) and pmatch(pat, n, {}):
                        out += [x.replace("self", "p0") for x in names if x.replace("self", "p0") not in out]
        return out

    def loop_sig(self, body_nodes, extra_nodes, env, own):
        carried = sorted([x for x in dict.fromkeys(self.assigned(body_nodes) + self.effect_names(body_nodes)) if x in env and x not in own and env[x] != "Ignored"], key=_natkey)
        used = self.used(body_nodes + extra_nodes)
        frees = [x for x in env if x in used and x not in carried and x not in own and env[x] != "Ignored"]
        return carried, frees

    def for_stmt(self, s, env, nxt, ind, exits):
        """`for`, retried with a loop-carried local widened to `Option τ` when the body assigns it an optional value"""
        prefix, env = "", dict(env)
        self.widened = {x for x in self.widened if arg_of(env.get(x, ""), "Option") is not None}
        for _ in range(6):
            saved = (self.nloop, list(self.aux), list(self.empties), self.ntmp)
            try:
                return prefix + self._for_stmt(s, env, nxt, ind, exits)
            except Widen as w:
                self.nloop, self.aux, self.empties, self.ntmp = saved
                if w.name not in env or arg_of(env[w.name], "Option") is not None:
                    raise self.err(f"a local changes its type to an optional value: {self.unren(w.name)}")
                prefix += f"{ind}let {w.name} : Option {atom(env[w.name])} := some {w.name}\n"
                env[w.name] = f"Option {atom(env[w.name])}"
                self.widened.add(w.name)
        raise self.err("cannot type the loop-carried locals")

    def _for_stmt(self, s, env, nxt, ind, exits):
        self.nloop += 1
        k = self.nloop
        pre = []
        it, tit = self.E(s.iter, env, pre)
        if tit in self.v.iters:
            it, tit = self.v.iters[tit][0].format(x=it), f"List {self.v.iters[tit][1]}"
        el = arg_of(tit, "List")
        if el is None: raise self.err(f"`for` over a {tit}: `{self.show(s.iter)}`")
        env_b = dict(env)
        own = []
        binder = self.bind_target(s.target, el, env_b)
        own = [x for x in env_b if x not in env]
        body = strip(s.body)
        carried, frees = self.loop_sig(body, [], env, own)
        if isinstance(s.iter, (ast.Name, ast.Attribute)) and ast.unparse(s.iter) in carried:
            raise self.err("the loop changes the container it iterates over")
        def _returns(nodes):
            for n in nodes:
                if isinstance(n, ast.Return): return True
                if isinstance(n, (ast.FunctionDef, ast.Lambda)): continue
                if _returns(list(ast.iter_child_nodes(n))): return True
            return False
        if not carried and _returns(body):
            # search loop: `for x in L: … return e …` — the first iteration that returns decides (Option R state, `none` = go on)
            if self.v.raising or pre or "return" not in exits: raise self.err("`return` inside a loop of a raising function")
            R = self.v.ret
            ex = {"fall": lambda e2: "none", "continue": lambda e2: "none",
                  "return": lambda v_, e2: "some " + atom(exits["return"](v_, e2)), "raise": None}
            btxt = self.block(body, env_b, ex, "  ")
            fparams = "".join(f" ({self.lname(x)} : {env[x]})" for x in frees)
            fargs = "".join(" " + self.lname(x) for x in frees)
            ctxa = (" " + self.v.ctxargs) if self.v.ctxargs else ""
            self.aux.append(
                f"/-- `{self.src_name}`, loop {k}: one iteration of `for {self.show(s.target)} in {self.show(s.iter)}`; the state is the value "
                f"`return`ed by an earlier iteration, if any -/\n"
                f"def {self.name}_for{k}_step{(' ' + self.v.ctx) if self.v.ctx else ''}{fparams} (st : Option {atom(R)}) (x : {el}) : Option {atom(R)} :=\n"
                f"  if st.isSome then st else\n  let {binder} := x\n{btxt}\n")
            return (f"{ind}match ({it}).foldl ({self.name}_for{k}_step{ctxa}{fargs}) none with\n{ind}| some r => r\n{ind}| none =>\n") + nxt(env)
        if not carried: raise self.err(f"`for {self.show(s.target)} in …` changes nothing the translator can see")
        def _breaks(nodes):
            for n in nodes:
                if isinstance(n, ast.Break): return True
                if isinstance(n, (ast.For, ast.While)): continue      # a `break` there leaves that loop
                if _breaks(list(ast.iter_child_nodes(n))): return True
            return False
        has_break = _breaks(body)
        sigma = prod([atom(env[x]) for x in carried])
        st_t = f"(Bool × {_unparen(sigma)})" if has_break else sigma
        st_pat = tup([self.lname(x) for x in carried])
        def ret(flag):
            def f(e2):
                parts = [(f"(some {self.lname(x)})" if (e2.get(x) != env[x] and arg_of(env[x], "Option") == e2.get(x)) else self.lname(x))
                         for x in carried]
                if has_break: return f"({flag}, {', '.join(parts)})"
                return parts[0] if len(parts) == 1 else "(" + ", ".join(parts) + ")"
            return f
        raising = self.probe_raising(body, env_b, {"continue": ret("false"), "break": ret("true")})
        wrap = (lambda f: (lambda e2: "some " + f(e2))) if raising else (lambda f: f)
        ex = {"fall": wrap(ret("false")), "continue": wrap(ret("false")), "break": wrap(ret("true")), "raise": ("none" if raising else None)}
        btxt = self.block(body, env_b, ex, "  ")
        fparams = "".join(f" ({self.lname(x)} : {env[x]})" for x in frees)
        fargs = "".join(" " + self.lname(x) for x in frees)
        ctxa = (" " + self.v.ctxargs) if self.v.ctxargs else ""
        rt = f"Option {atom(st_t)}" if raising else st_t
        if has_break:
            head = f"  if st.1 then {'some st' if raising else 'st'} else\n  let {st_pat} := st.2\n"
        else:
            head = f"  let {st_pat} := st\n"
        self.aux.append(
            f"/-- `{self.src_name}`, loop {k}: one iteration of `for {self.show(s.target)} in {self.show(s.iter)}`"
            f"{' (first component: `break` was executed)' if has_break else ''} -/\n"
            f"def {self.name}_for{k}_step{(' ' + self.v.ctx) if self.v.ctx else ''}{fparams} (st : {st_t}) (x : {el}) : {rt} :=\n"
            f"{head}  let {binder} := x\n{btxt}\n")
        fold = "foldlM" if raising else "foldl"
        call = f"({it}).{fold} ({self.name}_for{k}_step{ctxa}{fargs}) {('(false, ' + _unparen(st_pat) + ')') if has_break else st_pat}"
        pat = f"(_, {_unparen(st_pat)})" if has_break else st_pat
        env2 = dict(env)
        if raising:
            if exits.get("raise") is None: raise self.err("a raising loop in a function the vocabulary declares total")
            txt = f"{ind}match {call} with\n{ind}| none => {exits['raise']}\n{ind}| some {pat} =>\n"
        else:
            txt = f"{ind}let {pat} : {st_t} := {call}\n"
        return self.with_pre(pre, txt + nxt(env2), ind, exits)

    def while_stmt(self, s, env, nxt, ind, exits):
        self.nloop += 1
        k = self.nloop
        if self.v.fuel is None: raise self.err("a `while` loop, and the vocabulary gives no fuel for it")
        body = strip(s.body)
        carried, frees = self.loop_sig(body, [s.test], env, [])
        if not carried: raise self.err("`while` loop without loop-carried local")
        sigma = prod([atom(env[x]) for x in carried])
        st_pat = tup([self.lname(x) for x in carried])
        pre = []
        c, tc = self.E(s.test, env, pre)
        if pre or tc != "Bool": raise self.err(f"unsupported `while` condition `{self.show(s.test)}`")
        btxt = self.block(body, env, {"fall": lambda e2: st_pat, "raise": None}, "  ")
        fparams = "".join(f" ({self.lname(x)} : {env[x]})" for x in frees)
        fargs = "".join(" " + self.lname(x) for x in frees)
        ctx = (" " + self.v.ctx) if self.v.ctx else ""
        ctxa = (" " + self.v.ctxargs) if self.v.ctxargs else ""
        nm = f"{self.name}_while{k}"
        self.aux.append(
            f"/-- `{self.src_name}`, loop {k}: the condition `{self.show(s.test)}` in terms of the loop-carried locals -/\n"
            f"def {nm}_cond{ctx}{fparams} (st : {sigma}) : Bool :=\n  let {st_pat} := st\n  {c}\n"
            f"/-- its body -/\n"
            f"def {nm}_body{ctx}{fparams} (st : {sigma}) : {sigma} :=\n  let {st_pat} := st\n{btxt}\n"
            f"/-- the loop, on a fuel argument -/\n"
            f"def {nm}_loop{ctx}{fparams} : Nat → {sigma} → {sigma}\n  | 0, st => st\n"
            f"  | fuel + 1, st => if {nm}_cond{ctxa}{fargs} st then {nm}_loop{ctxa}{fargs} fuel ({nm}_body{ctxa}{fargs} st) else st\n")
        fuel = self.v.fuel.format(**{self.unren(x): self.lname(x) for x in env})
        txt = f"{ind}let {st_pat} : {sigma} := {nm}_loop{ctxa}{fargs} ({fuel}) {st_pat}\n"
        return txt + nxt(env)

    # -- the function ------------------------------------------------------------------------------------------------
    def compile(self):
        env = {}
        params = []
        for i, (nm, ty) in enumerate(zip(self.v.params, self.v.ptypes)):
            if ty is None: continue
            env[f"p{i}"] = ty
            params.append(f"(p{i} : {ty})")
        ret_t = self.v.ret

        def do_return(value, env2):
            if value is None: raise self.err("bare `return`")
            for pat, txt in self.returns:
                b = {}
                if pmatch(pat, value, b):
                    if not isinstance(txt, str): return txt(self, b, env2)
                    vals = {}
                    for kk, sub in b.items(): vals[kk[2:]] = self.E(sub, env2, [])[0]
                    return txt.format(**vals)
            pre = []
            e, t = self.E(value, env2, pre)
            want = ret_t
            if "?" in t:
                import re
                if re.fullmatch(re.escape(t).replace("\\?", ".+?"), want): t = want
            if t != want:
                if arg_of(want, "Option") == t: e = f"some {atom(e)}"
                else: raise self.err(f"returns a {t}, expected {want}: `{self.show(value)}`")
            inner = f"some {atom(e)}" if self.v.raising else e
            return self.wrap_pre(pre, inner, "none") if pre else inner
        env.update({k.replace("self", "p0"): t for k, t in self.v.init_env.items()})
        fall = (lambda e2: (("some " + atom(self.v.fall)) if self.v.raising else self.v.fall)) if self.v.fall else \
            (lambda e2: (_ for _ in ()).throw(self.err("falls off the end without `return`")))
        exits = {"fall": fall,
                 "return": do_return, "raise": ("none" if self.v.raising else None)}
        body = self.block(self.fn.body, env, exits, "  ")
        ctx = (" " + self.v.ctx) if self.v.ctx else ""
        rt = f"Option {atom(ret_t)}" if self.v.raising else ret_t
        doc = self.doc or f"`{self.src_name}`"
        main = f"/-- {doc} -/\ndef {self.name}{ctx}{''.join(' ' + p for p in params)} : {rt} :=\n{body}\n"
        return "\n".join(self.aux) + ("\n" if self.aux else "") + main


def rest_marker(): return []


def compile_function(lean_name, fn, vocab, doc=None):
    return Compiler(lean_name, fn, vocab, doc).compile()
