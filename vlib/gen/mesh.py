"""Shared structured generators: oriented manifold polygon surfaces, conforming tet meshes, polylines.

All randomness comes from the `random.Random` passed in. Coordinates are dyadic rationals (k/64) so that
Fraction(float) is small and exact; a smooth-ish random height lifts planar patches off-plane.
Meshes are returned as plain data: (verts: list[[x,y,z]], faces: list[list[int]]) etc.
"""
import math
from fractions import Fraction


def dy(x, den=64):
    return round(x * den) / den


# ------------------------------------------------------------------------------------------------
# independent manifoldness routine (used by generators and oracles; does not use mouette)
# ------------------------------------------------------------------------------------------------
def surface_stats(nv, faces):
    """Returns dict with manifold/oriented flags, euler characteristic, border loops, components."""
    sides = {}
    ok = True
    for f in faces:
        if len(f) < 3 or len(set(f)) != len(f) or any(v < 0 or v >= nv for v in f):
            ok = False
        for i in range(len(f)):
            s = (f[i], f[(i + 1) % len(f)])
            if s in sides: ok = False
            sides[s] = True
    und = {}
    for (a, b) in sides:
        und.setdefault((min(a, b), max(a, b)), []).append((a, b))
    if any(len(v) > 2 for v in und.values()): ok = False
    border = [(a, b) for (a, b) in sides if (b, a) not in sides]
    # umbrella condition: corners around each vertex form a single fan / cycle
    if ok:
        inc = {}
        for fi, f in enumerate(faces):
            n = len(f)
            for i, v in enumerate(f):
                inc.setdefault(v, []).append((f[(i - 1) % n], f[(i + 1) % n]))  # (prev, next)
        for v, lst in inc.items():
            nxt = {p: n for (p, n) in lst}  # walking: from face with prev=p go to face whose next == p
            by_next = {n: (p, n) for (p, n) in lst}
            if len(by_next) != len(lst) or len(nxt) != len(lst): ok = False; break
            starts = [pn for pn in lst if pn[0] not in by_next]  # faces whose prev side is border
            if len(starts) > 1: ok = False; break
            cur = starts[0] if starts else lst[0]
            seen = 0
            first = cur
            while True:
                seen += 1
                # rotate: next face is the one whose prev == cur.next
                cand = [pn for pn in lst if pn[0] == cur[1]]
                if not cand: break
                cur = cand[0]
                if cur == first or seen > len(lst): break
            if seen != len(lst): ok = False; break
    used = sorted({v for f in faces for v in f})
    E = len(und)
    chi = len(used) - E + len(faces)
    # border loops
    nb = {}
    for a, b in border: nb.setdefault(a, []).append(b)
    loops, seenb = 0, set()
    for a, b in border:
        if (a, b) in seenb: continue
        loops += 1
        cur = (a, b)
        while cur not in seenb:
            seenb.add(cur)
            nxts = nb.get(cur[1], [])
            if not nxts: break
            cur = (cur[1], nxts[0])
    # components (over faces through shared vertices)
    parent = list(range(nv))

    def find(x):
        while parent[x] != x:
            parent[x] = parent[parent[x]]; x = parent[x]
        return x
    for f in faces:
        for v in f[1:]:
            ra, rb = find(f[0]), find(v)
            if ra != rb: parent[ra] = rb
    comps = len({find(v) for v in used})
    return {"manifold": ok, "chi": chi, "loops": loops, "components": comps, "V": len(used), "E": E,
            "F": len(faces), "border_edges": len(border), "unused": nv - len(used)}


# ------------------------------------------------------------------------------------------------
# seed families
# ------------------------------------------------------------------------------------------------
def _height(rng):
    a, b, c = rng.uniform(-0.4, 0.4), rng.uniform(-0.4, 0.4), rng.uniform(-0.3, 0.3)
    fx, fy = rng.uniform(0.5, 2.0), rng.uniform(0.5, 2.0)
    return lambda x, y: dy(a * math.sin(fx * x) + b * math.cos(fy * y) + c * x * y)


def grid(rng, nu, nv, tri=False, jitter=True, flat=False):
    h = (lambda x, y: 0.0) if flat else _height(rng)
    V = []
    for i in range(nu):
        for j in range(nv):
            x = i + (rng.uniform(-0.3, 0.3) if jitter else 0)
            y = j + (rng.uniform(-0.3, 0.3) if jitter else 0)
            x, y = dy(x), dy(y)
            V.append([x, y, h(x, y)])
    F = []
    for i in range(nu - 1):
        for j in range(nv - 1):
            a, b, c, d = i * nv + j, (i + 1) * nv + j, (i + 1) * nv + j + 1, i * nv + j + 1
            if tri:
                if rng.random() < 0.5: F += [[a, b, c], [a, c, d]]
                else: F += [[a, b, d], [b, c, d]]
            else:
                F.append([a, b, c, d])
    return V, F


def delaunay_disk(rng, n):
    import numpy as np
    from scipy.spatial import Delaunay
    pts = set()
    while len(pts) < n:
        pts.add((dy(rng.uniform(-3, 3), 16), dy(rng.uniform(-3, 3), 16)))
    pts = sorted(pts)
    tri = Delaunay(np.array(pts, dtype=float))
    h = _height(rng)
    V = [[x, y, h(x, y)] for x, y in pts]
    F = []
    for t in tri.simplices:
        a, b, c = [int(i) for i in t]
        (xa, ya), (xb, yb), (xc, yc) = pts[a], pts[b], pts[c]
        det = (xb - xa) * (yc - ya) - (xc - xa) * (yb - ya)
        if det == 0: continue
        F.append([a, b, c] if det > 0 else [a, c, b])
    st = surface_stats(len(V), F)
    if not st["manifold"] or st["unused"] or st["chi"] != 1:
        return grid(rng, 3, 3, tri=True)
    return V, F


def torus(rng, nu, nv, tri=False, R=3.0, r=1.0):
    V = []
    for i in range(nu):
        for j in range(nv):
            u, v = 2 * math.pi * i / nu, 2 * math.pi * j / nv
            V.append([dy((R + r * math.cos(v)) * math.cos(u)), dy((R + r * math.cos(v)) * math.sin(u)), dy(r * math.sin(v))])
    F = []
    for i in range(nu):
        for j in range(nv):
            a, b = i * nv + j, ((i + 1) % nu) * nv + j
            c, d = ((i + 1) % nu) * nv + (j + 1) % nv, i * nv + (j + 1) % nv
            if tri: F += [[a, b, c], [a, c, d]]
            else: F.append([a, b, c, d])
    return V, F


def annulus(rng, nu, nv, tri=False):
    """cylinder-like strip wrapped in u: two border loops"""
    V = []
    for i in range(nu):
        for j in range(nv):
            u = 2 * math.pi * i / nu
            rad = 1.0 + j * 0.7
            V.append([dy(rad * math.cos(u)), dy(rad * math.sin(u)), dy(0.3 * j + 0.2 * math.sin(3 * u))])
    F = []
    for i in range(nu):
        for j in range(nv - 1):
            a, b = i * nv + j, ((i + 1) % nu) * nv + j
            c, d = ((i + 1) % nu) * nv + j + 1, i * nv + j + 1
            if tri: F += [[a, b, c], [a, c, d]]
            else: F.append([a, b, c, d])
    return V, F


def sphere_like(rng, level=0, tri=True):
    """octahedron, optionally midpoint-subdivided `level` times, projected on a sphere; or a cube (quads)."""
    if not tri:
        V = [[-1, -1, -1], [1, -1, -1], [1, 1, -1], [-1, 1, -1], [-1, -1, 1], [1, -1, 1], [1, 1, 1], [-1, 1, 1]]
        F = [[0, 3, 2, 1], [4, 5, 6, 7], [0, 1, 5, 4], [1, 2, 6, 5], [2, 3, 7, 6], [3, 0, 4, 7]]
        return [[float(c) for c in v] for v in V], F
    V = [[1, 0, 0], [-1, 0, 0], [0, 1, 0], [0, -1, 0], [0, 0, 1], [0, 0, -1]]
    F = [[0, 2, 4], [2, 1, 4], [1, 3, 4], [3, 0, 4], [2, 0, 5], [1, 2, 5], [3, 1, 5], [0, 3, 5]]
    V = [[float(c) for c in v] for v in V]
    for _ in range(level):
        mid = {}
        NF = []

        def m(a, b):
            k = (min(a, b), max(a, b))
            if k not in mid:
                p = [(V[a][t] + V[b][t]) / 2 for t in range(3)]
                n = math.sqrt(sum(c * c for c in p))
                V.append([dy(c / n * 1.5) for c in p]); mid[k] = len(V) - 1
            return mid[k]
        for a, b, c in F:
            ab, bc, ca = m(a, b), m(b, c), m(c, a)
            NF += [[a, ab, ca], [ab, b, bc], [ca, bc, c], [ab, bc, ca]]
        F = NF
    return V, F


def genus2(rng, n=4, tri=False):
    """connected sum of two tori: remove one quad from each and glue a 4-quad tube between the holes."""
    V1, F1 = torus(rng, n, n)
    V2, F2 = torus(rng, n, n)
    off = len(V1)
    V2 = [[x + 10.0, y, z] for x, y, z in V2]
    h1 = F1.pop(0)
    h2 = F2.pop(0)
    F2 = [[v + off for v in f] for f in F2]
    h2 = [v + off for v in h2]
    V = V1 + V2
    F = F1 + F2
    # hole h1 was face (a,b,c,d): border of remaining surface runs a->b->c->d as *reverse* sides. Tube quads:
    # connect h1[i],h1[i+1] with h2 reversed so orientation is consistent.
    g = [h2[0], h2[3], h2[2], h2[1]]
    for i in range(4):
        a, b = h1[i], h1[(i + 1) % 4]
        c, d = g[(i + 1) % 4], g[i]
        F.append([a, b, c, d])
    if tri:
        F = [t for f in F for t in ([f[0], f[1], f[2]], [f[0], f[2], f[3]])]
    st = surface_stats(len(V), F)
    assert st["manifold"] and st["chi"] == -2, st
    return V, F


# ------------------------------------------------------------------------------------------------
# mutations preserving oriented manifoldness
# ------------------------------------------------------------------------------------------------
def rotate_faces(rng, F):
    out = []
    for f in F:
        k = rng.randrange(len(f))
        out.append(f[k:] + f[:k])
    return out


def renumber(rng, V, F):
    perm = list(range(len(V)))
    rng.shuffle(perm)  # old -> new
    NV = [None] * len(V)
    for o, n in enumerate(perm): NV[n] = V[o]
    return NV, [[perm[v] for v in f] for f in F], perm


def shuffle_faces(rng, F):
    F = list(F); rng.shuffle(F); return F


def compact(V, F):
    used = sorted({v for f in F for v in f})
    m = {o: n for n, o in enumerate(used)}
    return [V[o] for o in used], [[m[v] for v in f] for f in F]


def remove_faces(rng, V, F, k):
    """remove up to k faces, keeping the surface manifold (checked) and without isolated parts"""
    F = list(F)
    for _ in range(k * 4):
        if k == 0 or len(F) <= 2: break
        i = rng.randrange(len(F))
        G = F[:i] + F[i + 1:]
        V2, G2 = compact(V, G)
        st = surface_stats(len(V2), G2)
        if st["manifold"] and st["components"] == surface_stats(len(V), F)["components"]:
            F = G; k -= 1
    return compact(V, F)


def merge_polygons(rng, V, F, k):
    """merge pairs of faces across an interior edge into a bigger polygon (keeps manifoldness; checked)"""
    F = [list(f) for f in F]
    for _ in range(k * 4):
        if k == 0: break
        sides = {}
        for fi, f in enumerate(F):
            for i in range(len(f)): sides[(f[i], f[(i + 1) % len(f)])] = (fi, i)
        cand = [(s, sides[s], sides[(s[1], s[0])]) for s in sides if (s[1], s[0]) in sides and s[0] < s[1]]
        if not cand: break
        (a, b), (f1, i1), (f2, i2) = rng.choice(cand)
        A, B = F[f1], F[f2]
        if len(set(A) & set(B)) != 2 or len(A) + len(B) - 2 > 7: continue
        # A = ... a b ... ; B = ... b a ...
        A2 = A[i1 + 1:] + A[:i1 + 1]      # starts at b, ends at a
        B2 = B[i2 + 1:] + B[:i2 + 1]      # starts at a, ends at b
        P = A2 + B2[1:-1]                 # b ..A.. a  then B interior vertices from a to b
        G = [f for j, f in enumerate(F) if j not in (f1, f2)] + [P]
        V2, G2 = compact(V, G)
        st = surface_stats(len(V2), G2)
        if st["manifold"] and len(V2) == len(compact(V, F)[0]):
            F = G; k -= 1
    return V, F


def union(meshes):
    V, F = [], []
    for v, f in meshes:
        off = len(V)
        V += v; F += [[x + off for x in ff] for ff in f]
    return V, F


def random_surface(rng, max_faces=60, tri_only=False, closed=None, connected=False, disk=False):
    """A random oriented manifold polygon surface with a tag describing the family."""
    fams = ["grid", "delaunay", "torus", "annulus", "sphere", "genus2", "strip", "single"]
    if disk: fams = ["grid", "delaunay", "strip", "single"]
    if closed is True: fams = ["torus", "sphere", "genus2"]
    fam = rng.choice(fams)
    tri = tri_only or rng.random() < 0.5
    s = max(2, int(math.sqrt(max_faces / (2 if tri else 1))))
    if fam == "grid": V, F = grid(rng, rng.randint(2, s + 1), rng.randint(2, s + 1), tri)
    elif fam == "strip": V, F = grid(rng, 2, rng.randint(2, max(3, min(12, max_faces // 2))), tri)
    elif fam == "single":
        n = 3 if tri_only else rng.randint(3, 7)
        V = [[dy(math.cos(2 * math.pi * i / n) * 2), dy(math.sin(2 * math.pi * i / n) * 2), dy(rng.uniform(-.3, .3))] for i in range(n)]
        F = [list(range(n))]
    elif fam == "delaunay": V, F = delaunay_disk(rng, rng.randint(4, max(5, max_faces // 2)))
    elif fam == "torus": V, F = torus(rng, rng.randint(3, max(3, s)), rng.randint(3, max(3, s)), tri)
    elif fam == "annulus": V, F = annulus(rng, rng.randint(3, max(3, s)), rng.randint(2, max(2, s)), tri)
    elif fam == "sphere":
        V, F = sphere_like(rng, rng.randint(0, 1 if max_faces < 100 else 2), tri=tri or rng.random() < 0.7)
    else: V, F = genus2(rng, rng.randint(3, 4), tri)
    tag = [fam]
    if not disk and closed is None and rng.random() < 0.35 and len(F) > 6:
        V, F = remove_faces(rng, V, F, rng.randint(1, 3)); tag.append("holes")
    if not tri_only and rng.random() < 0.3:
        V, F = merge_polygons(rng, V, F, rng.randint(1, 4)); tag.append("polygons")
    if not connected and not disk and rng.random() < 0.15:
        V2, F2 = grid(rng, 2, 3, tri or tri_only)
        V2 = [[x + 20, y, z] for x, y, z in V2]
        V, F = union([(V, F), (V2, F2)]); tag.append("2comp")
    F = rotate_faces(rng, F)
    F = shuffle_faces(rng, F)
    if rng.random() < 0.7:
        V, F, _ = renumber(rng, V, F)
    V = [[float(c) for c in v] for v in V]
    st = surface_stats(len(V), F)
    assert st["manifold"] and st["unused"] == 0, (tag, st)
    return {"V": V, "F": F, "tag": "+".join(tag), "stats": st}


# ------------------------------------------------------------------------------------------------
# tetrahedral meshes
# ------------------------------------------------------------------------------------------------
def _det3(a, b, c):
    return (a[0] * (b[1] * c[2] - b[2] * c[1]) - a[1] * (b[0] * c[2] - b[2] * c[0]) + a[2] * (b[0] * c[1] - b[1] * c[0]))


def tet_sign(V, c):
    p = [V[i] for i in c]
    d = _det3([p[1][k] - p[0][k] for k in range(3)], [p[2][k] - p[0][k] for k in range(3)], [p[3][k] - p[0][k] for k in range(3)])
    return (d > 0) - (d < 0)


def kuhn_grid(rng, nx, ny, nz, jitter=True):
    idx = lambda i, j, k: (i * (ny + 1) + j) * (nz + 1) + k
    V = []
    for i in range(nx + 1):
        for j in range(ny + 1):
            for k in range(nz + 1):
                e = 0.2 if jitter else 0
                V.append([dy(i + rng.uniform(-e, e)), dy(j + rng.uniform(-e, e)), dy(k + rng.uniform(-e, e))])
    C = []
    import itertools
    for i in range(nx):
        for j in range(ny):
            for k in range(nz):
                for perm in itertools.permutations(range(3)):
                    p = [i, j, k]
                    path = [idx(*p)]
                    for ax in perm:
                        p[ax] += 1
                        path.append(idx(*p))
                    C.append(path)
    return V, C


def random_tets(rng, max_cells=60, orient="positive"):
    fam = rng.choice(["single", "pair", "edgefan", "kuhn", "kuhn", "vertexfan"])
    if fam == "single":
        V = [[0, 0, 0], [1, 0, 0], [0, 1, 0], [0, 0, 1]]; C = [[0, 1, 2, 3]]
    elif fam == "pair":
        V = [[0, 0, 0], [1, 0, 0], [0, 1, 0], [0, 0, 1], [1, 1, 1]]; C = [[0, 1, 2, 3], [1, 2, 3, 4]]
    elif fam == "edgefan":
        n = rng.randint(3, 7)
        closed = rng.random() < 0.6
        V = [[0, 0, -1], [0, 0, 1]] + [[dy(math.cos(2 * math.pi * i / n)), dy(math.sin(2 * math.pi * i / n)), dy(rng.uniform(-.2, .2))] for i in range(n)]
        C = [[0, 1, 2 + i, 2 + (i + 1) % n] for i in range(n if closed else n - 1)]
    elif fam == "vertexfan":
        # cone over an octahedron surface from the centre: interior vertex
        SV, SF = sphere_like(rng, 0)
        V = SV + [[0.0, 0.0, 0.0]]
        C = [[f[0], f[1], f[2], len(SV)] for f in SF]
    else:
        m = max(1, int(round((max_cells / 6) ** (1 / 3))))
        V, C = kuhn_grid(rng, rng.randint(1, m), rng.randint(1, m), rng.randint(1, max(1, m)))
    V = [[float(c) for c in v] for v in V]
    out = []
    for c in C:
        c = list(c)
        rng.shuffle(c)
        s = tet_sign(V, c)
        assert s != 0
        want = 1 if orient == "positive" else (-1 if orient == "negative" else rng.choice([1, -1]))
        if s != want: c[0], c[1] = c[1], c[0]
        out.append(c)
    rng.shuffle(out)
    if rng.random() < 0.6:
        perm = list(range(len(V))); rng.shuffle(perm)
        NV = [None] * len(V)
        for o, n in enumerate(perm): NV[n] = V[o]
        V = NV; out = [[perm[v] for v in c] for c in out]
    return {"V": V, "C": out, "tag": fam + "/" + orient}


# ------------------------------------------------------------------------------------------------
# polylines
# ------------------------------------------------------------------------------------------------
def random_polyline(rng, max_v=20):
    fam = rng.choice(["path", "cycle", "tree", "2comp", "graph"])
    n = rng.randint(2, max_v)
    V = [[dy(rng.uniform(-4, 4)), dy(rng.uniform(-4, 4)), dy(rng.uniform(-1, 1))] for _ in range(n)]
    if fam == "path": E = [[i, i + 1] for i in range(n - 1)]
    elif fam == "cycle": n = max(n, 3); V = V + [[1.0, 2.0, 3.0]] * (n - len(V)); E = [[i, (i + 1) % n] for i in range(n)]
    elif fam == "tree": E = [[rng.randrange(i), i] for i in range(1, n)]
    elif fam == "2comp":
        k = max(1, n // 2)
        E = [[i, i + 1] for i in range(k - 1)] + [[i, i + 1] for i in range(k, n - 1)]
    else:
        E = [[rng.randrange(i), i] for i in range(1, n)]
        for _ in range(n // 2):
            a, b = rng.randrange(n), rng.randrange(n)
            if a != b and [min(a, b), max(a, b)] not in E and [max(a, b), min(a, b)] not in E: E.append([min(a, b), max(a, b)])
    E = [e for e in E if e[0] != e[1]]
    if not E: E = [[0, 1]]
    return {"V": [[float(c) for c in v] for v in V], "E": E, "tag": fam}


# ------------------------------------------------------------------------------------------------
# building mouette objects
# ------------------------------------------------------------------------------------------------
def build_surface(case):
    import mouette as M
    d = M.mesh.RawMeshData()
    d.vertices += [M.Vec(*v) for v in case["V"]]
    d.faces += [list(f) for f in case["F"]]
    return M.mesh.SurfaceMesh(d)


def build_volume(case):
    import mouette as M
    d = M.mesh.RawMeshData()
    d.vertices += [M.Vec(*v) for v in case["V"]]
    d.cells += [list(c) for c in case["C"]]
    return M.mesh.VolumeMesh(d)


def build_polyline(case):
    import mouette as M
    d = M.mesh.RawMeshData()
    d.vertices += [M.Vec(*v) for v in case["V"]]
    d.edges += [tuple(e) for e in case["E"]]
    return M.mesh.PolyLine(d)


def frac(x):
    f = Fraction(x)
    return str(f.numerator) if f.denominator == 1 else f"{f.numerator}/{f.denominator}"
